(* Extraction of the executable model and of the executable specs to OCaml.
   ExtrOcamlBasic only: bool, option, unit, list, prod, sumbool, sumor map to OCaml's own types,
   andb/orb to && / ||.  N, positive, nat, Z stay the extracted inductive types. *)
Require Extraction.
Require Import ExtrOcamlBasic.
From PPP Require Import Base.Bytes Std.Utf8 Std.Text Std.Num Std.Ip Model.V2 Model.Builder Model.V1 Model.Auto Model.Ctor Model.Digest Spec.V2Wire Spec.TlvWalk Spec.Encoder Spec.V1Grammar.
Extraction Language OCaml.
Extraction "model.ml"
  lenN
  p2 tlv_next collect tlvs_len tlvs_is_empty
  h_display h_length h_len h_is_empty h_address_family h_address_bytes h_tlv_bytes h_as_bytes h_to_owned
  addresses_len addresses_is_empty family_to_u16 version_or_command command_or_version family_or_protocol protocol_or_family byte_length family_code
  is_incomplete2 is_complete2
  utf8_valid parse_u16 parse_ipv4 parse_ipv6 fmt_dec fmt_ipv4 fmt_ipv6
  p1 p1s addresses_from_str header_from_str h1_protocol addrs_protocol h1_addresses_str h1_to_string h1_to_owned fmt1
  is_incomplete1 is_incomplete1s pa is_incomplete_a is_complete_a drain frame_bytes on_read
  ip_new v1_of_ip4 v1_of_ip6 v2_of_ip4 v2_of_ip6 new_tcp4 new_tcp6 unix_new v1_of_pair v2_of_pair header1_new type_code
  d_v1b d_v1s d_v2 d_auto d_tlv
  write_to to_bytes brun z_of_digits item_ok_b item_payload_b
  enc_payload oversize expected_output body in_force payloads wire
  spec_v1 spec_port spec_ip4 spec_ip6
  v2_spec v2_possible spec_address_bytes spec_tlv_section walk.
