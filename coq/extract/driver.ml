(* Model driver: reads the same case file as the Rust harness and prints, for each case, the
   observation the extracted Coq model predicts, in the same canonical syntax.
   usage: driver <model|spec> <case-file>
   `model`: the line the implementation must print (correspondence).
   `spec` : the verdict of the executable Spec for this case (direct oracle), `-` when the mode has none. *)
open Model

(* ---- N <-> int ---- *)
let rec pos_of_int n = if n = 1 then XH else if n land 1 = 0 then XO (pos_of_int (n lsr 1)) else XI (pos_of_int (n lsr 1))
let n_of_int n = if n = 0 then N0 else Npos (pos_of_int n)
let rec int_of_pos = function XH -> 1 | XO p -> 2 * int_of_pos p | XI p -> 2 * int_of_pos p + 1
let int_of_n = function N0 -> 0 | Npos p -> int_of_pos p

let ntab = Array.init 256 n_of_int

(* ---- case-file syntax ---- *)
let hexval c = match c with
  | '0'..'9' -> Char.code c - 48 | 'a'..'f' -> Char.code c - 87 | 'A'..'F' -> Char.code c - 55
  | _ -> failwith "bad hex digit"

let split_on c s = String.split_on_char c s

(* bytes expression -> int list (reversed accumulation, then reversed) *)
let bytes_expr (s : string) : int list =
  let acc = ref [] in
  List.iter (fun piece ->
    if piece = "-" || piece = "" then ()
    else if String.length piece > 5 && String.sub piece 0 5 = "fill:" then begin
      match split_on ':' piece with
      | [_; n; hh] ->
        let n = int_of_string n and b = int_of_string ("0x" ^ hh) in
        for _ = 1 to n do acc := b :: !acc done
      | _ -> failwith "bad fill"
    end else begin
      let l = String.length piece in
      if l mod 2 <> 0 then failwith "odd hex";
      let i = ref 0 in
      while !i < l do
        acc := (hexval piece.[!i] * 16 + hexval piece.[!i + 1]) :: !acc;
        i := !i + 2
      done
    end) (split_on '+' s);
  List.rev !acc

let to_model (l : int list) : n list = List.map (fun b -> ntab.(b)) l
let of_model (l : n list) : int list = List.map int_of_n l
let mbytes s = to_model (bytes_expr s)

let fnv64 (b : int list) : int64 =
  List.fold_left (fun h x -> Int64.mul (Int64.logxor h (Int64.of_int x)) 0x100000001b3L) 0xcbf29ce484222325L b

let hexs_int (b : int list) : string =
  match b with
  | [] -> "-"
  | _ ->
    let len = List.length b in
    if len > 600 then begin
      let buf = Buffer.create 64 in
      List.iteri (fun i x -> if i < 32 then Buffer.add_string buf (Printf.sprintf "%02x" x)) b;
      Printf.sprintf "#%d:%s:%016Lx" len (Buffer.contents buf) (fnv64 b)
    end
    else begin
      let buf = Buffer.create (2 * len) in
      List.iter (fun x -> Buffer.add_string buf (Printf.sprintf "%02x" x)) b;
      Buffer.contents buf
    end
let hexs (b : n list) = hexs_int (of_model b)
let nstr n = string_of_int (int_of_n n)
let b01 b = if b then "1" else "0"

(* ---- v1 printers ---- *)
let v1_addr = function
  | Unknown -> "U"
  | Tcp4 (sa, da, sp, dp) -> Printf.sprintf "4/%s/%s/%s/%s" (hexs sa) (hexs da) (nstr sp) (nstr dp)
  | Tcp6 (sa, da, sp, dp) -> Printf.sprintf "6/%s/%s/%s/%s" (hexs sa) (hexs da) (nstr sp) (nstr dp)

let cs b = if b then "crate" else "std"
let v1_err = function
  | InvalidPrefix -> "InvalidPrefix" | Partial1 -> "Partial" | MissingPrefix -> "MissingPrefix"
  | MissingNewLine -> "MissingNewLine" | MissingProtocol -> "MissingProtocol"
  | MissingSourceAddress -> "MissingSourceAddress" | MissingDestinationAddress -> "MissingDestinationAddress"
  | MissingSourcePort -> "MissingSourcePort" | MissingDestinationPort -> "MissingDestinationPort"
  | HeaderTooLong -> "HeaderTooLong" | InvalidProtocol -> "InvalidProtocol" | InvalidSuffix -> "InvalidSuffix"
  | InvalidSourceAddress -> "InvalidSourceAddress" | InvalidDestinationAddress -> "InvalidDestinationAddress"
  | InvalidSourcePort b -> Printf.sprintf "InvalidSourcePort(%s)" (cs b)
  | InvalidDestinationPort b -> Printf.sprintf "InvalidDestinationPort(%s)" (cs b)
let v1_berr = function BParse e -> v1_err e | BInvalidUtf8 -> "InvalidUtf8"

let flags inc = Printf.sprintf " i%sc%s" (b01 inc) (b01 (not inc))

let v1_hdr h = Printf.sprintf "OK %s %s" (hexs h.text) (v1_addr h.addr)
let show_v1b r = (match r with Ok h -> v1_hdr h | Err e -> "ERR " ^ v1_berr e) ^ flags (is_incomplete1 r)
let show_v1s r = (match r with Ok h -> v1_hdr h | Err e -> "ERR " ^ v1_err e) ^ flags (is_incomplete1s r)
let show_v1a r = (match r with Ok a -> "OK " ^ v1_addr a | Err e -> "ERR " ^ v1_err e) ^ flags (is_incomplete1s r)

(* ---- v2 printers ---- *)
let v2_addr = function
  | AUnspec -> "N"
  | AIPv4 (sa, da, sp, dp) -> Printf.sprintf "4/%s/%s/%s/%s" (hexs sa) (hexs da) (nstr sp) (nstr dp)
  | AIPv6 (sa, da, sp, dp) -> Printf.sprintf "6/%s/%s/%s/%s" (hexs sa) (hexs da) (nstr sp) (nstr dp)
  | AUnix (s, d) -> Printf.sprintf "X/%s/%s" (hexs s) (hexs d)

let v2_err = function
  | Incomplete n -> Printf.sprintf "Incomplete(%s)" (nstr n)
  | Prefix -> "Prefix"
  | Version v -> Printf.sprintf "Version(%s)" (nstr v)
  | Command c -> Printf.sprintf "Command(%s)" (nstr c)
  | AddressFamily a -> Printf.sprintf "AddressFamily(%s)" (nstr a)
  | Protocol p -> Printf.sprintf "Protocol(%s)" (nstr p)
  | Partial (h, n) -> Printf.sprintf "Partial(%s,%s)" (nstr h) (nstr n)
  | InvalidAddresses (l, n) -> Printf.sprintf "InvalidAddresses(%s,%s)" (nstr l) (nstr n)
  | InvalidTLV (k, n) -> Printf.sprintf "InvalidTLV(%s,%s)" (nstr k) (nstr n)
  | Leftovers n -> Printf.sprintf "Leftovers(%s)" (nstr n)

let cmd_code = function Local -> 0 | Proxy -> 1
let proto_code = function PUnspec -> 0 | PStream -> 1 | PDatagram -> 2
let fam_idx = function FUnspec -> 0 | FIPv4 -> 1 | FIPv6 -> 2 | FUnix -> 3

let v2_hdr h =
  Printf.sprintf "OK %s v2 c%d p%d %s" (hexs h.hbytes) (cmd_code h.hcommand) (proto_code h.hprotocol) (v2_addr h.haddresses)

let show_v2 r =
  match r with
  | Ok h -> v2_hdr h ^ flags (Model.is_incomplete2 r)
  | Err e -> "ERR " ^ v2_err e ^ flags (Model.is_incomplete2 r)

let show_items (items : tlv_item list) =
  String.concat "," (List.map (function
    | TOk (k, v) -> Printf.sprintf "T%s:%s" (nstr k) (hexs v)
    | TErr e -> "E:" ^ v2_err e) items)

let show_tlvs (s : n list) =
  match collect s with
  | None -> "FUEL"
  | Some items ->
    let rec after_err seen = function
      | [] -> 0 | TErr _ :: r -> (if seen then 1 else 0) + after_err true r
      | TOk _ :: r -> (if seen then 1 else 0) + after_err seen r in
    (* fused: next() at the final offset returns None twice; the model's collect stops at the first None,
       and tlv_next does not change the offset when it returns None *)
    Printf.sprintf "n=%d fused=1 aftererr=%d len=%s empty=%s [%s]"
      (List.length items) (after_err false items) (nstr (tlvs_len s)) (b01 (tlvs_is_empty s)) (show_items items)

let show_sitems (items : sitem list) =
  String.concat "," (List.map (function
    | SOk (k, v) -> Printf.sprintf "T%s:%s" (nstr k) (hexs v)
    | SOverrun (k, n) -> Printf.sprintf "E:InvalidTLV(%s,%s)" (nstr k) (nstr n)
    | SShort -> "E:Short") items)

let views2_one h =
  Printf.sprintf "length=%s len=%s empty=%s fam=%d ab=%s tb=%s asb=%s alen=%s aempty=%s u16=%s vc=%s fp=%s tl=%s te=%s disp=%s"
    (nstr (h_length h)) (nstr (h_len h)) (b01 (h_is_empty h)) (fam_idx (h_address_family h))
    (hexs (h_address_bytes h)) (hexs (h_tlv_bytes h)) (hexs (h_as_bytes h))
    (nstr (addresses_len h.haddresses)) (b01 (addresses_is_empty h.haddresses))
    (nstr (family_to_u16 (h_address_family h)))
    (nstr (version_or_command h.hcommand)) (nstr (protocol_or_family h.hprotocol (h_address_family h)))
    (nstr (tlvs_len (h_tlv_bytes h))) (b01 (tlvs_is_empty (h_tlv_bytes h))) (hexs (h_display h))

let show_auto r =
  (match r with RV1 r -> "V1 " ^ show_v1b r | RV2 r -> "V2 " ^ show_v2 r)
  ^ Printf.sprintf " i%sc%s" (b01 (is_incomplete_a r)) (b01 (is_complete_a r))

let views1_one h =
  Printf.sprintf "proto=%s aproto=%s astr=%s str=%s" (hexs (h1_protocol h)) (hexs (addrs_protocol h.addr))
    (hexs (h1_addresses_str h)) (hexs (h1_to_string h))

let addr1 (f : string list) : addrs1 =
  match f with
  | ["U"] -> Unknown
  | ["4"; sa; da; sp; dp] -> Tcp4 (mbytes sa, mbytes da, n_of_int (int_of_string sp), n_of_int (int_of_string dp))
  | ["6"; sa; da; sp; dp] -> Tcp6 (mbytes sa, mbytes da, n_of_int (int_of_string sp), n_of_int (int_of_string dp))
  | _ -> failwith "bad addr1"

let show_fmt1 a =
  let s = fmt1 a in
  let rs = p1s s in
  Printf.sprintf "S=%s B=%s S=%s H=%s A=%s HS=%s" (hexs s) (show_v1b (p1 s)) (show_v1s rs)
    (show_v1s (header_from_str s)) (show_v1a (addresses_from_str s))
    (match rs with Ok h -> hexs (h1_to_string h) | Err _ -> "ERR")

let show_std kind arg =
  let b = mbytes arg in
  match kind with
  | "u16" -> (match parse_u16 b with Some n -> "OK " ^ nstr n | None -> "ERR")
  | "ip4" -> (match parse_ipv4 b with Some o -> "OK " ^ hexs o | None -> "ERR")
  | "ip6" -> (match parse_ipv6 b with Some o -> "OK " ^ hexs o | None -> "ERR")
  | "fmt4" -> "S=" ^ hexs (fmt_ipv4 b)
  | "fmt6" -> "S=" ^ hexs (fmt_ipv6 b)
  | "fmtu16" -> (match b with [h; l] -> "S=" ^ hexs (fmt_dec (n_of_int (int_of_n h * 256 + int_of_n l))) | _ -> failwith "fmtu16")
  | "utf8" -> "V=" ^ b01 (utf8_valid b)
  | k -> failwith ("bad std kind " ^ k)

let num s = n_of_int (int_of_string s)

let sock (f : string list) : sockaddr * string list =
  match f with
  | "4" :: ip :: port :: r -> (SV4 (mbytes ip, num port), r)
  | "6" :: ip :: port :: flow :: scope :: r -> (SV6 (mbytes ip, num port, num flow, num scope), r)
  | _ -> failwith "bad sock"

let types_tbl = [| ALPN; Authority; CRC32C; NoOp; UniqueId; SSL; SSLVersion; SSLCommonName; SSLCipher;
                   SSLSignatureAlgorithm; SSLKeyAlgorithm; NetworkNamespace |]

let show_ctor kind args =
  let f = split_on ',' args in
  match kind, f with
  | "ip4new", [sa; da; sp; dp] ->
    let v = ip_new (mbytes sa) (mbytes da) (num sp) (num dp) in
    Printf.sprintf "F=%s/%s/%s/%s V1=%s V2=%s N1=%s" (hexs v.source_address) (hexs v.destination_address)
      (nstr v.source_port) (nstr v.destination_port) (v1_addr (v1_of_ip4 v)) (v2_addr (v2_of_ip4 v))
      (v1_addr (new_tcp4 (mbytes sa) (mbytes da) (num sp) (num dp)))
  | "ip6new", [sa; da; sp; dp] ->
    let v = ip_new (mbytes sa) (mbytes da) (num sp) (num dp) in
    Printf.sprintf "F=%s/%s/%s/%s V1=%s V2=%s N1=%s" (hexs v.source_address) (hexs v.destination_address)
      (nstr v.source_port) (nstr v.destination_port) (v1_addr (v1_of_ip6 v)) (v2_addr (v2_of_ip6 v))
      (v1_addr (new_tcp6 (mbytes sa) (mbytes da) (num sp) (num dp)))
  | "unix", [s; d] ->
    (match unix_new (mbytes s) (mbytes d) with
     | AUnix (a, b) as u -> Printf.sprintf "F=%s/%s V2=%s" (hexs a) (hexs b) (v2_addr u)
     | _ -> failwith "unix")
  | "pair", _ ->
    let (s, r) = sock f in
    let (d, _) = sock r in
    Printf.sprintf "V1=%s V2=%s" (v1_addr (v1_of_pair s d)) (v2_addr (v2_of_pair s d))
  | "pairrt", _ ->
    let (s, r) = sock f in
    let (d, _) = sock r in
    let line = fmt1 (v1_of_pair s d) in
    let r1 = (match p1s line with Ok h -> v1_addr h.addr | Err _ -> "ERR") in
    let ra = (match addresses_from_str line with Ok a -> v1_addr a | Err _ -> "ERR") in
    let (w, r2) = (match brun (CWith (version_or_command Proxy, PStream, v2_of_pair s d)) [] with
      | BOk out -> (hexs out, (match p2 out with Ok h -> v2_addr h.haddresses | Err _ -> "ERR"))
      | _ -> ("ERR", "ERR")) in
    Printf.sprintf "L=%s R1=%s RA=%s W=%s R2=%s" (hexs line) r1 ra w r2
  | "hdr1", t :: a ->
    let h = header1_new (mbytes t) (addr1 a) in
    Printf.sprintf "H=%s %s" (hexs h.text) (v1_addr h.addr)
  | "tlv", [k; v] ->
    let v = mbytes v in
    Printf.sprintf "K=%s V=%s len=%d empty=%s from_eq=1 owned_eq=1" k (hexs v) (List.length v) (b01 (v = []))
  | "type", [t] -> Printf.sprintf "C=%s" (nstr (type_code types_tbl.(int_of_string t)))
  | "default1", _ -> "D=U"
  | "bitor", [c; f; p] ->
    let c = (if c = "0" then Local else Proxy) in
    let f = [| FUnspec; FIPv4; FIPv6; FUnix |].(int_of_string f) in
    let p = [| PUnspec; PStream; PDatagram |].(int_of_string p) in
    Printf.sprintf "VC=%s CV=%s FP=%s PF=%s FL=%s" (nstr (version_or_command c)) (nstr (command_or_version c))
      (nstr (family_or_protocol f p)) (nstr (protocol_or_family p f))
      (match byte_length f with Some n -> nstr n | None -> "-")
  | _ -> failwith ("bad ctor kind " ^ kind)

(* ---- payload / builder syntax (same as the harness) ---- *)
let types = [| ALPN; Authority; CRC32C; NoOp; UniqueId; SSL; SSLVersion; SSLCommonName; SSLCipher;
               SSLSignatureAlgorithm; SSLKeyAlgorithm; NetworkNamespace |]

let nat_of_int n = let rec go n acc = if n = 0 then acc else go (n - 1) (S acc) in go n O

let z_of_string (s : string) =
  let neg = String.length s > 0 && s.[0] = '-' in
  let body = if neg then String.sub s 1 (String.length s - 1) else s in
  let ds = List.init (String.length body) (fun i -> ntab.(Char.code body.[i] - 48)) in
  z_of_digits neg ds

(* consume an addr2 from a list of comma fields *)
let addr2 (f : string list) : addresses * string list =
  match f with
  | "N" :: r -> (AUnspec, r)
  | "4" :: sa :: da :: sp :: dp :: r -> (AIPv4 (mbytes sa, mbytes da, n_of_int (int_of_string sp), n_of_int (int_of_string dp)), r)
  | "6" :: sa :: da :: sp :: dp :: r -> (AIPv6 (mbytes sa, mbytes da, n_of_int (int_of_string sp), n_of_int (int_of_string dp)), r)
  | "X" :: s :: d :: r -> (AUnix (mbytes s, mbytes d), r)
  | _ -> failwith "bad addr2"

let split_once c s =
  match String.index_opt s c with
  | Some i -> (String.sub s 0 i, String.sub s (i + 1) (String.length s - i - 1))
  | None -> failwith "split_once"

let payload_of (s : string) : payload =
  let (kind, rest) = split_once ':' s in
  let int w = PInt (nat_of_int w, z_of_string rest) in
  match kind with
  | "u8" | "i8" -> int 1 | "u16" | "i16" -> int 2 | "u32" | "i32" | "r32" -> int 4
  | "u64" | "i64" | "usize" | "isize" -> int 8 | "u128" | "i128" -> int 16
  | "b" -> PBytes (mbytes rest)
  | "a" -> PAddrs (fst (addr2 (split_on ',' rest)))
  | "t" -> let (k, v) = split_once ':' rest in PTlv (n_of_int (int_of_string k), mbytes v)
  | "q" -> let (k, v) = split_once ':' rest in PPair (n_of_int (int_of_string k), mbytes v)
  | "Q" -> let (k, v) = split_once ':' rest in PPair (type_code types.(int_of_string k), mbytes v)
  | "s" -> PSection (mbytes rest, N0)
  | "S" ->
    (* a section value on which next() was called n times: the cursor the model iterator reaches *)
    let (n, v) = split_once ':' rest in
    let v = mbytes v in
    let rec adv k off = if k = 0 then off else (match tlv_next v off with (_, off') -> adv (k - 1) off') in
    PSection (v, adv (int_of_string n) N0)
  | "y" -> PType types.(int_of_string rest)
  | k -> failwith ("bad payload kind " ^ k)

let proto_of = function "0" -> PUnspec | "1" -> PStream | "2" -> PDatagram | _ -> failwith "bad proto"

let ctor_of (s : string) : ctor =
  match split_on ',' s with
  | "N" :: vc :: afp :: [] -> CNew (n_of_int (int_of_string vc), n_of_int (int_of_string afp))
  | "W" :: vc :: p :: r -> CWith (n_of_int (int_of_string vc), proto_of p, fst (addr2 r))
  | "C" :: c :: p :: r ->
    let cmd = (match c with "0" -> Local | "1" -> Proxy | _ -> failwith "bad cmd") in
    CWith (version_or_command cmd, proto_of p, fst (addr2 r))
  | _ -> failwith "bad ctor"

let op_of (s : string) : bop =
  let (k, arg) = split_once '=' s in
  match k with
  | "R" -> Reserve (n_of_int (int_of_string arg))
  | "L" -> SetLength (if arg = "-" then None else Some (n_of_int (int_of_string arg)))
  | "P" -> WritePayload (payload_of arg)
  | "B" ->
    (* items `<n>*<payload>` are repeated n times *)
    let item s =
      match String.index_opt s '*' with
      | Some i when i > 0 && (let ok = ref true in String.iteri (fun j c -> if j < i && not (c >= '0' && c <= '9') then ok := false) s; !ok) ->
        let n = int_of_string (String.sub s 0 i) in
        let p = payload_of (String.sub s (i + 1) (String.length s - i - 1)) in
        List.init n (fun _ -> p)
      | _ -> [payload_of s] in
    WritePayloads (if arg = "-" then [] else List.concat_map item (split_on '|' arg))
  | "T" -> let (k, v) = split_once ':' arg in WriteTlv (n_of_int (int_of_string k), mbytes v)
  | "TT" -> let (k, v) = split_once ':' arg in WriteTlv (type_code types.(int_of_string k), mbytes v)
  | k -> failwith ("bad op " ^ k)

let ops_of (s : string) : bop list = if s = "-" then [] else List.map op_of (split_on ';' s)

(* the receive loop over pipelined headers: at most 64 frames *)
let show_frame = function F1 h -> Printf.sprintf "1:%d" (List.length h.text) | F2 h -> Printf.sprintf "2:%d" (List.length h.hbytes)
let pipe_loop buf =
  let (fs, rest) = drain (nat_of_int 64) buf in
  Printf.sprintf "P=%s R=%d" (if fs = [] then "-" else String.concat "," (List.map show_frame fs)) (List.length rest)

let show_build c ops =
  match brun c ops with
  | BOk out -> "OK " ^ hexs out
  | BErrAt i -> "ERR@" ^ nstr i
  | BErrBuild -> "ERR@build"

let show_buildparse c ops =
  match brun c ops with
  | BOk out ->
    let r = p2 out in
    let tl = (match r with Ok h -> show_tlvs (h_tlv_bytes h) | Err _ -> "REJ") in
    Printf.sprintf "OK %s | %s | %s" (hexs out) (show_v2 r) tl
  | BErrAt i -> "ERR@" ^ nstr i
  | BErrBuild -> "ERR@build"

let same r want = match r with BOk v -> if v = want then "1" else "0" | _ -> "E"

let show_rebuild x =
  match p2 x with
  | Err _ -> "REJ"
  | Ok h ->
    let vc = version_or_command h.hcommand and afp = protocol_or_family h.hprotocol (h_address_family h) in
    let want = h.hbytes in
    let ab = h_address_bytes h and tb = h_tlv_bytes h in
    let raw = brun (CNew (vc, afp)) [WritePayload (PBytes ab); WritePayload (PBytes tb)] in
    let sec = brun (CNew (vc, afp)) [WritePayload (PBytes ab); WritePayload (PSection (tb, N0))] in
    let items = (match collect tb with Some l -> l | None -> failwith "fuel") in
    let its = if List.for_all item_ok_b items
      then same (brun (CNew (vc, afp)) [WritePayload (PBytes ab); WritePayloads (List.map item_payload_b items)]) want
      else "-" in
    let v = if h_address_family h <> FUnspec
      then same (brun (CWith (vc, h.hprotocol, h.haddresses)) [WritePayload (PSection (tb, N0))]) want
      else "-" in
    Printf.sprintf "R=%s S=%s I=%s V=%s" (same raw want) (same sec want) its v

let rec drop n l = if n = 0 then l else match l with [] -> [] | _ :: r -> drop (n - 1) r

let show_write ?hist pre p =
  (* earlier writes into the same writer: results ignored, the writer keeps whatever they appended *)
  let pre = (match hist with
             | None -> pre
             | Some h -> List.fold_left (fun w q -> snd (write_to (payload_of q) w)) pre (split_on ';' h)) in
  let n0 = List.length pre in
  let (r, w) = write_to p pre in
  let tb = (match to_bytes p with Some v -> "OK " ^ hexs v | None -> "ERR") in
  let app = hexs (drop n0 w) in
  let tail = (match hist with None -> "" | Some _ -> Printf.sprintf " pre=%d" n0) in
  match r with
  | Some n -> Printf.sprintf "W=OK %s kept=1 app=%s TB=%s%s" (nstr n) app tb tail
  | None -> Printf.sprintf "W=ERR kept=1 app=%s TB=%s%s" app tb tail

(* ---- dispatch ---- *)
let model_line (f : string list) : string =
  match f with
  | ["v2"; x] -> show_v2 (p2 (mbytes x))
  | ["v1b"; x] -> show_v1b (p1 (mbytes x))
  | ["v1s"; x] -> let x = mbytes x in if utf8_valid x then show_v1s (p1s x) else "NOTUTF8"
  | ["v1fh"; x] -> let x = mbytes x in if utf8_valid x then show_v1s (header_from_str x) else "NOTUTF8"
  | ["v1fa"; x] -> let x = mbytes x in if utf8_valid x then show_v1a (addresses_from_str x) else "NOTUTF8"
  | ["auto"; x] -> show_auto (pa (mbytes x))
  | ["pipe"; x] -> pipe_loop (mbytes x)
  | ["readpipe"; x; cuts] ->
    let data = mbytes x in
    let cuts = (if cuts = "-" then [] else List.map int_of_string (split_on ',' cuts)) @ [List.length data] in
    let rec sub l a b = (* elements a..b-1 *)
      (match l with [] -> [] | y :: r -> if b <= 0 then [] else if a > 0 then sub r (a - 1) (b - 1) else y :: sub r 0 (b - 1)) in
    let rec reads prev = function [] -> [] | c :: r -> sub data prev c :: reads c r in
    let (fs, rest) = List.fold_left on_read ([], []) (reads 0 cuts) in
    Printf.sprintf "P=%s R=%d" (if fs = [] then "-" else String.concat "," (List.map show_frame fs)) (List.length rest)
  | ["sendpipe"; specs; rest] ->
    let frame spec =
      (match split_on '@' spec with
       | ["1"; a] -> Some (fmt1 (addr1 (split_on ',' a)))
       | ["2"; c; ops] -> (match brun (ctor_of c) (ops_of ops) with BOk out -> Some out | _ -> None)
       | _ -> failwith "bad frame") in
    let rec build acc = function
      | [] -> Some (List.concat (List.rev acc))
      | sp :: r -> (match frame sp with Some b -> build (b :: acc) r | None -> None) in
    (match build [] (split_on '~' specs) with
     | None -> "BUILD"
     | Some b -> let buf = b @ mbytes rest in Printf.sprintf "N=%d %s" (List.length buf) (pipe_loop buf))
  | ["views1"; x] ->
    (match p1 (mbytes x) with
     | Ok h -> Printf.sprintf "B[%s] O[%s]" (views1_one h) (views1_one (h1_to_owned h))
     | Err _ -> "REJ")
  | ["fmt1"; a] -> show_fmt1 (addr1 (split_on ',' a))
  | ["std"; k; a] -> show_std k a
  | ["ctor"; k; a] -> show_ctor k a
  | ["ctor"; k] -> show_ctor k "-"
  | ["tlv"; x] -> show_tlvs (mbytes x)
  | ["htlv"; x] -> (match p2 (mbytes x) with Ok h -> show_tlvs (h_tlv_bytes h) | Err _ -> "REJ")
  | ["views2"; x] ->
    (match p2 (mbytes x) with
     | Ok h -> Printf.sprintf "B[%s] O[%s]" (views2_one h) (views2_one (h_to_owned h))
     | Err _ -> "REJ")
  | ["digest"; m; x] ->
    let x = mbytes x in
    let d = (match m with "v1b" -> d_v1b x | "v1s" -> d_v1s x | "v2" -> d_v2 x | "auto" -> d_auto x | "tlv" -> d_tlv x
                        | _ -> failwith "digest mode") in
    String.concat ";" (List.map nstr d)
  | ["build"; c; ops] -> show_build (ctor_of c) (ops_of ops)
  | ["write"; pre; p] -> show_write (mbytes pre) (payload_of p)
  | ["write"; pre; p; hist] -> show_write ~hist (mbytes pre) (payload_of p)
  | ["buildparse"; c; ops] -> show_buildparse (ctor_of c) (ops_of ops)
  | ["rebuild"; x] -> show_rebuild (mbytes x)
  | m :: _ -> failwith ("model: unknown mode " ^ m)
  | [] -> ""

let spec_line (f : string list) : string =
  match f with
  | ["v2"; x] ->
    let x = mbytes x in
    (match v2_spec x with Some h -> v2_hdr h | None -> "REJ") ^ " possible=" ^ b01 (v2_possible x)
  | ["v1b"; x] | ["v1s"; x] | ["v1fh"; x] -> (match spec_v1 (mbytes x) with Some h -> v1_hdr h | None -> "REJ")
  | ["v1fa"; x] -> (match spec_v1 (mbytes x) with Some h -> "OK " ^ v1_addr h.addr | None -> "REJ")
  | ["fmt1"; a] ->
    (* the grammar's reading of the line the formatter model produces for this value *)
    (match spec_v1 (fmt1 (addr1 (split_on ',' a))) with Some h -> "WF " ^ v1_addr h.addr | None -> "NOTWF")
  | ["std"; "u16"; x] -> (match spec_port (mbytes x) with Some n -> "OK " ^ nstr n | None -> "ERR")
  | ["std"; "ip4"; x] -> (match spec_ip4 (mbytes x) with Some o -> "OK " ^ hexs o | None -> "ERR")
  | ["std"; "ip6"; x] -> (match spec_ip6 (mbytes x) with Some o -> "OK " ^ hexs o | None -> "ERR")
  | ["tlv"; x] -> "[" ^ show_sitems (walk (mbytes x)) ^ "]"
  | ["htlv"; x] ->
    (match v2_spec (mbytes x) with
     | Some h -> "[" ^ show_sitems (walk (spec_tlv_section h)) ^ "]"
     | None -> "REJ")
  | ["views2"; x] ->
    (match v2_spec (mbytes x) with
     | Some h -> Printf.sprintf "ab=%s tb=%s %s" (hexs (spec_address_bytes h)) (hexs (spec_tlv_section h)) (v2_hdr h)
     | None -> "REJ")
  | ["build"; c; ops] ->
    (* reference encoder over the same history: expected bytes if the build succeeds *)
    let c = ctor_of c and ops = ops_of ops in
    let big = List.exists oversize (payloads ops) in
    let blen = int_of_n (lenN (body c ops)) in
    Printf.sprintf "EXP %s big=%s body=%d force=%s" (hexs (expected_output c ops)) (b01 big) blen
      (match in_force ops with Some l -> nstr l | None -> "-")
  | ["buildparse"; c; ops] ->
    (* the wire encoding of (command, transport, addresses, TLV list), from Spec/Encoder.v *)
    (match split_on ',' c with
     | "C" :: cm :: pr :: r ->
       let cmd = (if cm = "0" then Local else Proxy) and a = fst (addr2 r) in
       let tlvs = List.map (function PTlv (k, v) | PPair (k, v) -> (k, v) | _ -> failwith "not a TLV history") (payloads (ops_of ops)) in
       Printf.sprintf "WIRE %s c%d p%d %s [%s]" (hexs (wire cmd (proto_of pr) a tlvs)) (cmd_code cmd) (proto_code (proto_of pr)) (v2_addr a)
         (String.concat "," (List.map (fun (k, v) -> Printf.sprintf "T%s:%s" (nstr k) (hexs v)) tlvs))
     | _ -> "-")
  | ["write"; _; p] | ["write"; _; p; _] ->
    let p = payload_of p in
    Printf.sprintf "ENC %s big=%s" (hexs (enc_payload p)) (b01 (oversize p))
  | _ -> "-"

let () =
  let which = Sys.argv.(1) and path = Sys.argv.(2) in
  let ic = open_in path in
  let out = Buffer.create 65536 in
  (try
    while true do
      let line = input_line ic in
      if line = "" || line.[0] = '#' then Buffer.add_string out line
      else begin
        let f = split_on ' ' line in
        let s = try (if which = "model" then model_line f else spec_line f)
                with Failure m -> "DRIVER-ERROR " ^ m | Stack_overflow -> "DRIVER-ERROR stack" in
        Buffer.add_string out s
      end;
      Buffer.add_char out '\n';
      if Buffer.length out > 60000 then (print_string (Buffer.contents out); Buffer.clear out)
    done
  with End_of_file -> ());
  print_string (Buffer.contents out)
