(* Model of core::str::from_utf8 (validity only) and str::is_char_boundary / str::get(..n).
   Written from the Unicode standard, table 3-7 (well-formed UTF-8 byte sequences), which is what
   core::str::validations::run_utf8_validation implements.  No proofs in this file. *)
From PPP Require Export Base.Bytes.

Definition in_range (lo hi b : N) : bool := (lo <=? b) && (b <=? hi).
Definition is_cont (b : N) : bool := in_range 128 191 b.

(* fuel-free: each step consumes at least one byte, the recursion is on the list structure *)
Fixpoint utf8_valid (l : bytes) : bool :=
  match l with
  | [] => true
  | b0 :: r0 =>
    if b0 <? 128 then utf8_valid r0
    else match r0 with
    | [] => false
    | b1 :: r1 =>
      if in_range 194 223 b0 then is_cont b1 && utf8_valid r1
      else match r1 with
      | [] => false
      | b2 :: r2 =>
        if b0 =? 224 then in_range 160 191 b1 && is_cont b2 && utf8_valid r2
        else if in_range 225 236 b0 || in_range 238 239 b0 then is_cont b1 && is_cont b2 && utf8_valid r2
        else if b0 =? 237 then in_range 128 159 b1 && is_cont b2 && utf8_valid r2
        else match r2 with
        | [] => false
        | b3 :: r3 =>
          if b0 =? 240 then in_range 144 191 b1 && is_cont b2 && is_cont b3 && utf8_valid r3
          else if in_range 241 243 b0 then is_cont b1 && is_cont b2 && is_cont b3 && utf8_valid r3
          else if b0 =? 244 then in_range 128 143 b1 && is_cont b2 && is_cont b3 && utf8_valid r3
          else false
        end
      end
    end
  end.

(* str::is_char_boundary(n): 0 and len are boundaries; otherwise the byte at n is not a continuation byte *)
Definition is_char_boundary (s : bytes) (n : N) : bool :=
  if n =? 0 then true
  else if lenN s <=? n then n =? lenN s
  else negb (is_cont (nthN n s)).

(* str::get(..n) *)
Definition str_get_to (s : bytes) (n : N) : option bytes :=
  if is_char_boundary s n then Some (takeN n s) else None.
