(* Models of Ipv4Addr::from_str, Ipv6Addr::from_str (core::net::parser) and of Display for Ipv4Addr /
   Ipv6Addr (core::net::ip_addr), written from the standard-library source shipped with the sandbox's
   toolchain.  An Ipv4Addr is its 4 octets, an Ipv6Addr its 16 octets.  No proofs in this file. *)
From PPP Require Export Base.Bytes Std.Num.

(* char::to_digit(radix) for radix 10 and 16 *)
Definition to_digit (radix c : N) : option N :=
  let d := if (48 <=? c) && (c <=? 57) then Some (c - 48)
           else if (97 <=? c) && (c <=? 102) then Some (c - 87)
           else if (65 <=? c) && (c <=? 70) then Some (c - 55)
           else None in
  match d with Some v => if v <? radix then Some v else None | None => None end.

(* the digit loop of read_number: value, number of digits, remaining input *)
Fixpoint read_digits (radix : N) (l : bytes) (acc cnt : N) : N * N * bytes :=
  match l with
  | c :: r => match to_digit radix c with
              | Some d => read_digits radix r (acc * radix + d) (cnt + 1)
              | None => (acc, cnt, l)
              end
  | [] => (acc, cnt, l)
  end.

(* Parser::read_number(radix, Some(max_digits), allow_zero_prefix) into a type with maximum `bound`;
   None = the parser state is restored (read_atomically) *)
Definition read_number (radix maxd bound : N) (allow_zero : bool) (l : bytes) : option (N * bytes) :=
  let lead0 := match l with 48 :: _ => true | _ => false end in
  let '(v, cnt, r) := read_digits radix l 0 0 in
  if (cnt =? 0) || (maxd <? cnt) then None
  else if negb allow_zero && lead0 && (1 <? cnt) then None
  else if bound <? v then None
  else Some (v, r).

Definition read_char (c : N) (l : bytes) : option bytes :=
  match l with x :: r => if x =? c then Some r else None | [] => None end.

(* read_separator(sep, index, inner) *)
Definition read_sep {A} (sep : N) (i : nat) (inner : bytes -> option (A * bytes)) (l : bytes) : option (A * bytes) :=
  match i with
  | O => inner l
  | _ => match read_char sep l with Some r => inner r | None => None end
  end.

Definition read_octet : bytes -> option (N * bytes) := read_number 10 3 255 false.

Definition read_ipv4 (l : bytes) : option (bytes * bytes) :=
  match read_sep 46 0 read_octet l with None => None | Some (a, l) =>
  match read_sep 46 1 read_octet l with None => None | Some (b, l) =>
  match read_sep 46 2 read_octet l with None => None | Some (c, l) =>
  match read_sep 46 3 read_octet l with None => None | Some (d, l) => Some ([a; b; c; d], l)
  end end end end.

(* Ipv4Addr::from_str *)
Definition parse_ipv4 (l : bytes) : option bytes :=
  if 15 <? lenN l then None
  else match read_ipv4 l with Some (o, []) => Some o | _ => None end.

(* read_groups(p, groups[..limit]): i = index of the slot being filled, fuel = slots left.
   Result: groups read (in order), whether an embedded IPv4 address ended them, remaining input. *)
Fixpoint read_groups (fuel : nat) (limit i : nat) (acc : list N) (l : bytes) : list N * bool * bytes :=
  match fuel with
  | O => (acc, false, l)
  | S f =>
    let try4 := if Nat.ltb (S i) limit then read_sep 58 i read_ipv4 l else None in
    match try4 with
    | Some ([a; b; c; d], r) => (acc ++ [a * 256 + b; c * 256 + d], true, r)
    | _ =>
      match read_sep 58 i (read_number 16 4 65535 true) l with
      | Some (g, r) => read_groups f limit (S i) (acc ++ [g]) r
      | None => (acc, false, l)
      end
    end
  end.

(* read_ipv6_addr: eight groups *)
Definition read_ipv6 (l : bytes) : option (list N * bytes) :=
  let '(head, v4, r) := read_groups 8 8 0 [] l in
  if Nat.eqb (length head) 8 then Some (head, r)
  else if v4 then None
  else match read_char 58 r with None => None | Some r =>
       match read_char 58 r with None => None | Some r =>
         let limit := (8 - (length head + 1))%nat in
         let '(tail, _, r) := read_groups limit limit 0 [] r in
         Some (head ++ repeatN 0 (8 - length head - length tail) ++ tail, r)
       end end.

(* Ipv6Addr::from([u16; 8]).octets() and Ipv6Addr::segments() *)
Fixpoint groups_to_octets (g : list N) : bytes :=
  match g with [] => [] | x :: r => x / 256 :: x mod 256 :: groups_to_octets r end.
Fixpoint octets_to_groups (o : bytes) : list N :=
  match o with h :: l :: r => 256 * h + l :: octets_to_groups r | _ => [] end.

(* Ipv6Addr::from_str *)
Definition parse_ipv6 (l : bytes) : option bytes :=
  match read_ipv6 l with Some (g, []) => Some (groups_to_octets g) | _ => None end.

(* ---- Display ---- *)
Fixpoint join (sep : N) (ps : list bytes) : bytes :=
  match ps with [] => [] | [p] => p | p :: r => p ++ sep :: join sep r end.

Definition fmt_ipv4 (o : bytes) : bytes := join 46 (map fmt_dec o).

(* the first longest run of zero groups: (start, len) *)
Fixpoint zrun (gs : list N) (i : nat) (cur best : nat * nat) : nat * nat :=
  match gs with
  | [] => best
  | g :: r =>
    if g =? 0 then
      let cur' := (if Nat.eqb (snd cur) 0 then i else fst cur, S (snd cur)) in
      zrun r (S i) cur' (if Nat.ltb (snd best) (snd cur') then cur' else best)
    else zrun r (S i) (0, 0)%nat best
  end.

Definition fmt_ipv6_groups (gs : list N) : bytes :=
  match gs with
  | [0; 0; 0; 0; 0; 65535; a; c] =>       (* to_ipv4_mapped *)
    [58; 58; 102; 102; 102; 102; 58] ++ fmt_ipv4 [a / 256; a mod 256; c / 256; c mod 256]
  | _ =>
    let '(st, ln) := zrun gs 0 (0, 0)%nat (0, 0)%nat in
    if Nat.ltb 1 ln
    then join 58 (map fmt_hex (firstn st gs)) ++ [58; 58] ++ join 58 (map fmt_hex (skipn (st + ln) gs))
    else join 58 (map fmt_hex gs)
  end.
Definition fmt_ipv6 (o : bytes) : bytes := fmt_ipv6_groups (octets_to_groups o).
