(* Models of the str / slice searching and splitting functions the crate uses:
   str::find('\r') / Iterator::position, str::splitn(n, |c| c == ' ' || c == '\r').
   On valid UTF-8 the bytes 0x20 and 0x0D occur only as the characters SP and CR, so splitting the
   characters of a &str is splitting its bytes.  No proofs in this file. *)
From PPP Require Export Base.Bytes.

Definition SP : N := 32.
Definition CR : N := 13.
Definition LF : N := 10.

(* str::find('\r'), [u8]::iter().position(|&c| c == b'\r') *)
Fixpoint first_cr (l : bytes) : option N :=
  match l with
  | [] => None
  | c :: r => if c =? CR then Some 0 else option_map N.succ (first_cr r)
  end.

Definition is_sep (c : N) : bool := (c =? SP) || (c =? CR).

(* one step of Split: the part before the first separator, and what follows the separator (if any) *)
Fixpoint cut (l : bytes) : bytes * option bytes :=
  match l with
  | [] => ([], None)
  | c :: r => if is_sep c then ([], Some r) else let '(a, t) := cut r in (c :: a, t)
  end.

(* splitn(n, pred) collected: at most n parts, the last one is the unsplit remainder *)
Fixpoint splitn (n : nat) (l : bytes) : list bytes :=
  match n with
  | O => []
  | S O => [l]
  | S n' => match cut l with (a, None) => [a] | (a, Some r) => a :: splitn n' r end
  end.
