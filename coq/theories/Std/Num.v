(* Models of u16::from_str, Display for u16 / u8, {:x} for u16.  Written from core::num (from_ascii_radix:
   optional leading '+', decimal digits, checked arithmetic) and core::fmt::num.  No proofs in this file. *)
From PPP Require Export Base.Bytes.

Definition dec_digit (c : N) : option N := if (48 <=? c) && (c <=? 57) then Some (c - 48) else None.

(* digits with checked accumulation into a u16 *)
Fixpoint u16_digits (l : bytes) (acc : N) : option N :=
  match l with
  | [] => Some acc
  | c :: r => match dec_digit c with
              | None => None
              | Some d => let acc' := acc * 10 + d in if 65535 <? acc' then None else u16_digits r acc'
              end
  end.

(* u16::from_str: "" -> Empty; "+" / "-" alone -> InvalidDigit; a leading '+' is skipped *)
Definition parse_u16 (s : bytes) : option N :=
  match s with
  | [] => None
  | [43] => None
  | 43 :: r => u16_digits r 0
  | _ => u16_digits s 0
  end.

(* Display for integers below 65536: decimal, no padding, no sign *)
Definition fmt_dec (n : N) : bytes :=
  if n <? 10 then [48 + n]
  else if n <? 100 then [48 + n / 10; 48 + n mod 10]
  else if n <? 1000 then [48 + n / 100; 48 + n / 10 mod 10; 48 + n mod 10]
  else if n <? 10000 then [48 + n / 1000; 48 + n / 100 mod 10; 48 + n / 10 mod 10; 48 + n mod 10]
  else [48 + n / 10000; 48 + n / 1000 mod 10; 48 + n / 100 mod 10; 48 + n / 10 mod 10; 48 + n mod 10].

(* {:x} for a u16: lower-case hexadecimal, no padding *)
Definition hexd (d : N) : N := if d <? 10 then 48 + d else 87 + d.
Definition fmt_hex (g : N) : bytes :=
  if g <? 16 then [hexd g]
  else if g <? 256 then [hexd (g / 16); hexd (g mod 16)]
  else if g <? 4096 then [hexd (g / 256); hexd (g / 16 mod 16); hexd (g mod 16)]
  else [hexd (g / 4096); hexd (g / 256 mod 16); hexd (g / 16 mod 16); hexd (g mod 16)].
