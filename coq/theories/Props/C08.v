(* C08 -- v1 formatting produces canonical lines that parse back to the same addresses.
   Statements only; proofs in Proofs/V1Format.v. *)
From PPP Require Import Base.Bytes Std.Utf8 Std.Text Std.Num Std.Ip Model.V1 Spec.V1Grammar
  Proofs.BytesFacts Proofs.V1Props Proofs.V1Format.

(* for every address value the Rust types can hold: the formatted text is a well-formed line of at most
   107 bytes (grammar of Spec/V1Grammar.v) that every text entry point parses back to the identical value *)
Theorem C08_round : forall a, wf_addrs1 a = true ->
  let l := fmt1 a in
  lenN l <= MAX_LENGTH
  /\ spec_v1 l = Some {| text := l; addr := a |}
  /\ p1 l = Ok {| text := l; addr := a |}
  /\ p1s l = Ok {| text := l; addr := a |}
  /\ header_from_str l = Ok {| text := l; addr := a |}
  /\ addresses_from_str l = Ok a.
Proof. exact fmt1_round_trip. Qed.

(* so distinct address values never share a line *)
Theorem C08_inj : forall a b, wf_addrs1 a = true -> wf_addrs1 b = true -> fmt1 a = fmt1 b -> a = b.
Proof. exact fmt1_injective. Qed.

(* a parsed header formats back to exactly the text it was parsed from *)
Theorem C08_header : forall x hd, p1 x = Ok hd -> h1_to_string hd = text hd /\ text hd = takeN (lenN (text hd)) x.
Proof. exact header_to_string. Qed.

Example C08_example :
  wf_addrs1 (Tcp6 [0;0;0;0;0;0;0;0;0;0;255;255;1;2;3;4] [32;1;13;184;0;0;0;0;0;0;0;0;0;0;0;1] 80 443) = true
  /\ fmt1 (Tcp6 [0;0;0;0;0;0;0;0;0;0;255;255;1;2;3;4] [32;1;13;184;0;0;0;0;0;0;0;0;0;0;0;1] 80 443)
     = [80;82;79;88;89;32;84;67;80;54;32;58;58;102;102;102;102;58;49;46;50;46;51;46;52;32;50;48;48;49;58;100;98;56;58;58;49;32;56;48;32;52;52;51;13;10].
Proof. vm_compute. split; reflexivity. Qed.

Print Assumptions C08_round.
Print Assumptions C08_inj.
Print Assumptions C08_header.
