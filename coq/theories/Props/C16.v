(* C16 -- text, byte and FromStr entry points agree; owned copies equal their originals.
   Statements only; proofs in Proofs/V1Props.v.
   PARTIAL: "remains valid and unchanged after the input buffer is overwritten or dropped" cannot be
   expressed over immutable Gallina values; it is guaranteed by Rust's type system (no `unsafe` in the
   crate, checked on every run) and observed by the harness (DESIGN 7-C16). *)
From PPP Require Import Base.Bytes Std.Utf8 Std.Text Model.V1 Model.V2 Proofs.BytesFacts Proofs.V1Props Proofs.V2Views.

(* whenever the examined line does not end inside a multi-byte character: the same outcome *)
Theorem C16_agree : forall s, utf8_valid s = true -> is_char_boundary s (window_end s) = true ->
  p1 s = map_err BParse (p1s s)
  /\ header_from_str s = map_ok h1_to_owned (p1s s)
  /\ addresses_from_str s = map_ok addr (p1s s)
  /\ forall h, h1_to_owned h = h.
Proof. exact entry_points_agree. Qed.

(* and an error in all of them when it does *)
Theorem C16_split : forall s, utf8_valid s = true -> is_char_boundary s (window_end s) = false ->
  is_ok (p1 s) = false /\ is_ok (p1s s) = false /\ is_ok (header_from_str s) = false /\ is_ok (addresses_from_str s) = false.
Proof. exact entry_points_split. Qed.

(* owned copies compare equal to their originals (and therefore expose the same views) *)
Theorem C16_owned : (forall h : header1, h1_to_owned h = h) /\ (forall h : header2, h_to_owned h = h).
Proof. split; intros [? ?]; reflexivity. Qed.

Print Assumptions C16_agree.
Print Assumptions C16_split.
Print Assumptions C16_owned.
