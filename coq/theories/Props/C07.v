(* C07 -- the v2 builder emits the specified wire format and its output parses back unchanged.
   Statements only; proofs in Proofs/RoundTrip.v. *)
From Coq Require Import ZArith.
From PPP Require Import Base.Bytes Model.V2 Model.Builder Spec.V2Wire Spec.TlvWalk Spec.Encoder
  Proofs.BytesFacts Proofs.Writer Proofs.BuilderRun Proofs.BuilderProps Proofs.RoundTrip.

(* for every command, transport, address block and TLV list that fits in 65535 bytes, every history
   that writes exactly those TLVs (as TLV structs or (type, bytes) pairs, one at a time, through
   write_tlv or in batches, with any reserve_capacity calls) builds the wire encoding of
   Spec/Encoder.v: signature, 0x20 | command, family and transport codes, big-endian payload length,
   network-order addresses and ports, then type, big-endian length, value for each TLV *)
Theorem C07_wire : forall cmd tr a tlvs ops,
  wf_addresses a = true ->
  Forall2 is_tlv_of (payloads ops) tlvs -> in_force ops = None ->
  forallb (fun kv => lenN (snd kv) <=? 65535) tlvs = true ->
  lenN (enc_addrs a ++ concat (map (fun kv => enc_tlv (fst kv) (snd kv)) tlvs)) <= 65535 ->
  brun (CWith (version_or_command cmd) tr a) ops = BOk (wire cmd tr a tlvs).
Proof. exact build_is_wire. Qed.

(* the write_tlv history is such a history *)
Theorem C07_write_tlv : forall tlvs,
  Forall2 is_tlv_of (payloads (tlv_ops tlvs)) tlvs /\ in_force_from None (tlv_ops tlvs) = None.
Proof. exact tlv_ops_payloads. Qed.

(* the named TLV types carry their registered codes *)
Theorem C07_named : forall t, type_code t = spec_type_code t.
Proof. exact type_code_spec. Qed.

(* parsing that header returns the same command, transport, addresses and bytes *)
Theorem C07_parse : forall cmd tr a tlvs,
  wf_addresses a = true -> wf_addr_bytes a = true -> wf_bytes (tlvs_payload tlvs) = true ->
  lenN (enc_addrs a ++ tlvs_payload tlvs) <= 65535 ->
  p2 (wire cmd tr a tlvs) = Ok {| hbytes := wire cmd tr a tlvs; hcommand := cmd; hprotocol := tr; haddresses := a |}.
Proof. exact wire_parses. Qed.

(* and, whenever an address family is specified, the same TLV sequence in the same order *)
Theorem C07_tlv_view : forall cmd tr a tlvs, wf_addresses a = true -> a <> AUnspec ->
  lenN (enc_addrs a ++ tlvs_payload tlvs) <= 65535 ->
  h_tlv_bytes {| hbytes := wire cmd tr a tlvs; hcommand := cmd; hprotocol := tr; haddresses := a |} = tlvs_payload tlvs.
Proof. exact tlv_view_of_wire. Qed.
Theorem C07_tlvs : forall tlvs, collect (tlvs_payload tlvs) = Some (map (fun kv => TOk (fst kv) (snd kv)) tlvs).
Proof. exact collect_enc. Qed.

Example C07_example :
  brun (CWith (version_or_command Proxy) PDatagram (AIPv4 [127; 0; 0; 1] [192; 168; 1; 1] 80 443)) (tlv_ops [(4, [42]); (5, [])])
  = BOk (SIG ++ [33; 18; 0; 19; 127; 0; 0; 1; 192; 168; 1; 1; 0; 80; 1; 187; 4; 0; 1; 42; 5; 0; 0]).
Proof. vm_compute. reflexivity. Qed.

Print Assumptions C07_wire.
Print Assumptions C07_write_tlv.
Print Assumptions C07_named.
Print Assumptions C07_parse.
Print Assumptions C07_tlv_view.
Print Assumptions C07_tlvs.
