(* C19 -- constructors and socket-address conversions keep every endpoint in its role.
   In Gallina these are one-line facts about Model/Ctor.v: the theorem layer adds little here, and
   DESIGN 7-C19 says so.  The property is decided by the tie: the model's constructors are compared
   with the real ones on values whose components are pairwise different. *)
From PPP Require Import Base.Bytes Model.V1 Model.V2 Model.Ctor.

(* the endpoints an address value describes: (source address, source port, destination address, destination port) *)
Definition endpoints1 (a : addrs1) : option (bytes * N * bytes * N) :=
  match a with Unknown => None | Tcp4 sa da sp dp | Tcp6 sa da sp dp => Some (sa, sp, da, dp) end.
Definition endpoints2 (a : addresses) : option (bytes * N * bytes * N) :=
  match a with AIPv4 sa da sp dp | AIPv6 sa da sp dp => Some (sa, sp, da, dp) | _ => None end.

Theorem C19_new : forall sa da sp dp,
  source_address (ip_new sa da sp dp) = sa /\ destination_address (ip_new sa da sp dp) = da
  /\ source_port (ip_new sa da sp dp) = sp /\ destination_port (ip_new sa da sp dp) = dp.
Proof. intros. repeat split. Qed.

Theorem C19_v1 : forall sa da sp dp,
  new_tcp4 sa da sp dp = Tcp4 sa da sp dp /\ new_tcp6 sa da sp dp = Tcp6 sa da sp dp
  /\ endpoints1 (new_tcp4 sa da sp dp) = Some (sa, sp, da, dp).
Proof. intros. repeat split. Qed.

Theorem C19_unix : forall s d, unix_new s d = AUnix s d.
Proof. reflexivity. Qed.

(* a pair of the same family converts to that family with the same IPs and ports (flow-info and scope
   ignored); a mixed pair converts to the unknown / unspecified value *)
Theorem C19_pair : forall a p b q f1 s1 f2 s2,
  v1_of_pair (SV4 a p) (SV4 b q) = Tcp4 a b p q /\ v2_of_pair (SV4 a p) (SV4 b q) = AIPv4 a b p q
  /\ v1_of_pair (SV6 a p f1 s1) (SV6 b q f2 s2) = Tcp6 a b p q /\ v2_of_pair (SV6 a p f1 s1) (SV6 b q f2 s2) = AIPv6 a b p q
  /\ v1_of_pair (SV4 a p) (SV6 b q f2 s2) = Unknown /\ v2_of_pair (SV4 a p) (SV6 b q f2 s2) = AUnspec
  /\ v1_of_pair (SV6 a p f1 s1) (SV4 b q) = Unknown /\ v2_of_pair (SV6 a p f1 s1) (SV4 b q) = AUnspec.
Proof. intros. repeat split. Qed.

(* the v1 and v2 conversions of the same pair describe the same endpoints *)
Theorem C19_same_endpoints : forall s d, endpoints1 (v1_of_pair s d) = endpoints2 (v2_of_pair s d).
Proof. intros [a p|a p f1 s1] [b q|b q f2 s2]; reflexivity. Qed.

Print Assumptions C19_new.
Print Assumptions C19_v1.
Print Assumptions C19_unix.
Print Assumptions C19_pair.
Print Assumptions C19_same_endpoints.
