(* C19 -- constructors and socket-address conversions keep every endpoint in its role.
   In Gallina these are one-line facts about Model/Ctor.v: the theorem layer adds little here, and
   DESIGN 7-C19 says so.  The property is decided by the tie: the model's constructors are compared
   with the real ones on values whose components are pairwise different. *)
From Coq Require Import ZArith List.
From PPP Require Import Base.Bytes Std.Num Std.Ip Model.V1 Model.V2 Model.Ctor Spec.V2Wire Spec.Encoder Proofs.RoundTrip Proofs.Roles.
Import ListNotations.
Local Open Scope N_scope.

(* the endpoints an address value describes -- (source address, source port, destination address,
   destination port) -- are endpoints1 / endpoints2 of Proofs/Roles.v; pair_endpoints s d is what the
   two socket addresses of one family say: (ip s, port s, ip d, port d) *)

Theorem C19_new : forall sa da sp dp,
  source_address (ip_new sa da sp dp) = sa /\ destination_address (ip_new sa da sp dp) = da
  /\ source_port (ip_new sa da sp dp) = sp /\ destination_port (ip_new sa da sp dp) = dp.
Proof. intros. repeat split. Qed.

Theorem C19_v1 : forall sa da sp dp,
  new_tcp4 sa da sp dp = Tcp4 sa da sp dp /\ new_tcp6 sa da sp dp = Tcp6 sa da sp dp
  /\ endpoints1 (new_tcp4 sa da sp dp) = Some (sa, sp, da, dp).
Proof. intros. repeat split. Qed.

Theorem C19_unix : forall s d, unix_new s d = AUnix s d.
Proof. reflexivity. Qed.

(* a pair of the same family converts to that family with the same IPs and ports (flow-info and scope
   ignored); a mixed pair converts to the unknown / unspecified value *)
Theorem C19_pair : forall a p b q f1 s1 f2 s2,
  v1_of_pair (SV4 a p) (SV4 b q) = Tcp4 a b p q /\ v2_of_pair (SV4 a p) (SV4 b q) = AIPv4 a b p q
  /\ v1_of_pair (SV6 a p f1 s1) (SV6 b q f2 s2) = Tcp6 a b p q /\ v2_of_pair (SV6 a p f1 s1) (SV6 b q f2 s2) = AIPv6 a b p q
  /\ v1_of_pair (SV4 a p) (SV6 b q f2 s2) = Unknown /\ v2_of_pair (SV4 a p) (SV6 b q f2 s2) = AUnspec
  /\ v1_of_pair (SV6 a p f1 s1) (SV4 b q) = Unknown /\ v2_of_pair (SV6 a p f1 s1) (SV4 b q) = AUnspec.
Proof. intros. repeat split. Qed.

(* the v1 and v2 conversions of the same pair describe the same endpoints *)
Theorem C19_same_endpoints : forall s d, endpoints1 (v1_of_pair s d) = endpoints2 (v2_of_pair s d).
Proof. intros [a p|a p f1 s1] [b q|b q f2 s2]; reflexivity. Qed.

(* End to end (with C07 and C08): the converted pair, encoded and parsed back, still has the source as
   the source.  v1: through Display and every text entry point *)
Theorem C19_round_v1 : forall s d, wf_sock s = true -> wf_sock d = true ->
  let l := fmt1 (v1_of_pair s d) in
  addresses_from_str l = Ok (v1_of_pair s d)
  /\ (forall hd, p1 l = Ok hd -> endpoints1 (addr hd) = pair_endpoints s d)
  /\ (forall hd, p1s l = Ok hd -> endpoints1 (addr hd) = pair_endpoints s d).
Proof. exact pair_round_v1. Qed.

(* v2: through the wire encoding the builder emits (C07_wire), with any command, transport and TLVs that fit *)
Theorem C19_round_v2 : forall cmd tr s d tlvs, wf_sock s = true -> wf_sock d = true ->
  wf_bytes (tlvs_payload tlvs) = true -> lenN (enc_addrs (v2_of_pair s d) ++ tlvs_payload tlvs) <= 65535 ->
  exists hd, p2 (wire cmd tr (v2_of_pair s d) tlvs) = Ok hd /\ endpoints2 (haddresses hd) = pair_endpoints s d.
Proof. exact pair_round_v2. Qed.

(* the order on the wire and in the text is the protocol's: source address, destination address,
   source port, destination port *)
Theorem C19_wire_layout : forall s d, same_family s d = true ->
  enc_addrs (v2_of_pair s d)
  = sock_ip s ++ sock_ip d ++ [sock_port s / 256; sock_port s mod 256] ++ [sock_port d / 256; sock_port d mod 256].
Proof. exact pair_wire_layout. Qed.
Theorem C19_text_layout : forall s d, same_family s d = true ->
  exists kw fmt, (kw = TCP4 \/ kw = TCP6) /\
  fmt1 (v1_of_pair s d)
  = PROXY ++ [SP] ++ kw ++ [SP] ++ fmt (sock_ip s) ++ [SP] ++ fmt (sock_ip d) ++ [SP]
    ++ fmt_dec (sock_port s) ++ [SP] ++ fmt_dec (sock_port d) ++ CRLF.
Proof. exact pair_text_layout. Qed.

(* a mixed pair carries no endpoints in either version, and both encodings say so *)
Theorem C19_mixed : forall s d, same_family s d = false ->
  v1_of_pair s d = Unknown /\ v2_of_pair s d = AUnspec
  /\ fmt1 (v1_of_pair s d) = PROXY ++ [SP] ++ UNKNOWN ++ CRLF /\ enc_addrs (v2_of_pair s d) = [].
Proof. exact pair_mixed. Qed.

(* both versions, one pair: the peer of a v1 sender and the peer of a v2 sender read the same endpoints *)
Theorem C19_cross_version : forall cmd tr s d, wf_sock s = true -> wf_sock d = true ->
  exists a1 hd2,
    addresses_from_str (fmt1 (v1_of_pair s d)) = Ok a1
    /\ p2 (wire cmd tr (v2_of_pair s d) []) = Ok hd2
    /\ endpoints1 a1 = endpoints2 (haddresses hd2)
    /\ endpoints1 a1 = pair_endpoints s d.
Proof. exact pair_cross_version. Qed.

(* the premises are satisfiable, and the round trip computes *)
Example C19_example :
  wf_sock (SV4 [10; 0; 0; 1] 1234) = true /\ wf_sock (SV4 [192; 168; 1; 9] 443) = true
  /\ addresses_from_str (fmt1 (v1_of_pair (SV4 [10; 0; 0; 1] 1234) (SV4 [192; 168; 1; 9] 443))) = Ok (Tcp4 [10; 0; 0; 1] [192; 168; 1; 9] 1234 443)
  /\ pair_endpoints (SV4 [10; 0; 0; 1] 1234) (SV4 [192; 168; 1; 9] 443) = Some ([10; 0; 0; 1], 1234, [192; 168; 1; 9], 443).
Proof. vm_compute. repeat split. Qed.

Print Assumptions C19_new.
Print Assumptions C19_v1.
Print Assumptions C19_unix.
Print Assumptions C19_pair.
Print Assumptions C19_same_endpoints.
Print Assumptions C19_round_v1.
Print Assumptions C19_round_v2.
Print Assumptions C19_wire_layout.
Print Assumptions C19_text_layout.
Print Assumptions C19_mixed.
Print Assumptions C19_cross_version.
