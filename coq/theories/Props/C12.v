(* C12 -- a single malformed element is rejected terminally and blamed on the right field.
   Statements only; proofs in Proofs/V1Props.v (v1), Proofs/AutoProps.v (v2, auto).
   v1 lines are written  six kw pr sa da sp dp ++ [CR; b]  (six fields joined by single spaces, then CR and
   the byte that follows it); a replacement is any byte string without SP or CR (all_nosep). *)
From PPP Require Import Base.Bytes Std.Utf8 Std.Text Std.Num Std.Ip Model.V1 Model.V2 Model.Auto Spec.V2Wire
  Proofs.BytesFacts Proofs.V1Text Proofs.V1Lines Proofs.V1Shape Proofs.V1Props Proofs.V2Parse Proofs.AutoProps Proofs.Extra.

Theorem C12_keyword : forall kw pr sa da sp dp b,
  all_nosep [kw; pr; sa; da; sp; dp] = true -> lenN (six kw pr sa da sp dp ++ [CR; b]) <= MAX_LENGTH ->
  kw <> PROXY -> parse_header (six kw pr sa da sp dp ++ [CR; b]) = Err InvalidPrefix.
Proof. exact blame_keyword. Qed.

Theorem C12_protocol : forall pr sa da sp dp b,
  all_nosep [PROXY; pr; sa; da; sp; dp] = true -> lenN (six PROXY pr sa da sp dp ++ [CR; b]) <= MAX_LENGTH ->
  pr <> TCP4 -> pr <> TCP6 -> pr <> UNKNOWN ->
  parse_header (six PROXY pr sa da sp dp ++ [CR; b]) = Err InvalidProtocol.
Proof. exact blame_protocol. Qed.

Theorem C12_source_address : forall P parse sa da sp dp b, tcp_kind P parse ->
  all_nosep [PROXY; P; sa; da; sp; dp] = true -> lenN (six PROXY P sa da sp dp ++ [CR; b]) <= MAX_LENGTH ->
  parse sa = None -> parse_header (six PROXY P sa da sp dp ++ [CR; b]) = Err InvalidSourceAddress.
Proof. exact blame_source_address. Qed.

Theorem C12_destination_address : forall P parse sa da sp dp b a, tcp_kind P parse ->
  all_nosep [PROXY; P; sa; da; sp; dp] = true -> lenN (six PROXY P sa da sp dp ++ [CR; b]) <= MAX_LENGTH ->
  parse sa = Some a -> parse da = None ->
  parse_header (six PROXY P sa da sp dp ++ [CR; b]) = Err InvalidDestinationAddress.
Proof. exact blame_destination_address. Qed.

Theorem C12_source_port : forall P parse sa da sp dp b a c, tcp_kind P parse ->
  all_nosep [PROXY; P; sa; da; sp; dp] = true -> lenN (six PROXY P sa da sp dp ++ [CR; b]) <= MAX_LENGTH ->
  parse sa = Some a -> parse da = Some c -> port_value sp = None ->
  exists by_crate, parse_header (six PROXY P sa da sp dp ++ [CR; b]) = Err (InvalidSourcePort by_crate).
Proof. exact blame_source_port. Qed.

Theorem C12_destination_port : forall P parse sa da sp dp b a c n, tcp_kind P parse ->
  all_nosep [PROXY; P; sa; da; sp; dp] = true -> lenN (six PROXY P sa da sp dp ++ [CR; b]) <= MAX_LENGTH ->
  parse sa = Some a -> parse da = Some c -> port_value sp = Some n -> port_value dp = None ->
  exists by_crate, parse_header (six PROXY P sa da sp dp ++ [CR; b]) = Err (InvalidDestinationPort by_crate).
Proof. exact blame_destination_port. Qed.

(* the byte that follows the CR *)
Theorem C12_suffix_tcp : forall P parse sa da sp dp b a c n m, tcp_kind P parse ->
  all_nosep [PROXY; P; sa; da; sp; dp] = true -> lenN (six PROXY P sa da sp dp ++ [CR; b]) <= MAX_LENGTH ->
  parse sa = Some a -> parse da = Some c -> port_value sp = Some n -> port_value dp = Some m -> b <> LF ->
  parse_header (six PROXY P sa da sp dp ++ [CR; b]) = Err InvalidSuffix.
Proof. exact blame_suffix_tcp. Qed.
Theorem C12_suffix_unknown : forall rest b,
  (rest = [] \/ exists t, rest = SP :: t) -> V1Text.no_cr rest = true ->
  lenN (unknown_head ++ rest ++ [CR; b]) <= MAX_LENGTH -> b <> LF ->
  parse_header (unknown_head ++ rest ++ [CR; b]) = Err InvalidSuffix.
Proof. exact blame_suffix_unknown. Qed.

(* the byte entry point passes the verdict through, terminally; the 107-byte limit; invalid UTF-8 *)
Theorem C12_bytes : forall a b rest e, V1Text.no_cr a = true -> utf8_valid (a ++ [CR; b]) = true ->
  parse_header (a ++ [CR; b]) = Err e ->
  p1 (a ++ CR :: b :: rest) = Err (BParse e) /\ is_incomplete1 (p1 (a ++ CR :: b :: rest)) = err1_is_incomplete e.
Proof. exact p1_blame. Qed.
Theorem C12_str : forall a b rest e, V1Text.no_cr a = true -> utf8_valid (a ++ CR :: b :: rest) = true ->
  utf8_valid (a ++ [CR; b]) = true -> parse_header (a ++ [CR; b]) = Err e -> p1s (a ++ CR :: b :: rest) = Err e.
Proof. exact p1s_blame. Qed.
Theorem C12_long : forall a b rest, V1Text.no_cr a = true -> MAX_LENGTH < lenN a + 2 ->
  p1 (a ++ CR :: b :: rest) = Err (BParse HeaderTooLong) \/ p1 (a ++ CR :: b :: rest) = Err BInvalidUtf8.
Proof. exact p1_too_long. Qed.
Theorem C12_utf8 : forall a b rest, V1Text.no_cr a = true -> utf8_valid (a ++ [CR; b]) = false ->
  p1 (a ++ CR :: b :: rest) = Err BInvalidUtf8.
Proof. exact p1_invalid_utf8. Qed.

(* v2: signature, version, command, family, transport (offending nibble in place), too-small length *)
Theorem C12_signature : forall x, 12 <= lenN x -> takeN 12 x <> SIG -> p2 x = Err Prefix.
Proof. exact blame_signature. Qed.
Theorem C12_version : forall vc fp hi lo rest, vc < 256 -> fp < 256 -> hi < 256 -> lo < 256 ->
  vc / 16 <> 2 -> p2 (SIG ++ vc :: fp :: hi :: lo :: rest) = Err (Version (16 * (vc / 16))).
Proof. exact blame_version. Qed.
Theorem C12_command : forall vc fp hi lo rest, vc < 256 -> fp < 256 -> hi < 256 -> lo < 256 ->
  vc / 16 = 2 -> 1 < vc mod 16 -> p2 (SIG ++ vc :: fp :: hi :: lo :: rest) = Err (Command (vc mod 16)).
Proof. exact blame_command. Qed.
Theorem C12_family : forall vc fp hi lo rest, vc < 256 -> fp < 256 -> hi < 256 -> lo < 256 ->
  forall cmd, vc / 16 = 2 -> cmd_of_nibble (vc mod 16) = Some cmd -> 3 < fp / 16 ->
  p2 (SIG ++ vc :: fp :: hi :: lo :: rest) = Err (AddressFamily (16 * (fp / 16))).
Proof. exact blame_family. Qed.
Theorem C12_transport : forall vc fp hi lo rest, vc < 256 -> fp < 256 -> hi < 256 -> lo < 256 ->
  forall cmd fam, vc / 16 = 2 -> cmd_of_nibble (vc mod 16) = Some cmd ->
  fam_of_nibble (fp / 16) = Some fam -> 2 < fp mod 16 ->
  p2 (SIG ++ vc :: fp :: hi :: lo :: rest) = Err (Protocol (fp mod 16)).
Proof. exact blame_transport. Qed.
Theorem C12_length : forall vc fp hi lo rest, vc < 256 -> fp < 256 -> hi < 256 -> lo < 256 ->
  forall cmd fam proto, vc / 16 = 2 -> cmd_of_nibble (vc mod 16) = Some cmd ->
  fam_of_nibble (fp / 16) = Some fam -> proto_of_nibble (fp mod 16) = Some proto ->
  256 * hi + lo < fam_size fam ->
  p2 (SIG ++ vc :: fp :: hi :: lo :: rest) = Err (InvalidAddresses (256 * hi + lo) (fam_size fam)).
Proof. exact blame_length. Qed.

(* under the auto-detecting parser a corrupted v2 header is handed to the text parser by design; the
   verdict is terminal *)
Theorem C12_auto_terminal : forall x, wf_bytes x = true -> 16 <= lenN x -> is_ok (p2 x) = false ->
  is_incomplete2 (p2 x) = false -> is_prefix SIG x = true -> is_incomplete_a (pa x) = false.
Proof. exact pa_terminal. Qed.

Print Assumptions C12_keyword.
Print Assumptions C12_protocol.
Print Assumptions C12_source_address.
Print Assumptions C12_destination_address.
Print Assumptions C12_source_port.
Print Assumptions C12_destination_port.
Print Assumptions C12_suffix_tcp.
Print Assumptions C12_suffix_unknown.
Print Assumptions C12_bytes.
Print Assumptions C12_str.
Print Assumptions C12_long.
Print Assumptions C12_utf8.
Print Assumptions C12_signature.
Print Assumptions C12_version.
Print Assumptions C12_command.
Print Assumptions C12_family.
Print Assumptions C12_transport.
Print Assumptions C12_length.
Print Assumptions C12_auto_terminal.
