(* C20 -- every encodable value appends exactly its wire encoding and reports its size.
   Statements only; proofs in Proofs/Writer.v.
   "a writer that is below its size limit" is read as: the writer's contents plus the value's
   encoding stay within the writer's limit of a full-size header (16 + 65535 bytes); DESIGN 2.2. *)
From Coq Require Import ZArith.
From PPP Require Import Base.Bytes Model.V2 Model.Builder Spec.Encoder Proofs.BytesFacts Proofs.Writer.

Theorem C20 : forall w p, wf_payload p = true -> oversize p = false ->
  lenN w + lenN (enc_payload p) <= WRITER_LIMIT ->
  write_to p w = (Some (lenN (enc_payload p)), w ++ enc_payload p).
Proof. exact write_to_appends. Qed.

(* converting the value to bytes directly gives the same encoding *)
Theorem C20_to_bytes : forall p, wf_payload p = true -> oversize p = false ->
  lenN (enc_payload p) <= WRITER_LIMIT -> to_bytes p = Some (enc_payload p).
Proof. exact to_bytes_enc. Qed.

(* integers: big-endian at their natural width (two's complement for the signed types) *)
Theorem C20_int : forall width v,
  enc_payload (PInt width v) = be_spec width (twos width v) /\ lenN (enc_payload (PInt width v)) = N.of_nat width.
Proof. exact int_encoding. Qed.

(* a TLV and the equivalent (type, bytes) pair encode identically *)
Theorem C20_pair : forall k v,
  enc_payload (PTlv k v) = enc_payload (PPair k v) /\ forall w, write_to (PTlv k v) w = write_to (PPair k v) w.
Proof. exact tlv_pair_same. Qed.

(* a TLV section (TypeLengthValues is Copy and its own iterator) encodes to all of its bytes, whether or
   not it has been iterated *)
Theorem C20_section : forall b off1 off2, enc_payload (PSection b off1) = enc_payload (PSection b off2)
  /\ forall w, write_to (PSection b off1) w = write_to (PSection b off2) w.
Proof. exact section_cursor_irrelevant. Qed.

(* a value too large for its 16-bit length is refused without writing anything *)
Theorem C20_refuse : forall w p, oversize p = true -> write_to p w = (None, w).
Proof. exact write_to_refuses. Qed.

(* beyond the claim: whenever write_to succeeds, at any writer size, it appended exactly the encoding;
   and the writer only ever grows *)
Theorem C20_success : forall w p n w', wf_payload p = true -> write_to p w = (Some n, w') ->
  w' = w ++ enc_payload p /\ n = lenN (enc_payload p) /\ oversize p = false.
Proof. exact write_to_success. Qed.
Theorem C20_band : forall w p r w', write_to p w = (r, w') -> exists t, w' = w ++ t.
Proof. exact write_to_band. Qed.

Example C20_example :
  write_to (PInt 2 (-2)%Z) [9] = (Some 2, [9; 255; 254])
  /\ write_to (PTlv 4 [7; 7]) [] = (Some 5, [4; 0; 2; 7; 7])
  /\ write_to (PAddrs (AIPv4 [1; 2; 3; 4] [5; 6; 7; 8] 258 65535)) [] = (Some 12, [1; 2; 3; 4; 5; 6; 7; 8; 1; 2; 255; 255]).
Proof. vm_compute. repeat split; reflexivity. Qed.

Print Assumptions C20.
Print Assumptions C20_to_bytes.
Print Assumptions C20_int.
Print Assumptions C20_pair.
Print Assumptions C20_section.
Print Assumptions C20_refuse.
Print Assumptions C20_success.
Print Assumptions C20_band.
