(* C17 -- v2 incomplete errors state exactly how many bytes are present and needed.
   Statements only; proofs in Proofs/V2Views.v. *)
From PPP Require Import Base.Bytes Model.V2 Spec.V2Wire Proofs.BytesFacts Proofs.V2Views.

(* before the 16-byte fixed part is complete: the number of bytes supplied *)
Theorem C17_short : forall x n, wf_bytes x = true -> p2 x = Err (Incomplete n) -> n = lenN x /\ lenN x < 16.
Proof. exact p2_incomplete_exact. Qed.

(* afterwards: payload bytes present (measured from byte 16) and the declared payload length *)
Theorem C17_partial : forall x have need, wf_bytes x = true -> p2 x = Err (Partial have need) ->
  16 <= lenN x /\ have = lenN x - 16 /\ need = from_be16 (nthN 14 x) (nthN 15 x) /\ have < need.
Proof. exact p2_partial_exact. Qed.

(* exactly the missing number of bytes, whatever their values, gives a success; fewer leave it
   incomplete with correspondingly updated counts *)
Theorem C17_fill : forall x have need t, wf_bytes (x ++ t) = true -> p2 x = Err (Partial have need) ->
  (lenN t = need - have -> is_ok (p2 (x ++ t)) = true)
  /\ (lenN t < need - have -> p2 (x ++ t) = Err (Partial (have + lenN t) need)).
Proof. exact p2_partial_fill. Qed.

Example C17_example :
  p2 (SIG ++ [33; 17; 0; 12; 1; 2; 3]) = Err (Partial 3 12) /\ p2 [13; 10; 13] = Err (Incomplete 3).
Proof. vm_compute. split; reflexivity. Qed.

Print Assumptions C17_short.
Print Assumptions C17_partial.
Print Assumptions C17_fill.
