(* C13 -- re-encoding a parsed v2 header from its parts reproduces it byte for byte.
   Statements only; proofs in Proofs/RoundTrip.v. *)
From Coq Require Import ZArith.
From PPP Require Import Base.Bytes Model.V2 Model.Builder Spec.V2Wire Spec.TlvWalk Spec.Encoder
  Proofs.BytesFacts Proofs.Writer Proofs.BuilderRun Proofs.BuilderProps Proofs.RoundTrip.

(* control bytes (through the crate's own BitOr impls), address bytes and the TLV section as raw
   bytes -- well-formed or not -- or as a TypeLengthValues value, wherever its iteration cursor stands *)
Theorem C13_raw : forall x h, wf_bytes x = true -> p2 x = Ok h ->
  let c := CNew (version_or_command (hcommand h)) (protocol_or_family (hprotocol h) (h_address_family h)) in
  brun c [WritePayload (PBytes (h_address_bytes h)); WritePayload (PBytes (h_tlv_bytes h))] = BOk (hbytes h)
  /\ forall cursor, brun c [WritePayload (PBytes (h_address_bytes h)); WritePayload (PSection (h_tlv_bytes h) cursor)] = BOk (hbytes h).
Proof. exact rebuild_raw. Qed.

(* the decoded items, when the section is well-formed *)
Theorem C13_items : forall x h items, wf_bytes x = true -> p2 x = Ok h ->
  collect (h_tlv_bytes h) = Some items -> forallb item_ok items = true ->
  brun (CNew (version_or_command (hcommand h)) (protocol_or_family (hprotocol h) (h_address_family h)))
       [WritePayload (PBytes (h_address_bytes h)); WritePayloads (map item_payload items)] = BOk (hbytes h).
Proof. exact rebuild_items. Qed.

(* any history that writes the payload of the header *)
Theorem C13_parts : forall x h ops, wf_bytes x = true -> p2 x = Ok h ->
  wf_ops ops = true -> forallb (fun p => negb (oversize p)) (payloads ops) = true -> in_force ops = None ->
  enc_items (payloads ops) = dropN 16 (hbytes h) ->
  brun (CNew (version_or_command (hcommand h)) (protocol_or_family (hprotocol h) (h_address_family h))) ops = BOk (hbytes h).
Proof. exact rebuild_from_parts. Qed.

(* from the decoded address value, when an address family is specified *)
Theorem C13_value : forall x h ops, wf_bytes x = true -> p2 x = Ok h -> h_address_family h <> FUnspec ->
  wf_ops ops = true -> forallb (fun p => negb (oversize p)) (payloads ops) = true -> in_force ops = None ->
  enc_items (payloads ops) = h_tlv_bytes h ->
  brun (CWith (version_or_command (hcommand h)) (hprotocol h) (haddresses h)) ops = BOk (hbytes h).
Proof. exact rebuild_value. Qed.

Example C13_example :
  let x := SIG ++ [33; 17; 0; 15; 127; 0; 0; 1; 192; 168; 1; 1; 0; 80; 1; 187; 4; 0; 0; 9; 9] in
  match p2 x with
  | Ok h => brun (CWith (version_or_command (hcommand h)) (hprotocol h) (haddresses h))
                 [WritePayload (PSection (h_tlv_bytes h) 0)] = BOk (hbytes h) /\ lenN (hbytes h) = 31
  | Err _ => False
  end.
Proof. vm_compute. split; reflexivity. Qed.

Print Assumptions C13_raw.
Print Assumptions C13_items.
Print Assumptions C13_parts.
Print Assumptions C13_value.
