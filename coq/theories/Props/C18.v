(* C18 -- the v1 verdict is final once the first line break or 107 bytes have been seen.
   Statements only; proofs in Proofs/V1Final.v. *)
From PPP Require Import Base.Bytes Std.Utf8 Std.Text Model.V1 Proofs.BytesFacts Proofs.V1Text Proofs.V1Final Proofs.Extra Proofs.Bounded.
From PPP Require Import Model.V2 Model.Auto.

(* settled x: the input contains its first CR followed by at least one more byte, or 107 bytes without CR *)
Theorem C18_bytes : forall x, settled x -> is_incomplete1 (p1 x) = false.
Proof. exact p1_final. Qed.

Theorem C18_str : forall x, settled x -> is_incomplete1s (p1s x) = false.
Proof. exact p1s_final. Qed.

(* no later byte can change it: after the first line break the result is identical ... *)
Theorem C18_stable : forall x t i, first_cr x = Some i -> i + 1 < lenN x -> p1 (x ++ t) = p1 x.
Proof. exact p1_stable_cr. Qed.

Theorem C18_stable_str : forall s t i, utf8_valid s = true -> utf8_valid (s ++ t) = true ->
  first_cr s = Some i -> i + 1 < lenN s -> p1s (s ++ t) = p1s s.
Proof. exact p1s_stable_cr. Qed.

(* ... and after 107 CR-free bytes it stays a terminal error *)
Theorem C18_stable_long : forall x t, first_cr x = None -> MAX_LENGTH <= lenN x ->
  is_ok (p1 x) = false /\ is_ok (p1 (x ++ t)) = false
  /\ is_incomplete1 (p1 x) = false /\ is_incomplete1 (p1 (x ++ t)) = false.
Proof. exact p1_stable_long. Qed.

(* the core: on a terminated line no "still arriving" error is produced *)
Theorem C18_core : forall h, terminated h = true -> is_incomplete1s (parse_header h) = false.
Proof. exact terminated_complete. Qed.

(* non-vacuity: a terminated line with too few fields; "P\rP" *)
Example C18_example :
  settled [80;82;79;88;89;32;84;67;80;52;13;10] /\ p1 [80;82;79;88;89;32;84;67;80;52;13;10] = Err (BParse InvalidSourceAddress)
  /\ p1 [80;13;80] = Err (BParse InvalidPrefix).
Proof. split; [left; exists 10; split; [reflexivity|vm_compute; reflexivity]|split; vm_compute; reflexivity]. Qed.

(* "a receiver never has to buffer more than 107 bytes": stated directly -- whenever the v1 result is incomplete,
   the only case in which a receiver keeps waiting, the input has at most 107 bytes *)
Theorem C18_bounded : forall x, is_incomplete1 (p1 x) = true -> lenN x <= MAX_LENGTH.
Proof. exact v1_incomplete_bounded. Qed.

(* and through the auto-detecting entry point, where a v2 header may legitimately need 16 + 65535 bytes: an
   incomplete result means at most 65 550 bytes are held; a peer cannot make a receiver that gives up on
   terminal errors buffer without bound *)
Theorem C18_auto_bounded : forall x, wf_bytes x = true -> is_incomplete_a (pa x) = true -> lenN x <= 65550.
Proof. exact auto_incomplete_bounded. Qed.

Print Assumptions C18_bytes.
Print Assumptions C18_str.
Print Assumptions C18_stable.
Print Assumptions C18_stable_str.
Print Assumptions C18_stable_long.
Print Assumptions C18_core.
Print Assumptions C18_bounded.
Print Assumptions C18_auto_bounded.
