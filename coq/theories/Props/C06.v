(* C06 -- version auto-detection agrees with the two dedicated parsers.
   Statements only; proofs in Proofs/AutoProps.v. *)
From PPP Require Import Base.Bytes Model.V1 Model.V2 Model.Auto Spec.V2Wire Proofs.BytesFacts Proofs.AutoProps.

(* the v2 result when it is a success or incomplete, otherwise the v1 result, tagged accordingly *)
Theorem C06 : forall x, pa x = if is_incomplete2 (p2 x) || is_ok (p2 x) then RV2 (p2 x) else RV1 (p1 x).
Proof. exact pa_spec. Qed.

(* it accepts exactly when the v2 parser or the v1 parser accepts -- never both *)
Theorem C06_accepts : forall x, is_ok_a (pa x) = is_ok (p2 x) || is_ok (p1 x).
Proof. exact pa_accepts. Qed.
Theorem C06_exclusive : forall x h1 h2, p1 x = Ok h1 -> p2 x = Ok h2 -> False.
Proof. exact never_both. Qed.

(* incomplete exactly when v2 is incomplete, or v2 fails terminally and v1 is incomplete *)
Theorem C06_incomplete : forall x,
  is_incomplete_a (pa x) = is_incomplete2 (p2 x) || (is_err (p2 x) && negb (is_incomplete2 (p2 x)) && is_incomplete1 (p1 x)).
Proof. exact pa_incomplete. Qed.

(* it never hands a buffer that is still a possible v2 header to the text parser's verdict *)
Theorem C06_v2_first : forall x, is_incomplete2 (p2 x) = true -> pa x = RV2 (p2 x).
Proof. exact pa_v2_first. Qed.
Theorem C06_possible : forall x, wf_bytes x = true -> v2_possible x = is_ok (p2 x) || is_incomplete2 (p2 x).
Proof. exact v2_possible_spec. Qed.

Print Assumptions C06.
Print Assumptions C06_accepts.
Print Assumptions C06_exclusive.
Print Assumptions C06_incomplete.
Print Assumptions C06_v2_first.
Print Assumptions C06_possible.
