(* C02 -- the v2 parser accepts exactly the well-formed headers and decodes them faithfully.
   Statements only; proofs are in Proofs/V2Spec.v. *)
From PPP Require Import Base.Bytes Model.V2 Spec.V2Wire Proofs.BytesFacts Proofs.V2Parse Proofs.V2Spec.

(* acceptance <-> well-formedness, with the decoded value (command, transport, family, addresses in
   network byte order, header bytes = first 16 + length bytes) inside the equivalence *)
Theorem C02 : forall x h, wf_bytes x = true -> (p2 x = Ok h <-> V2Wf x h).
Proof. exact p2_iff_wf. Qed.

Theorem C02_reject : forall x, wf_bytes x = true -> (forall h, ~ V2Wf x h) -> exists e, p2 x = Err e.
Proof. exact p2_reject. Qed.

(* the executable oracle of the correspondence check decides the same relation *)
Theorem C02_oracle : forall x h, wf_bytes x = true -> (v2_spec x = Some h <-> V2Wf x h).
Proof. exact v2_spec_iff_wf. Qed.

(* non-vacuity: a PROXY/STREAM/IPv4 header with one TLV and two trailing bytes *)
Example C02_example :
  let x := SIG ++ [33; 17; 0; 15; 127; 0; 0; 1; 192; 168; 1; 1; 0; 80; 1; 187; 4; 0; 0; 99; 98] in
  wf_bytes x = true /\
  p2 x = Ok {| hbytes := SIG ++ [33; 17; 0; 15; 127; 0; 0; 1; 192; 168; 1; 1; 0; 80; 1; 187; 4; 0; 0];
               hcommand := Proxy; hprotocol := PStream;
               haddresses := AIPv4 [127; 0; 0; 1] [192; 168; 1; 1] 80 443 |}.
Proof. vm_compute. split; reflexivity. Qed.

Print Assumptions C02.
Print Assumptions C02_reject.
Print Assumptions C02_oracle.
