(* C15 -- v1 header views reconstruct the header text.  Statement only; proof in Proofs/V1Props.v. *)
From PPP Require Import Base.Bytes Std.Text Model.V1 Proofs.BytesFacts Proofs.V1Props.

(* the protocol keyword matches the kind of the decoded addresses; PROXY, a space, the protocol, the
   optional separating space, the address text and CRLF re-assemble to the header text, which is also
   what formatting the header prints *)
Theorem C15 : forall x hd, p1 x = Ok hd ->
  h1_protocol hd = addrs_protocol (addr hd)
  /\ exists sep, (sep = [] \/ sep = [SP])
     /\ text hd = PROXY ++ [SP] ++ h1_protocol hd ++ sep ++ h1_addresses_str hd ++ CRLF
     /\ (sep = [] -> h1_addresses_str hd = [])
     /\ h1_to_string hd = text hd.
Proof. exact p1_views. Qed.

Print Assumptions C15.
