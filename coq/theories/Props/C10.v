(* C10 -- builder output is the in-order concatenation of what was written, nothing else.
   Statements only; proofs in Proofs/BuilderRun.v and Proofs/BuilderProps.v. *)
From Coq Require Import ZArith.
From PPP Require Import Base.Bytes Model.V2 Model.Builder Spec.Encoder Proofs.BytesFacts Proofs.Writer
  Proofs.BuilderRun Proofs.BuilderProps.

(* signature, the two control bytes as given (family nibble from the address value when one is
   supplied), the length field, the construction-time address block, then each payload in call order *)
Theorem C10 : forall c ops out, wf_ctor c = true -> wf_ops ops = true ->
  brun c ops = BOk out -> out = expected_output c ops.
Proof. exact build_is_concatenation. Qed.

(* the complete characterisation of every history (success and both kinds of failure) *)
Theorem C10_closed : forall c ops, wf_ctor c = true -> wf_ops ops = true ->
  let n := 16 + lenN (enc_addrs (ctor_addrs c)) in
  match brun c ops with
  | BOk out => items_fit n (payloads ops) = true /\ (in_force ops = None -> lenN (body c ops) <= U16_MAX)
               /\ out = expected_output c ops
  | BErrAt _ => items_fit n (payloads ops) = false
  | BErrBuild => items_fit n (payloads ops) = true /\ in_force ops = None /\ U16_MAX < lenN (body c ops)
  end.
Proof. exact brun_closed. Qed.

(* capacity reservations have no effect on the output (success or failure) *)
Theorem C10_reserve : forall c ops ops', wf_ctor c = true -> wf_ops ops = true ->
  erase_reserve ops = erase_reserve ops' -> bout (brun c ops) = bout (brun c ops').
Proof. exact reserve_irrelevant. Qed.

(* one batch or one call per payload: same output (success or failure) *)
Theorem C10_batch : forall c ops ps ops', wf_ctor c = true -> wf_ops (ops ++ [WritePayloads ps] ++ ops') = true ->
  bout (brun c (ops ++ map WritePayload ps ++ ops')) = bout (brun c (ops ++ [WritePayloads ps] ++ ops')).
Proof. exact batch_irrelevant. Qed.

Example C10_example :
  brun (CWith 33 PStream (AIPv4 [127; 0; 0; 1] [192; 168; 1; 1] 80 443))
       [WritePayload (PInt 1 5); SetLength (Some 7); WriteTlv 4 [42; 43]; Reserve 3;
        WritePayloads [PInt 2 258; PTlv 1 [1]]]
  = BOk (SIG ++ [33; 17; 0; 7; 127; 0; 0; 1; 192; 168; 1; 1; 0; 80; 1; 187; 5; 4; 0; 2; 42; 43; 1; 2; 1; 0; 1; 1]).
Proof. vm_compute. reflexivity. Qed.

Print Assumptions C10.
Print Assumptions C10_closed.
Print Assumptions C10_reserve.
Print Assumptions C10_batch.
