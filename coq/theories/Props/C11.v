(* C11 -- TLV iteration yields exactly the standard type-length-value walk and then stops.
   Statements only: every theorem is closed by [exact] of a lemma from Proofs/Tlv.v. *)
From PPP Require Import Base.Bytes Model.V2 Spec.V2Wire Spec.TlvWalk Proofs.BytesFacts Proofs.Tlv Proofs.Extra.

(* the iterator model yields the walk of Spec/TlvWalk.v (error payloads as the code reports them) *)
Theorem C11_walk : forall s : bytes,
  exists items, Walk s items /\ collect s = Some (map (item_abs (lenN s)) items).
Proof. exact collect_walk. Qed.

(* the walk is unique: the property determines the item sequence *)
Theorem C11_functional : forall s a b, Walk s a -> Walk s b -> a = b.
Proof. exact Walk_functional. Qed.

(* values tile the section from its start with no gap or overlap; with no error they cover it all *)
Theorem C11_tile : forall s items, wf_bytes s = true -> Walk s items ->
  exists rest, s = concat (map enc_sitem items) ++ rest /\ (forallb is_sok items = true -> rest = []).
Proof. exact Walk_tile. Qed.

(* an error item is the last item *)
Theorem C11_error_last : forall s items, Walk s items ->
  forall a i b, items = a ++ i :: b -> is_sok i = false -> b = [].
Proof. exact Walk_error_last. Qed.

(* never an item after the end or after an error *)
Theorem C11_fused_end : forall s off o off', tlv_next s off = (o, off') -> o = None -> off' = off.
Proof. exact tlv_next_fused_none. Qed.
Theorem C11_fused_err : forall s off e off',
  tlv_next s off = (Some (TErr e), off') -> tlv_next s off' = (None, off').
Proof. exact tlv_next_fused_err. Qed.

(* the oracle used by the correspondence check computes the relation *)
Theorem C11_oracle : forall s, Walk s (walk s).
Proof. exact walk_Walk. Qed.

(* iteration bound (shared with C03) *)
Theorem C11_bound : forall s items, collect s = Some items -> N.of_nat (length items) <= lenN s / 3 + 1.
Proof. exact collect_bound. Qed.

(* the TLV section of any accepted header: iterating it is the walk of the section the Spec prescribes *)
Theorem C11_header : forall x h, wf_bytes x = true -> p2 x = Ok h ->
  exists items, Walk (spec_tlv_section h) items
                /\ collect (h_tlv_bytes h) = Some (map (item_abs (lenN (h_tlv_bytes h))) items).
Proof. exact header_tlvs_walk. Qed.

(* non-vacuity: a section with a 300-byte value length field, an empty value and a truncated tail *)
Example C11_example :
  collect [4; 0; 2; 7; 8; 5; 0; 0; 9; 1; 44] =
  Some [TOk 4 [7; 8]; TOk 5 []; TErr (InvalidTLV 9 300)].
Proof. vm_compute. reflexivity. Qed.

Print Assumptions C11_walk.
Print Assumptions C11_functional.
Print Assumptions C11_tile.
Print Assumptions C11_error_last.
Print Assumptions C11_fused_end.
Print Assumptions C11_fused_err.
Print Assumptions C11_oracle.
Print Assumptions C11_bound.
Print Assumptions C11_header.
