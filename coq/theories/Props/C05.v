(* C05 -- streaming: every proper prefix of an accepted header is reported incomplete.
   Statements only; proofs in Proofs/V1Prefix.v (v1), Proofs/AutoProps.v (v2, auto, flags). *)
From PPP Require Import Base.Bytes Std.Utf8 Std.Text Model.V1 Model.V2 Model.Auto
  Proofs.BytesFacts Proofs.V1Text Proofs.V1Final Proofs.V1Props Proofs.AutoProps Proofs.V1Prefix Proofs.Stream.

(* v1 lines in US-ASCII: byte form, text form and auto-detecting entry point *)
Theorem C05_v1 : forall x hd k, p1 x = Ok hd -> ascii (text hd) = true -> k < lenN (text hd) ->
  is_incomplete1 (p1 (takeN k x)) = true /\ is_incomplete1s (p1s (takeN k x)) = true
  /\ is_incomplete_a (pa (takeN k x)) = true.
Proof. exact p1_prefix_incomplete. Qed.

(* v2 headers: with the exact counts (C17) *)
Theorem C05_v2 : forall x h k, wf_bytes x = true -> p2 x = Ok h -> k < lenN (hbytes h) ->
  p2 (takeN k x) = if k <? 16 then Err (Incomplete k) else Err (Partial (k - 16) (h_length h)).
Proof. exact p2_prefix_incomplete. Qed.

Theorem C05_v2_auto : forall x h k, wf_bytes x = true -> p2 x = Ok h -> k < lenN (hbytes h) ->
  is_incomplete_a (pa (takeN k x)) = true.
Proof. exact pa_prefix_incomplete_v2. Qed.

(* is_complete is always the negation of is_incomplete, and a success is never flagged incomplete *)
Theorem C05_flags :
  (forall A (r : result A err2), is_complete2 r = negb (is_incomplete2 r))
  /\ (forall r, is_complete_a r = negb (is_incomplete_a r))
  /\ (forall A (a : A), is_incomplete2 (@Ok A err2 a) = false)
  /\ (forall A (a : A), is_incomplete1 (@Ok A berr1 a) = false)
  /\ (forall A (a : A), is_incomplete1s (@Ok A err1 a) = false)
  /\ (forall r, is_ok_a r = true -> is_incomplete_a r = false).
Proof. exact flags_consistent. Qed.

(* so a receiver that re-parses its growing buffer after each read (the loop of examples/server.rs,
   [receive] in Proofs/Stream.v) ends with the same header as a one-shot parse, however the byte
   stream is split into reads (empty reads included) *)
Theorem C05_stream_v1 : forall x hd reads, p1 x = Ok hd -> ascii (text hd) = true -> concat reads = x ->
  receive p1 is_incomplete1 [] reads = Some (Ok hd).
Proof. exact receive_v1. Qed.
Theorem C05_stream_v2 : forall x h reads, wf_bytes x = true -> p2 x = Ok h -> concat reads = x ->
  receive p2 is_incomplete2 [] reads = Some (Ok h).
Proof. exact receive_v2. Qed.

Print Assumptions C05_v1.
Print Assumptions C05_stream_v1.
Print Assumptions C05_stream_v2.
Print Assumptions C05_v2.
Print Assumptions C05_v2_auto.
Print Assumptions C05_flags.
(* the same through the auto-detecting entry point, which is what examples/server.rs calls *)
Theorem C05_stream_auto_v1 : forall x hd reads, p1 x = Ok hd -> ascii (text hd) = true -> concat reads = x ->
  receive pa is_incomplete_a [] reads = Some (RV1 (Ok hd)).
Proof. exact receive_auto_v1. Qed.
Print Assumptions C05_stream_auto_v1.
Theorem C05_stream_auto_v2 : forall x h reads, wf_bytes x = true -> p2 x = Ok h -> concat reads = x ->
  receive pa is_incomplete_a [] reads = Some (RV2 (Ok h)).
Proof. exact receive_auto_v2. Qed.
Print Assumptions C05_stream_auto_v2.
