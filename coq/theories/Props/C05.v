(* C05 -- streaming: every proper prefix of an accepted header is reported incomplete.
   Statements only; proofs in Proofs/V1Prefix.v (v1), Proofs/AutoProps.v (v2, auto, flags). *)
From PPP Require Import Base.Bytes Std.Utf8 Std.Text Model.V1 Model.V2 Model.Auto
  Proofs.BytesFacts Proofs.V1Text Proofs.V1Final Proofs.V1Props Proofs.AutoProps Proofs.V1Prefix Proofs.Stream
  Proofs.Consume Proofs.StreamPipe Proofs.Senders.
From Coq Require Import List ZArith.
Import ListNotations.
Local Open Scope N_scope.

(* v1 lines in US-ASCII: byte form, text form and auto-detecting entry point *)
Theorem C05_v1 : forall x hd k, p1 x = Ok hd -> ascii (text hd) = true -> k < lenN (text hd) ->
  is_incomplete1 (p1 (takeN k x)) = true /\ is_incomplete1s (p1s (takeN k x)) = true
  /\ is_incomplete_a (pa (takeN k x)) = true.
Proof. exact p1_prefix_incomplete. Qed.

(* v2 headers: with the exact counts (C17) *)
Theorem C05_v2 : forall x h k, wf_bytes x = true -> p2 x = Ok h -> k < lenN (hbytes h) ->
  p2 (takeN k x) = if k <? 16 then Err (Incomplete k) else Err (Partial (k - 16) (h_length h)).
Proof. exact p2_prefix_incomplete. Qed.

Theorem C05_v2_auto : forall x h k, wf_bytes x = true -> p2 x = Ok h -> k < lenN (hbytes h) ->
  is_incomplete_a (pa (takeN k x)) = true.
Proof. exact pa_prefix_incomplete_v2. Qed.

(* is_complete is always the negation of is_incomplete, and a success is never flagged incomplete *)
Theorem C05_flags :
  (forall A (r : result A err2), is_complete2 r = negb (is_incomplete2 r))
  /\ (forall r, is_complete_a r = negb (is_incomplete_a r))
  /\ (forall A (a : A), is_incomplete2 (@Ok A err2 a) = false)
  /\ (forall A (a : A), is_incomplete1 (@Ok A berr1 a) = false)
  /\ (forall A (a : A), is_incomplete1s (@Ok A err1 a) = false)
  /\ (forall r, is_ok_a r = true -> is_incomplete_a r = false).
Proof. exact flags_consistent. Qed.

(* so a receiver that re-parses its growing buffer after each read (the loop of examples/server.rs,
   [receive] in Proofs/Stream.v) ends with the same header as a one-shot parse, however the byte
   stream is split into reads (empty reads included) *)
Theorem C05_stream_v1 : forall x hd reads, p1 x = Ok hd -> ascii (text hd) = true -> concat reads = x ->
  receive p1 is_incomplete1 [] reads = Some (Ok hd).
Proof. exact receive_v1. Qed.
Theorem C05_stream_v2 : forall x h reads, wf_bytes x = true -> p2 x = Ok h -> concat reads = x ->
  receive p2 is_incomplete2 [] reads = Some (Ok h).
Proof. exact receive_v2. Qed.

Print Assumptions C05_v1.
Print Assumptions C05_stream_v1.
Print Assumptions C05_stream_v2.
Print Assumptions C05_v2.
Print Assumptions C05_v2_auto.
Print Assumptions C05_flags.
(* the same through the auto-detecting entry point, which is what examples/server.rs calls *)
Theorem C05_stream_auto_v1 : forall x hd reads, p1 x = Ok hd -> ascii (text hd) = true -> concat reads = x ->
  receive pa is_incomplete_a [] reads = Some (RV1 (Ok hd)).
Proof. exact receive_auto_v1. Qed.
Print Assumptions C05_stream_auto_v1.
Theorem C05_stream_auto_v2 : forall x h reads, wf_bytes x = true -> p2 x = Ok h -> concat reads = x ->
  receive pa is_incomplete_a [] reads = Some (RV2 (Ok h)).
Proof. exact receive_auto_v2. Qed.
Print Assumptions C05_stream_auto_v2.

(* Streaming and pipelining together (Proofs/StreamPipe.v).  The receiver appends every read to its buffer and
   then removes as many complete headers as the buffer holds (on_read; drain is the loop of C04_pipeline).
   For EVERY way of cutting a byte stream into reads -- empty reads, reads that end inside a header, reads that
   span several headers -- it ends with exactly what a one-shot drain of the whole stream yields: *)
Theorem C05_reads_equal_one_shot : forall reads, wf_bytes (concat reads) = true ->
  fold_left on_read reads ([], []) = drain_full (concat reads).
Proof. exact reads_equal_one_shot. Qed.
Print Assumptions C05_reads_equal_one_shot.

(* hence any number of headers of both versions, back to back, however the stream arrives, are delivered one
   by one, in order, and the bytes after the last one are what is left in the buffer; no proper prefix of
   the stream delivers a header early or a different one (the state after each read is the one-shot drain of
   the bytes received so far) *)
Theorem C05_stream_pipeline : forall fs rest reads,
  Forall self_parsing fs -> stuck rest -> concat reads = concat (map frame_bytes fs) ++ rest ->
  wf_bytes (concat reads) = true ->
  fold_left on_read reads ([], []) = (fs, rest).
Proof. exact stream_pipeline. Qed.
Print Assumptions C05_stream_pipeline.

(* in particular everything the crate's own encoders emit (C07, C08): a peer that builds v2 headers and formats
   v1 lines from well-formed values and sends them back to back is understood frame by frame, in order,
   whatever the network does to the segmentation *)
Theorem C05_senders_stream : forall ms rest reads,
  forallb wf_sent ms = true -> stuck rest -> concat reads = concat (map sent_bytes ms) ++ rest ->
  wf_bytes (concat reads) = true ->
  fold_left on_read reads ([], []) = (map sent_frame ms, rest).
Proof. exact senders_stream. Qed.
Print Assumptions C05_senders_stream.

(* and nothing is ever delivered early: no proper prefix of a header -- of either version, ASCII or not -- is
   accepted as a header (as itself or as a different one) by the auto-detecting parser *)
Theorem C05_never_early : forall fr k, self_parsing fr -> wf_bytes (frame_bytes fr) = true -> k < lenN (frame_bytes fr) ->
  stuck (takeN k (frame_bytes fr)).
Proof. exact prefix_not_frame. Qed.
Print Assumptions C05_never_early.

Example C05_stream_pipeline_example :
  let v1 := [80;82;79;88;89;32;85;78;75;78;79;87;78;13;10] in
  let v2 := SIG ++ [33; 17; 0; 12; 1;2;3;4; 5;6;7;8; 0;80; 1;187] in
  let s := v1 ++ v2 ++ v1 in
  match fold_left on_read [takeN 7 s; []; sliceN 7 20 s; dropN 20 s; [71]] ([], []) with
  | ([F1 a; F2 b; F1 c], rest) => text a = v1 /\ hbytes b = v2 /\ text c = v1 /\ rest = [71]
  | _ => False
  end.
Proof. vm_compute. repeat split. Qed.
