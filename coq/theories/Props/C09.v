(* C09 -- the builder's length field is never stale, truncated or silently wrong.
   Statements only; proofs in Proofs/BuilderProps.v. *)
From Coq Require Import ZArith.
From PPP Require Import Base.Bytes Model.V2 Model.Builder Spec.Encoder Proofs.BytesFacts Proofs.Writer
  Proofs.BuilderRun Proofs.BuilderProps.

(* if build succeeds, the field equals the explicit length in force at that moment (the most recent
   set_length, if it supplied a value), otherwise the number of bytes following the fixed part *)
Theorem C09_field : forall c ops out, wf_ctor c = true -> wf_ops ops = true -> lengths_ok ops = true ->
  brun c ops = BOk out ->
  16 <= lenN out
  /\ from_be16 (nthN 14 out) (nthN 15 out) = (match in_force ops with Some l => l | None => lenN out - 16 end).
Proof. exact length_field_exact. Qed.

(* no explicit length in force and more than 65535 bytes after the fixed part: the operation fails *)
Theorem C09_overflow : forall c ops, wf_ctor c = true -> wf_ops ops = true ->
  in_force ops = None -> 65535 < lenN (body c ops) -> bout (brun c ops) = None.
Proof. exact length_overflow_fails. Qed.

(* a single TLV value or byte-slice payload above 65535 bytes, anywhere in the history (single write,
   batch, write_tlv): the operation fails *)
Theorem C09_value : forall c ops p, wf_ctor c = true -> wf_ops ops = true ->
  In p (payloads ops) -> oversize p = true -> bout (brun c ops) = None.
Proof. exact oversize_value_fails. Qed.

(* non-vacuity: set_length after the first write, then overridden again *)
Example C09_example :
  brun (CNew 33 17) [WritePayload (PInt 4 1); SetLength (Some 5); SetLength (Some 7)]
  = BOk (SIG ++ [33; 17; 0; 7; 0; 0; 0; 1])
  /\ brun (CNew 33 17) [SetLength (Some 5); WritePayload (PInt 4 1); SetLength None]
  = BOk (SIG ++ [33; 17; 0; 4; 0; 0; 0; 1]).
Proof. vm_compute. split; reflexivity. Qed.

Print Assumptions C09_field.
Print Assumptions C09_overflow.
Print Assumptions C09_value.
