(* C01 -- the v1 parser accepts exactly the well-formed lines and decodes them faithfully.
   Statements only; proofs in Proofs/V1Spec.v (grammar), Proofs/V1Props.v (line shapes). *)
From PPP Require Import Base.Bytes Std.Utf8 Std.Text Std.Num Std.Ip Model.V1 Spec.V1Grammar
  Proofs.BytesFacts Proofs.V1Text Proofs.V1Shape Proofs.V1Props Proofs.V1Spec Proofs.StdNum Proofs.StdIp6.

(* byte entry point: acceptance with value hd <-> the grammar of Spec/V1Grammar.v accepts with value hd
   (line of at most 107 bytes ended by the first CR immediately followed by LF; PROXY UNKNOWN [SP text]
   or PROXY TCP4/TCP6 with exactly four single-space-separated fields; dotted-quad / RFC 4291 addresses;
   plain decimal ports; decoded values in the written order; header text = the line with its CRLF) *)
Theorem C01_bytes : forall x hd, p1 x = Ok hd <-> spec_v1 x = Some hd.
Proof. exact p1_spec. Qed.

(* &str entry point (and the two FromStr impls): the same, for every valid-UTF-8 string whose examined
   line ends on a character boundary; otherwise an error (C16) *)
Theorem C01_str : forall s, utf8_valid s = true -> is_char_boundary s (window_end s) = true ->
  forall hd, p1s s = Ok hd <-> spec_v1 s = Some hd.
Proof. exact p1s_spec. Qed.

Theorem C01_reject : forall x, spec_v1 x = None -> exists e, p1 x = Err e.
Proof. exact p1_rejects. Qed.

(* the model of the standard-library parsers agrees with the independent split-based grammar *)
Theorem C01_ipv4_grammar : forall s, parse_ipv4 s = spec_ip4 s.
Proof. exact parse_ipv4_spec. Qed.
Theorem C01_ipv6_grammar : forall s, parse_ipv6 s = spec_ip6 s.
Proof. exact parse_ipv6_spec. Qed.
Theorem C01_port_grammar : forall s mk n, parse_port s mk = Ok n <-> spec_port s = Some n.
Proof. exact parse_port_spec. Qed.

(* the same fact in terms of line shapes (used by C05, C12, C15) *)
Theorem C01_shapes : forall x hd, p1 x = Ok hd <-> starts_with_line x hd.
Proof. exact p1_accepts_iff. Qed.

Example C01_example :
  p1 [80;82;79;88;89;32;84;67;80;52;32;49;46;50;46;51;46;52;32;53;46;54;46;55;46;56;32;56;48;32;52;52;51;13;10;120]
  = Ok {| text := [80;82;79;88;89;32;84;67;80;52;32;49;46;50;46;51;46;52;32;53;46;54;46;55;46;56;32;56;48;32;52;52;51;13;10];
          addr := Tcp4 [1;2;3;4] [5;6;7;8] 80 443 |}.
Proof. vm_compute. reflexivity. Qed.

Print Assumptions C01_bytes.
Print Assumptions C01_str.
Print Assumptions C01_reject.
Print Assumptions C01_ipv4_grammar.
Print Assumptions C01_ipv6_grammar.
Print Assumptions C01_port_grammar.
Print Assumptions C01_shapes.
