(* C14 -- v2 header views partition the header consistently.  Statement only; proof in Proofs/V2Views.v. *)
From PPP Require Import Base.Bytes Model.V2 Spec.V2Wire Proofs.BytesFacts Proofs.V2Views Proofs.Extra.

Theorem C14 : forall x h, wf_bytes x = true -> p2 x = Ok h ->
  (* address bytes followed by TLV bytes are exactly the payload after the 16-byte fixed part *)
  h_address_bytes h ++ h_tlv_bytes h = dropN 16 (hbytes h)
  (* the address view has the size of the family; the whole payload for the unspecified family *)
  /\ lenN (h_address_bytes h) = (match h_address_family h with FUnspec => h_length h | f => fam_size f end)
  (* payload length + 16 = total length = length of the raw bytes; it matches the length field *)
  /\ h_length h + 16 = h_len h
  /\ h_len h = lenN (h_as_bytes h)
  /\ h_length h = from_be16 (nthN 14 (hbytes h)) (nthN 15 (hbytes h))
  /\ h_is_empty h = false
  (* the reported family is the family nibble on the wire and the family of the decoded value *)
  /\ family_code (h_address_family h) = 16 * (nthN 13 (hbytes h) / 16)
  (* whose fields are the big-endian decoding of the address view *)
  /\ haddresses h = decode_addrs (h_address_family h) (h_address_bytes h)
  /\ addresses_len (haddresses h) = fam_size (h_address_family h)
  /\ addresses_is_empty (haddresses h) = (match h_address_family h with FUnspec => true | _ => false end)
  /\ family_to_u16 (h_address_family h) = fam_size (h_address_family h)
  (* borrowed and owned *)
  /\ h_to_owned h = h.
Proof. exact views_partition. Qed.

(* the two views are the partition Spec/V2Wire.v prescribes (what the correspondence oracle compares with) *)
Theorem C14_spec : forall x h, wf_bytes x = true -> p2 x = Ok h ->
  h_address_bytes h = spec_address_bytes h /\ h_tlv_bytes h = spec_tlv_section h.
Proof. exact views_match_spec. Qed.

(* non-vacuity: an IPv6 header with a 5-byte TLV section is accepted *)
Example C14_example :
  let x := SIG ++ [33; 33; 0; 41] ++ repeatN 7 36 ++ [4; 0; 2; 9; 9] in
  wf_bytes x = true /\ is_ok (p2 x) = true.
Proof. vm_compute. split; reflexivity. Qed.

Print Assumptions C14.
Print Assumptions C14_spec.
