(* C04 -- an accepted header never depends on or consumes the bytes that follow it.
   Statements only; proofs in Proofs/V1Final.v (v1), Proofs/AutoProps.v (v2, auto). *)
From PPP Require Import Base.Bytes Std.Utf8 Std.Text Model.V1 Model.V2 Model.Auto
  Proofs.BytesFacts Proofs.V1Text Proofs.V1Final Proofs.V1Props Proofs.AutoProps Proofs.Extra Proofs.Consume Proofs.Senders Proofs.StreamPipe.
From Coq Require Import List ZArith.
Import ListNotations.
Local Open Scope N_scope.

Theorem C04_v1 : forall x hd t, p1 x = Ok hd ->
  p1 (x ++ t) = Ok hd /\ p1 (text hd) = Ok hd /\ text hd = takeN (lenN (text hd)) x
  /\ is_suffix CRLF (text hd) = true.
Proof. exact p1_trailer_independent. Qed.

(* the text form, for valid UTF-8 (a &str always is) *)
Theorem C04_v1s : forall s hd t, utf8_valid (s ++ t) = true -> utf8_valid s = true -> p1s s = Ok hd ->
  p1s (s ++ t) = Ok hd /\ p1s (text hd) = Ok hd.
Proof. exact p1s_trailer_independent. Qed.

Theorem C04_v2 : forall x h t, wf_bytes (x ++ t) = true -> p2 x = Ok h ->
  p2 (x ++ t) = Ok h /\ p2 (hbytes h) = Ok h
  /\ lenN (hbytes h) = 16 + from_be16 (nthN 14 x) (nthN 15 x) /\ hbytes h = takeN (lenN (hbytes h)) x.
Proof. exact p2_trailer_independent. Qed.

Theorem C04_auto : forall x r t, wf_bytes (x ++ t) = true -> pa x = r -> is_ok_a r = true -> pa (x ++ t) = r.
Proof. exact pa_trailer_independent. Qed.

(* Histories (Proofs/Consume.v): "the number of bytes a caller must remove is exactly the length of the
   reported header", iterated.  drain is the receive loop -- parse with the auto-detecting parser, on
   success cut frame_bytes (the header's own bytes: the v1 line through its CRLF, 16 + length for v2)
   off the front, repeat.  What the parser accepts is a self-parsing frame and a prefix of the input: *)
Theorem C04_accepts_frame : forall x fr, wf_bytes x = true -> frame_of (pa x) = Some fr ->
  self_parsing fr /\ x = frame_bytes fr ++ dropN (lenN (frame_bytes fr)) x.
Proof. exact accepted_is_self_parsing. Qed.

(* and every back-to-back sequence of such frames, v1 and v2 mixed, of any number, followed by anything
   that is not (yet) a header, is read one by one, in order, leaving exactly what follows the last *)
Theorem C04_pipeline : forall fs rest k,
  Forall self_parsing fs -> wf_bytes (concat (map frame_bytes fs) ++ rest) = true -> frame_of (pa rest) = None ->
  drain (S (length fs) + k) (concat (map frame_bytes fs) ++ rest) = (fs, rest).
Proof. exact drain_sequence_fuel. Qed.

(* the premise is met by everything the crate's own encoders emit (C07_parse, C08_round): any pipeline of
   built v2 headers and formatted v1 lines, in any order and number, is received frame by frame as sent *)
Theorem C04_senders_pipeline : forall ms rest k,
  forallb wf_sent ms = true -> wf_bytes (concat (map sent_bytes ms) ++ rest) = true -> frame_of (pa rest) = None ->
  drain (S (length ms) + k) (concat (map sent_bytes ms) ++ rest) = (map sent_frame ms, rest).
Proof. exact senders_pipeline. Qed.

(* framing is unambiguous: a byte stream has at most one reading as headers followed by a non-header
   remainder, so "exactly the length of the reported header" leaves a receiver no choice *)
Theorem C04_framing_unique : forall fs1 rest1 fs2 rest2,
  Forall self_parsing fs1 -> stuck rest1 -> Forall self_parsing fs2 -> stuck rest2 ->
  concat (map frame_bytes fs1) ++ rest1 = concat (map frame_bytes fs2) ++ rest2 ->
  wf_bytes (concat (map frame_bytes fs1) ++ rest1) = true ->
  fs1 = fs2 /\ rest1 = rest2.
Proof. exact framing_unique. Qed.

Example C04_pipeline_example :
  let v1 := [80;82;79;88;89;32;85;78;75;78;79;87;78;13;10] in
  let v2 := SIG ++ [33; 17; 0; 12; 1;2;3;4; 5;6;7;8; 0;80; 1;187] in
  match drain 5 (v1 ++ v2 ++ v1 ++ [71; 69; 84]) with
  | ([F1 a; F2 b; F1 c], rest) => text a = v1 /\ hbytes b = v2 /\ text c = v1 /\ rest = [71; 69; 84]
  | _ => False
  end.
Proof. vm_compute. repeat split. Qed.

Print Assumptions C04_v1.
Print Assumptions C04_v1s.
Print Assumptions C04_v2.
Print Assumptions C04_auto.
Print Assumptions C04_accepts_frame.
Print Assumptions C04_pipeline.
Print Assumptions C04_senders_pipeline.
Print Assumptions C04_framing_unique.
