(* C04 -- an accepted header never depends on or consumes the bytes that follow it.
   Statements only; proofs in Proofs/V1Final.v (v1), Proofs/AutoProps.v (v2, auto). *)
From PPP Require Import Base.Bytes Std.Utf8 Std.Text Model.V1 Model.V2 Model.Auto
  Proofs.BytesFacts Proofs.V1Text Proofs.V1Final Proofs.V1Props Proofs.AutoProps Proofs.Extra.

Theorem C04_v1 : forall x hd t, p1 x = Ok hd ->
  p1 (x ++ t) = Ok hd /\ p1 (text hd) = Ok hd /\ text hd = takeN (lenN (text hd)) x
  /\ is_suffix CRLF (text hd) = true.
Proof. exact p1_trailer_independent. Qed.

(* the text form, for valid UTF-8 (a &str always is) *)
Theorem C04_v1s : forall s hd t, utf8_valid (s ++ t) = true -> utf8_valid s = true -> p1s s = Ok hd ->
  p1s (s ++ t) = Ok hd /\ p1s (text hd) = Ok hd.
Proof. exact p1s_trailer_independent. Qed.

Theorem C04_v2 : forall x h t, wf_bytes (x ++ t) = true -> p2 x = Ok h ->
  p2 (x ++ t) = Ok h /\ p2 (hbytes h) = Ok h
  /\ lenN (hbytes h) = 16 + from_be16 (nthN 14 x) (nthN 15 x) /\ hbytes h = takeN (lenN (hbytes h)) x.
Proof. exact p2_trailer_independent. Qed.

Theorem C04_auto : forall x r t, wf_bytes (x ++ t) = true -> pa x = r -> is_ok_a r = true -> pa (x ++ t) = r.
Proof. exact pa_trailer_independent. Qed.

Print Assumptions C04_v1.
Print Assumptions C04_v1s.
Print Assumptions C04_v2.
Print Assumptions C04_auto.
