(* C03 -- parsing, accessors and iteration never panic or hang on any input.
   Statements only; proofs in Proofs/NoPanic.v (and Proofs/Tlv.v for the iteration bound).
   Model/Panic.v mirrors every Rust operation that can panic (indexing, byte and str slicing, usize
   + and -, copy_from_slice) as a partial primitive; the theorems say the mirror never takes the
   Panic branch and computes exactly the plain model.  PARTIAL by nature: a panic or hang originating
   inside std, the allocator or a future `unsafe` block is outside any Gallina model; that side is
   observed by the harness (catch_unwind, debug and release profiles, step counting). *)
From PPP Require Import Base.Bytes Std.Utf8 Std.Text Model.V1 Model.V2 Model.Auto Model.Panic
  Proofs.BytesFacts Proofs.Tlv Proofs.NoPanic.

Theorem C03_v1_bytes : forall x, lenN x < SLICE_MAX -> p1_p x = Done (p1 x).
Proof. exact p1_no_panic. Qed.
Theorem C03_v1_str : forall s, lenN s < SLICE_MAX -> p1s_p s = Done (p1s s).
Proof. exact p1s_no_panic. Qed.
Theorem C03_v1_from_str : forall s, lenN s < SLICE_MAX ->
  header_from_str_p s = Done (header_from_str s) /\ addresses_from_str_p s = Done (addresses_from_str s).
Proof. exact from_str_no_panic. Qed.
Theorem C03_v2 : forall x, wf_bytes x = true -> lenN x < SLICE_MAX -> p2_p x = Done (p2 x).
Proof. exact p2_no_panic. Qed.
Theorem C03_auto : forall x, wf_bytes x = true -> lenN x < SLICE_MAX -> pa_p x = Done (pa x).
Proof. exact pa_no_panic. Qed.

(* accessors on the values the parsers return *)
Theorem C03_v2_views : forall x h, wf_bytes x = true -> p2 x = Ok h ->
  h_length_p h = Done (h_length h) /\ h_address_bytes_p h = Done (h_address_bytes h) /\ h_tlv_bytes_p h = Done (h_tlv_bytes h).
Proof. exact v2_views_no_panic. Qed.
Theorem C03_v1_views : forall x hd, p1 x = Ok hd -> lenN x < SLICE_MAX -> h1_addresses_str_p hd = Done (h1_addresses_str hd).
Proof. exact addresses_str_no_panic. Qed.

(* iterating a TLV section of n bytes: no panic, terminates (fuel n+1 suffices), at most n/3 + 1 items *)
Theorem C03_tlv : forall s, wf_bytes s = true -> lenN s < SLICE_MAX ->
  exists items, collect_p s = Done (Some items) /\ N.of_nat (length items) <= lenN s / 3 + 1.
Proof. exact tlv_no_panic. Qed.

(* non-vacuity: the &str input that panicked on the pinned tree ("PROXY UNKNOWN\r" + a 3-byte character) *)
Example C03_example :
  p1s_p [80;82;79;88;89;32;85;78;75;78;79;87;78;13;226;130;172] = Done (Err InvalidSuffix).
Proof. vm_compute. reflexivity. Qed.

Print Assumptions C03_v1_bytes.
Print Assumptions C03_v1_str.
Print Assumptions C03_v1_from_str.
Print Assumptions C03_v2.
Print Assumptions C03_auto.
Print Assumptions C03_v2_views.
Print Assumptions C03_v1_views.
Print Assumptions C03_tlv.
