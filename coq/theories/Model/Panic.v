(* Panic-aware mirror of the public parsing surface (C03).  Every Rust operation that can panic --
   indexing, slicing (bytes and str), usize subtraction / addition, copy_from_slice -- is a partial
   primitive returning [Panic] exactly when Rust would panic (overflow: in overflow-checked builds).
   The functions below follow the Rust code site by site; the plain model (Model/V1.v, V2.v, Auto.v)
   is what they compute when no primitive panics -- that is Proofs/NoPanic.v.  No proofs here. *)
From PPP Require Export Base.Bytes Std.Utf8 Std.Text Model.V1 Model.V2 Model.Auto.

Inductive outcome (A : Type) : Type := Done (a : A) | Panic.
Arguments Done {A}.
Arguments Panic {A}.

Definition bind {A B} (o : outcome A) (f : A -> outcome B) : outcome B :=
  match o with Done a => f a | Panic => Panic end.
Notation "'do' x <- o ; f" := (bind o (fun x => f)) (at level 200, x ident, o at level 100, f at level 200).

Definition USIZE_MAX : N := 18446744073709551615.      (* usize is 64 bits *)

(* l[i] *)
Definition idx_p (l : bytes) (i : N) : outcome N := if i <? lenN l then Done (nthN i l) else Panic.
(* &l[..n], &l[n..], &l[a..b] on byte slices *)
Definition slice_to_p {A} (l : list A) (n : N) : outcome (list A) := if n <=? lenN l then Done (takeN n l) else Panic.
Definition slice_from_p {A} (l : list A) (n : N) : outcome (list A) := if n <=? lenN l then Done (dropN n l) else Panic.
Definition slice_p {A} (l : list A) (a b : N) : outcome (list A) :=
  if (a <=? b) && (b <=? lenN l) then Done (sliceN a b l) else Panic.
(* &s[a..b], &s[a..] on str: additionally both ends must be character boundaries *)
Definition str_slice_p (s : bytes) (a b : N) : outcome bytes :=
  if (a <=? b) && (b <=? lenN s) && is_char_boundary s a && is_char_boundary s b then Done (sliceN a b s) else Panic.
Definition str_slice_from_p (s : bytes) (a : N) : outcome bytes :=
  if (a <=? lenN s) && is_char_boundary s a then Done (dropN a s) else Panic.
(* usize arithmetic *)
Definition sub_p (a b : N) : outcome N := if b <=? a then Done (a - b) else Panic.
Definition add_p (a b : N) : outcome N := if a + b <=? USIZE_MAX then Done (a + b) else Panic.
(* dst[..].copy_from_slice(src) with dst of length n *)
Definition copy_from_slice_p (n : N) (src : bytes) : outcome bytes := if lenN src =? n then Done src else Panic.

(* ---- src/v1/mod.rs ---- *)
(* the two try_from bodies: min(suffix + PROTOCOL_SUFFIX.len(), input.len()) *)
Definition window_len_p (x : bytes) : outcome (result N err1) :=
  match first_cr x with
  | Some i => do n <- add_p i 2; Done (Ok (N.min n (lenN x)))
  | None => Done (if MAX_LENGTH <=? lenN x then Err HeaderTooLong else Ok (lenN x))
  end.

(* TryFrom<&[u8]>: &input[..length] *)
Definition p1_p (x : bytes) : outcome (result header1 berr1) :=
  do w <- window_len_p x;
  match w with
  | Err e => Done (Err (BParse e))
  | Ok n => do win <- slice_to_p x n;
            Done (if utf8_valid win then map_err BParse (parse_header win) else Err BInvalidUtf8)
  end.

(* TryFrom<&str>: input.get(..length) does not panic *)
Definition p1s_p (s : bytes) : outcome (result header1 err1) :=
  do w <- window_len_p s;
  match w with
  | Err e => Done (Err e)
  | Ok n => Done (match str_get_to s n with None => Err InvalidSuffix | Some h => parse_header h end)
  end.

Definition header_from_str_p (s : bytes) : outcome (result header1 err1) :=
  do r <- p1s_p s; Done (map_ok h1_to_owned r).
Definition addresses_from_str_p (s : bytes) : outcome (result addrs1 err1) :=
  do r <- p1s_p s; Done (map_ok addr r).

(* Header::addresses_str: start = 5 + 1 + protocol.len(); end = header.len() - 2; &header[start..end];
   if it starts with ' ' then &addresses[1..] *)
Definition h1_addresses_str_p (h : header1) : outcome bytes :=
  do start <- add_p (lenN PROXY + 1) (lenN (h1_protocol h));
  do end_ <- sub_p (lenN (text h)) (lenN CRLF);
  do addresses <- str_slice_p (text h) start end_;
  if is_prefix [SP] addresses then str_slice_from_p addresses 1 else Done addresses.

(* ---- src/v2/mod.rs ---- *)
Definition parse_addresses2_p (f : family) (b : bytes) : outcome addresses :=
  match f with
  | FUnspec => Done AUnspec
  | FIPv4 =>
    do b0 <- idx_p b 0; do b1 <- idx_p b 1; do b2 <- idx_p b 2; do b3 <- idx_p b 3;
    do b4 <- idx_p b 4; do b5 <- idx_p b 5; do b6 <- idx_p b 6; do b7 <- idx_p b 7;
    do b8 <- idx_p b 8; do b9 <- idx_p b 9; do b10 <- idx_p b 10; do b11 <- idx_p b 11;
    Done (AIPv4 [b0; b1; b2; b3] [b4; b5; b6; b7] (from_be16 b8 b9) (from_be16 b10 b11))
  | FIPv6 =>
    do s1 <- slice_to_p b 16; do sa <- copy_from_slice_p 16 s1;
    do s2 <- slice_p b 16 32; do da <- copy_from_slice_p 16 s2;
    do b32 <- idx_p b 32; do b33 <- idx_p b 33; do b34 <- idx_p b 34; do b35 <- idx_p b 35;
    Done (AIPv6 sa da (from_be16 b32 b33) (from_be16 b34 b35))
  | FUnix =>
    do s1 <- slice_to_p b 108; do src <- copy_from_slice_p 108 s1;
    do s2 <- slice_from_p b 108; do dst <- copy_from_slice_p 108 s2;
    Done (AUnix src dst)
  end.

Definition p2_p (x : bytes) : outcome (result header2 err2) :=
  if lenN x <? 12 then
    Done (if is_prefix x SIG then Err (Incomplete (lenN x)) else Err Prefix)
  else
    do sig <- slice_to_p x 12;
    if negb (beq sig SIG) then Done (Err Prefix)
    else if lenN x <? MINIMUM_LENGTH then Done (Err (Incomplete (lenN x)))
    else
      do vc <- idx_p x 12;
      let v := N.land vc 240 in
      if negb (v =? 32) then Done (Err (Version v)) else
      let c := N.land vc 15 in
      match (if c =? 0 then Some Local else if c =? 1 then Some Proxy else None) with
      | None => Done (Err (Command c))
      | Some cmd =>
        do fp <- idx_p x 13;
        let a := N.land fp 240 in
        match (if a =? 0 then Some FUnspec else if a =? 16 then Some FIPv4
               else if a =? 32 then Some FIPv6 else if a =? 48 then Some FUnix else None) with
        | None => Done (Err (AddressFamily a))
        | Some fam =>
          let p := N.land fp 15 in
          match (if p =? 0 then Some PUnspec else if p =? 1 then Some PStream
                 else if p =? 2 then Some PDatagram else None) with
          | None => Done (Err (Protocol p))
          | Some proto =>
            do l14 <- idx_p x 14; do l15 <- idx_p x 15;
            let length := from_be16 l14 l15 in
            let afb := unwrap_or_default (byte_length fam) in
            if length <? afb then Done (Err (InvalidAddresses length afb)) else
            do full <- add_p MINIMUM_LENGTH length;
            if lenN x <? full then (do have <- sub_p (lenN x) MINIMUM_LENGTH; Done (Err (Partial have length))) else
            do header <- slice_to_p x full;
            do e <- add_p MINIMUM_LENGTH afb;
            do ab <- slice_p header MINIMUM_LENGTH e;
            do addrs <- parse_addresses2_p fam ab;
            Done (Ok {| hbytes := header; hcommand := cmd; hprotocol := proto; haddresses := addrs |})
          end
        end
      end.

(* accessors of v2::Header *)
Definition h_length_p (h : header2) : outcome N := do s <- slice_from_p (hbytes h) MINIMUM_LENGTH; Done (lenN s).
Definition h_address_bytes_end_p (h : header2) : outcome N :=
  do length <- h_length_p h;
  let ab := match byte_length (h_address_family h) with Some n => n | None => length end in
  add_p MINIMUM_LENGTH (N.min ab length).
Definition h_address_bytes_p (h : header2) : outcome bytes :=
  do e <- h_address_bytes_end_p h; slice_p (hbytes h) MINIMUM_LENGTH e.
Definition h_tlv_bytes_p (h : header2) : outcome bytes :=
  do e <- h_address_bytes_end_p h; slice_from_p (hbytes h) e.

(* TypeLengthValues::next *)
Definition tlv_next_p (s : bytes) (off : N) : outcome (option tlv_item * N) :=
  if lenN s <=? off then Done (None, off) else
  do remaining <- slice_from_p s off;
  if lenN remaining <? MINIMUM_TLV_LENGTH then Done (Some (TErr (Leftovers (lenN s))), lenN s) else
  do k <- idx_p remaining 0; do l1 <- idx_p remaining 1; do l2 <- idx_p remaining 2;
  let length := from_be16 l1 l2 in
  do tlv_length <- add_p MINIMUM_TLV_LENGTH length;
  if lenN remaining <? tlv_length then Done (Some (TErr (InvalidTLV k length)), lenN s) else
  do off' <- add_p off tlv_length;
  do v <- slice_p remaining MINIMUM_TLV_LENGTH tlv_length;
  Done (Some (TOk k v), off').

Fixpoint collect_from_p (fuel : nat) (s : bytes) (off : N) : outcome (option (list tlv_item)) :=
  match fuel with
  | O => Done None
  | S f => do r <- tlv_next_p s off;
           match r with
           | (None, _) => Done (Some [])
           | (Some it, off') => do rest <- collect_from_p f s off';
                                Done (match rest with Some l => Some (it :: l) | None => None end)
           end
  end.
Definition collect_p (s : bytes) : outcome (option (list tlv_item)) := collect_from_p (S (length s)) s 0.

(* ---- src/lib.rs ---- *)
Definition pa_p (x : bytes) : outcome header_result :=
  do header <- p2_p x;
  if is_complete2 header && is_err header then (do r <- p1_p x; Done (RV1 r)) else Done (RV2 header).
