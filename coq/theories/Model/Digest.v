(* Digests of model results as plain lists of numbers, used only to cross-check the extraction:
   the same cases are evaluated inside Coq (vm_compute) and by the extracted OCaml code, and the two
   digest lists must coincide (./check, "extraction cross-check").  No proofs in this file. *)
From Coq Require Import ZArith.
From PPP Require Export Base.Bytes Model.V1 Model.V2 Model.Auto Model.Builder.

Definition err1_code (e : err1) : list N :=
  match e with
  | InvalidPrefix => [1] | Partial1 => [2] | MissingPrefix => [3] | MissingNewLine => [4] | MissingProtocol => [5]
  | MissingSourceAddress => [6] | MissingDestinationAddress => [7] | MissingSourcePort => [8]
  | MissingDestinationPort => [9] | HeaderTooLong => [10] | InvalidProtocol => [11] | InvalidSuffix => [12]
  | InvalidSourceAddress => [13] | InvalidDestinationAddress => [14]
  | InvalidSourcePort b => [15; if b then 1 else 0] | InvalidDestinationPort b => [16; if b then 1 else 0]
  end.
Definition addrs1_code (a : addrs1) : list N :=
  match a with
  | Unknown => [0]
  | Tcp4 sa da sp dp => 4 :: sp :: dp :: sa ++ da
  | Tcp6 sa da sp dp => 6 :: sp :: dp :: sa ++ da
  end.
Definition d_header1 (h : header1) : list N := lenN (text h) :: addrs1_code (addr h) ++ text h.
Definition d_v1b (x : bytes) : list N :=
  match p1 x with Ok h => 1 :: d_header1 h | Err (BParse e) => 0 :: err1_code e | Err BInvalidUtf8 => [0; 17] end.
Definition d_v1s (x : bytes) : list N :=
  match p1s x with Ok h => 1 :: d_header1 h | Err e => 0 :: err1_code e end.

Definition err2_code (e : err2) : list N :=
  match e with
  | Incomplete n => [1; n] | Prefix => [2] | Version v => [3; v] | Command c => [4; c] | AddressFamily a => [5; a]
  | Protocol p => [6; p] | Partial h n => [7; h; n] | InvalidAddresses l n => [8; l; n] | InvalidTLV k n => [9; k; n]
  | Leftovers n => [10; n]
  end.
Definition addresses_code (a : addresses) : list N :=
  match a with
  | AUnspec => [0]
  | AIPv4 sa da sp dp => 1 :: sp :: dp :: sa ++ da
  | AIPv6 sa da sp dp => 2 :: sp :: dp :: sa ++ da
  | AUnix s d => 3 :: s ++ d
  end.
Definition d_header2 (h : header2) : list N :=
  lenN (hbytes h) :: command_code (hcommand h) :: protocol_code (hprotocol h) :: addresses_code (haddresses h) ++ hbytes h.
Definition d_v2 (x : bytes) : list N :=
  match p2 x with Ok h => 1 :: d_header2 h | Err e => 0 :: err2_code e end.
Definition d_auto (x : bytes) : list N :=
  match pa x with
  | RV1 (Ok h) => 11 :: d_header1 h
  | RV1 (Err (BParse e)) => 10 :: err1_code e
  | RV1 (Err BInvalidUtf8) => [10; 17]
  | RV2 (Ok h) => 21 :: d_header2 h
  | RV2 (Err e) => 20 :: err2_code e
  end.
Definition d_item (i : tlv_item) : list N :=
  match i with TOk k v => 1 :: k :: lenN v :: v | TErr e => 0 :: err2_code e end.
Definition d_tlv (s : bytes) : list N :=
  match collect s with Some items => 1 :: concat (map d_item items) | None => [0] end.
