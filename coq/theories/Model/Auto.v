(* Model of src/lib.rs: HeaderResult and HeaderResult::parse.  No proofs in this file. *)
From PPP Require Export Base.Bytes Model.V1 Model.V2.

Inductive header_result :=
| RV1 (r : result header1 berr1)
| RV2 (r : result header2 err2).

Definition is_err {A E} (r : result A E) : bool := negb (is_ok r).

(* HeaderResult::parse: v2 first; fall back to v1 iff the v2 result is a complete (terminal) error *)
Definition pa (x : bytes) : header_result :=
  let header := p2 x in
  if is_complete2 header && is_err header then RV1 (p1 x) else RV2 header.

(* PartialResult for HeaderResult *)
Definition is_incomplete_a (r : header_result) : bool :=
  match r with RV1 r => is_incomplete1 r | RV2 r => is_incomplete2 r end.
Definition is_complete_a (r : header_result) : bool := negb (is_incomplete_a r).
