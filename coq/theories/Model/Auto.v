(* Model of src/lib.rs: HeaderResult and HeaderResult::parse.  No proofs in this file. *)
From PPP Require Export Base.Bytes Model.V1 Model.V2.

Inductive header_result :=
| RV1 (r : result header1 berr1)
| RV2 (r : result header2 err2).

Definition is_err {A E} (r : result A E) : bool := negb (is_ok r).

(* HeaderResult::parse: v2 first; fall back to v1 iff the v2 result is a complete (terminal) error *)
Definition pa (x : bytes) : header_result :=
  let header := p2 x in
  if is_complete2 header && is_err header then RV1 (p1 x) else RV2 header.

(* PartialResult for HeaderResult *)
Definition is_incomplete_a (r : header_result) : bool :=
  match r with RV1 r => is_incomplete1 r | RV2 r => is_incomplete2 r end.
Definition is_complete_a (r : header_result) : bool := negb (is_incomplete_a r).

(* ---- a receiver of pipelined headers (the loop of examples/server.rs, iterated): parse the buffer with
   HeaderResult::parse; on success remove exactly the reported header bytes (v1: header.len(), the line
   through its CRLF; v2: Header::len() = 16 + length) and go on; stop at the first non-success ---- *)
From Coq Require Import List.
Import ListNotations.
Inductive frame := F1 (h : header1) | F2 (h : header2).
Definition frame_bytes (f : frame) : bytes := match f with F1 h => text h | F2 h => hbytes h end.
Definition frame_of (r : header_result) : option frame :=
  match r with RV1 (Ok h) => Some (F1 h) | RV2 (Ok h) => Some (F2 h) | _ => None end.

(* the receive loop: parse, on success cut the reported bytes off the front and go on *)
Fixpoint drain (fuel : nat) (buf : bytes) : list frame * bytes :=
  match fuel with
  | O => ([], buf)
  | S f =>
    match frame_of (pa buf) with
    | Some fr => let '(fs, r) := drain f (dropN (lenN (frame_bytes fr)) buf) in (fr :: fs, r)
    | None => ([], buf)
    end
  end.


(* a streaming receiver of pipelined headers: every read is appended to the buffer, then as many complete
   headers as the buffer holds are removed (fuel = length + 1 always suffices: Proofs/StreamPipe.v, drain_enough);
   state = (frames delivered so far, buffered bytes) *)
Definition drain_full (buf : bytes) : list frame * bytes := drain (S (length buf)) buf.
Definition on_read (st : list frame * bytes) (r : bytes) : list frame * bytes :=
  let '(got, buf) := st in let '(fs, b) := drain_full (buf ++ r) in (got ++ fs, b).
