(* Model of src/v2/mod.rs (parser), src/v2/model.rs (types, views, TLV iterator) and src/ip.rs.
   Executable Gallina, written function by function after the Rust; no proofs in this file. *)
From PPP Require Export Base.Bytes.

(* ---- src/v2/model.rs: enums and their discriminants ---- *)
Inductive command := Local | Proxy.
Inductive family := FUnspec | FIPv4 | FIPv6 | FUnix.
Inductive protocol := PUnspec | PStream | PDatagram.

Definition version_two : N := 32.                       (* Version::Two = 0x20 *)
Definition command_code (c : command) : N := match c with Local => 0 | Proxy => 1 end.
Definition family_code (f : family) : N :=
  match f with FUnspec => 0 | FIPv4 => 16 | FIPv6 => 32 | FUnix => 48 end.
Definition protocol_code (p : protocol) : N :=
  match p with PUnspec => 0 | PStream => 1 | PDatagram => 2 end.

(* Type as u8 *)
Inductive tlv_type := ALPN | Authority | CRC32C | NoOp | UniqueId | SSL | SSLVersion | SSLCommonName
  | SSLCipher | SSLSignatureAlgorithm | SSLKeyAlgorithm | NetworkNamespace.
Definition type_code (t : tlv_type) : N :=
  match t with
  | ALPN => 1 | Authority => 2 | CRC32C => 3 | NoOp => 4 | UniqueId => 5
  | SSL => 32 | SSLVersion => 33 | SSLCommonName => 34 | SSLCipher => 35
  | SSLSignatureAlgorithm => 36 | SSLKeyAlgorithm => 37 | NetworkNamespace => 48
  end.

(* BitOr impls: Version|Command, Command|Version, AddressFamily|Protocol, Protocol|AddressFamily *)
Definition version_or_command (c : command) : N := N.lor version_two (command_code c).
Definition command_or_version (c : command) : N := N.lor (command_code c) version_two.
Definition family_or_protocol (f : family) (p : protocol) : N := N.lor (family_code f) (protocol_code p).
Definition protocol_or_family (p : protocol) (f : family) : N := N.lor (protocol_code p) (family_code f).

(* src/ip.rs IPv4 / IPv6 and model.rs Unix; Ipv4Addr = 4 octets, Ipv6Addr = 16 octets *)
Inductive addresses :=
| AUnspec
| AIPv4 (sa da : bytes) (sp dp : N)
| AIPv6 (sa da : bytes) (sp dp : N)
| AUnix (src dst : bytes).

Inductive err2 :=
| Incomplete (n : N) | Prefix | Version (v : N) | Command (c : N) | AddressFamily (a : N) | Protocol (p : N)
| Partial (have need : N) | InvalidAddresses (len need : N) | InvalidTLV (k n : N) | Leftovers (n : N).

Record header2 := { hbytes : bytes; hcommand : command; hprotocol : protocol; haddresses : addresses }.

Definition SIG : bytes := [13; 10; 13; 10; 0; 13; 10; 81; 85; 73; 84; 10].   (* "\r\n\r\n\0\r\nQUIT\n" *)
Definition MINIMUM_LENGTH : N := 16.
Definition MINIMUM_TLV_LENGTH : N := 3.

(* AddressFamily::byte_length *)
Definition byte_length (f : family) : option N :=
  match f with FIPv4 => Some 12 | FIPv6 => Some 36 | FUnix => Some 216 | FUnspec => None end.
Definition unwrap_or_default (o : option N) : N := match o with Some n => n | None => 0 end.
(* From<AddressFamily> for u16 *)
Definition family_to_u16 (f : family) : N := unwrap_or_default (byte_length f).

(* Addresses::{address_family,len,is_empty} *)
Definition address_family (a : addresses) : family :=
  match a with AUnspec => FUnspec | AIPv4 _ _ _ _ => FIPv4 | AIPv6 _ _ _ _ => FIPv6 | AUnix _ _ => FUnix end.
Definition addresses_len (a : addresses) : N := unwrap_or_default (byte_length (address_family a)).
Definition addresses_is_empty (a : addresses) : bool :=
  match byte_length (address_family a) with None => true | Some _ => false end.

(* src/v2/mod.rs parse_addresses *)
Definition parse_addresses2 (f : family) (b : bytes) : addresses :=
  match f with
  | FUnspec => AUnspec
  | FIPv4 => AIPv4 [nthN 0 b; nthN 1 b; nthN 2 b; nthN 3 b] [nthN 4 b; nthN 5 b; nthN 6 b; nthN 7 b]
                   (from_be16 (nthN 8 b) (nthN 9 b)) (from_be16 (nthN 10 b) (nthN 11 b))
  | FIPv6 => AIPv6 (takeN 16 b) (sliceN 16 32 b)
                   (from_be16 (nthN 32 b) (nthN 33 b)) (from_be16 (nthN 34 b) (nthN 35 b))
  | FUnix => AUnix (takeN 108 b) (dropN 108 b)
  end.

(* TryFrom<&[u8]> for Header *)
Definition p2 (x : bytes) : result header2 err2 :=
  if lenN x <? 12 then
    (if is_prefix x SIG then Err (Incomplete (lenN x)) else Err Prefix)
  else if negb (beq (takeN 12 x) SIG) then Err Prefix
  else if lenN x <? MINIMUM_LENGTH then Err (Incomplete (lenN x))
  else
    let vc := nthN 12 x in
    let fp := nthN 13 x in
    let v := N.land vc 240 in
    if negb (v =? 32) then Err (Version v) else
    let c := N.land vc 15 in
    match (if c =? 0 then Some Local else if c =? 1 then Some Proxy else None) with
    | None => Err (Command c)
    | Some cmd =>
      let a := N.land fp 240 in
      match (if a =? 0 then Some FUnspec else if a =? 16 then Some FIPv4
             else if a =? 32 then Some FIPv6 else if a =? 48 then Some FUnix else None) with
      | None => Err (AddressFamily a)
      | Some fam =>
        let p := N.land fp 15 in
        match (if p =? 0 then Some PUnspec else if p =? 1 then Some PStream
               else if p =? 2 then Some PDatagram else None) with
        | None => Err (Protocol p)
        | Some proto =>
          let length := from_be16 (nthN 14 x) (nthN 15 x) in
          let afb := unwrap_or_default (byte_length fam) in
          if length <? afb then Err (InvalidAddresses length afb) else
          let full := MINIMUM_LENGTH + length in
          if lenN x <? full then Err (Partial (lenN x - MINIMUM_LENGTH) length) else
          let header := takeN full x in
          Ok {| hbytes := header; hcommand := cmd; hprotocol := proto;
                haddresses := parse_addresses2 fam (sliceN MINIMUM_LENGTH (MINIMUM_LENGTH + afb) header) |}
        end
      end
    end.

(* ---- Header accessors ---- *)
Definition h_length (h : header2) : N := lenN (dropN MINIMUM_LENGTH (hbytes h)).
Definition h_len (h : header2) : N := lenN (hbytes h).
Definition h_is_empty (h : header2) : bool := isnil (hbytes h).
Definition h_address_family (h : header2) : family := address_family (haddresses h).
Definition h_address_bytes_end (h : header2) : N :=
  let length := h_length h in
  let ab := match byte_length (h_address_family h) with Some n => n | None => length end in
  MINIMUM_LENGTH + N.min ab length.
Definition h_address_bytes (h : header2) : bytes := sliceN MINIMUM_LENGTH (h_address_bytes_end h) (hbytes h).
Definition h_tlv_bytes (h : header2) : bytes := dropN (h_address_bytes_end h) (hbytes h).
Definition h_as_bytes (h : header2) : bytes := hbytes h.
Definition h_to_owned (h : header2) : header2 :=
  {| hbytes := hbytes h; hcommand := hcommand h; hprotocol := hprotocol h; haddresses := haddresses h |}.

(* ---- TypeLengthValues iterator: state = (bytes, offset) ---- *)
Inductive tlv_item := TOk (k : N) (v : bytes) | TErr (e : err2).

Definition tlv_next (s : bytes) (off : N) : option tlv_item * N :=
  if lenN s <=? off then (None, off) else
  let remaining := dropN off s in
  if lenN remaining <? MINIMUM_TLV_LENGTH then (Some (TErr (Leftovers (lenN s))), lenN s) else
  let k := nthN 0 remaining in
  let length := from_be16 (nthN 1 remaining) (nthN 2 remaining) in
  let tlv_length := MINIMUM_TLV_LENGTH + length in
  if lenN remaining <? tlv_length then (Some (TErr (InvalidTLV k length)), lenN s) else
  (Some (TOk k (sliceN MINIMUM_TLV_LENGTH tlv_length remaining)), off + tlv_length).

(* collect(): call next() until it returns None.  fuel: an explicit bound; `None` = fuel exhausted
   (Proofs/Tlv.v shows length s + 1 always suffices, so collect never returns None). *)
Fixpoint collect_from (fuel : nat) (s : bytes) (off : N) : option (list tlv_item) :=
  match fuel with
  | O => None
  | S f => match tlv_next s off with
           | (None, _) => Some []
           | (Some it, off') => match collect_from f s off' with Some r => Some (it :: r) | None => None end
           end
  end.
Definition collect (s : bytes) : option (list tlv_item) := collect_from (S (length s)) s 0.

(* TypeLengthValues::{len,is_empty}: len() is `bytes.len() as u16` *)
Definition tlvs_len (s : bytes) : N := lenN s mod 65536.
Definition tlvs_is_empty (s : bytes) : bool := isnil s.

(* ---- src/lib.rs: PartialResult for v2::ParseError and for Result<_, E> ---- *)
Definition err2_is_incomplete (e : err2) : bool :=
  match e with Incomplete _ | Partial _ _ => true | _ => false end.
Definition is_incomplete2 {A} (r : result A err2) : bool :=
  match r with Ok _ => false | Err e => err2_is_incomplete e end.
(* default method: is_complete = !is_incomplete *)
Definition is_complete2 {A} (r : result A err2) : bool := negb (is_incomplete2 r).

(* ---- Display for Header: "{:?} {:#X} {:#X} ({} bytes)" of PROTOCOL_PREFIX, version | command,
   protocol | address_family, length() ---- *)
Definition hexd_upper (d : N) : N := if d <? 10 then 48 + d else 55 + d.
(* {:#X} of a u8: "0x" and upper-case hexadecimal without padding *)
Definition fmt_hex_u8 (b : N) : bytes :=
  [48; 120] ++ (if b <? 16 then [hexd_upper b] else [hexd_upper (b / 16); hexd_upper (b mod 16)]).
(* Display for usize: decimal *)
Fixpoint fmt_dec_fuel (fuel : nat) (n : N) (acc : bytes) : bytes :=
  match fuel with
  | O => acc
  | S f => let acc' := (48 + n mod 10) :: acc in if n <? 10 then acc' else fmt_dec_fuel f (n / 10) acc'
  end.
Definition fmt_usize (n : N) : bytes := fmt_dec_fuel 20 n [].
(* {:?} of the signature slice *)
Definition SIG_DEBUG : bytes :=
  [91;49;51;44;32;49;48;44;32;49;51;44;32;49;48;44;32;48;44;32;49;51;44;32;49;48;44;32;56;49;44;32;56;53;44;32;55;51;44;32;56;52;44;32;49;48;93].
Definition h_display (h : header2) : bytes :=
  SIG_DEBUG ++ [32] ++ fmt_hex_u8 (version_or_command (hcommand h)) ++ [32]
  ++ fmt_hex_u8 (protocol_or_family (hprotocol h) (h_address_family h)) ++ [32; 40]
  ++ fmt_usize (h_length h) ++ [32; 98; 121; 116; 101; 115; 41].
