(* Model of src/v1/mod.rs (parse_header, parse_addresses, the TryFrom / FromStr entry points),
   src/v1/model.rs (Header, Addresses, views, Display) on top of the Std models.
   Executable Gallina, written function by function after the Rust; no proofs in this file.
   A &str is modelled as its bytes; the &str entry points assume [utf8_valid] of their input. *)
From PPP Require Export Base.Bytes Std.Utf8 Std.Text Std.Num Std.Ip.

(* src/v1/model.rs constants *)
Definition PROXY : bytes := [80; 82; 79; 88; 89].                 (* "PROXY" *)
Definition TCP4 : bytes := [84; 67; 80; 52].                      (* "TCP4" *)
Definition TCP6 : bytes := [84; 67; 80; 54].                      (* "TCP6" *)
Definition UNKNOWN : bytes := [85; 78; 75; 78; 79; 87; 78].       (* "UNKNOWN" *)
Definition CRLF : bytes := [CR; LF].                              (* PROTOCOL_SUFFIX *)
Definition MAX_LENGTH : N := 107.
Definition PARTS : nat := 7.

(* Addresses; IPv4 / IPv6 of src/ip.rs: Ipv4Addr = 4 octets, Ipv6Addr = 16 octets *)
Inductive addrs1 :=
| Unknown
| Tcp4 (sa da : bytes) (sp dp : N)
| Tcp6 (sa da : bytes) (sp dp : N).

Record header1 := { text : bytes; addr : addrs1 }.

(* src/v1/error.rs; the std error payloads are abstracted to what the crate itself decides:
   by_crate = true is InvalidXPort(None), false is InvalidXPort(Some(ParseIntError)) *)
Inductive err1 :=
| InvalidPrefix | Partial1 | MissingPrefix | MissingNewLine | MissingProtocol | MissingSourceAddress
| MissingDestinationAddress | MissingSourcePort | MissingDestinationPort | HeaderTooLong | InvalidProtocol
| InvalidSuffix | InvalidSourceAddress | InvalidDestinationAddress
| InvalidSourcePort (by_crate : bool) | InvalidDestinationPort (by_crate : bool).
Inductive berr1 := BParse (e : err1) | BInvalidUtf8.

(* "once the byte after the first `\r` is present" *)
Definition terminated (h : bytes) : bool :=
  match first_cr h with Some i => i + 2 <=? lenN h | None => false end.

(* the two port checks of parse_addresses *)
Definition parse_port (s : bytes) (mk : bool -> err1) : result N err1 :=
  if (is_prefix [48] s && negb (beq s [48])) || is_prefix [43] s then Err (mk true)
  else match parse_u16 s with Some n => Ok n | None => Err (mk false) end.

(* parse_addresses::<T>: `fields` are the parts the iterator still holds *)
Definition parse_addresses1 (parse : bytes -> option bytes) (term : bool) (fields : list bytes)
  : result (bytes * bytes * N * N) err1 :=
  let next i e := match nth_error fields i with
                  | Some f => Ok f
                  | None => if term then Ok [] else Err e
                  end in
  match next 0%nat MissingSourceAddress with Err e => Err e | Ok sa =>
  match next 1%nat MissingDestinationAddress with Err e => Err e | Ok da =>
  match next 2%nat MissingSourcePort with Err e => Err e | Ok sp =>
  match next 3%nat MissingDestinationPort with Err e => Err e | Ok dp =>
  if isnil dp && negb term && isnil (skipn 4 fields) then Err MissingDestinationPort else
  match parse sa with None => Err InvalidSourceAddress | Some sa' =>
  match parse da with None => Err InvalidDestinationAddress | Some da' =>
  match parse_port sp InvalidSourcePort with Err e => Err e | Ok sp' =>
  match parse_port dp InvalidDestinationPort with Err e => Err e | Ok dp' =>
  Ok (sa', da', sp', dp')
  end end end end end end end end.

(* the code after the protocol match: the part that must be "\n" *)
Definition finish1 (h : bytes) (term : bool) (fields : list bytes) (a : addrs1) : result header1 err1 :=
  let newline := match nth_error fields 4 with Some [] => None | o => o end in
  match newline with
  | None => if term then Err InvalidSuffix else Err MissingNewLine
  | Some nl => if beq nl [LF] && is_suffix CRLF h then Ok {| text := h; addr := a |} else Err InvalidSuffix
  end.

Definition parse_header (h : bytes) : result header1 err1 :=
  if isnil h then Err MissingPrefix
  else if MAX_LENGTH <? lenN h then Err HeaderTooLong
  else
    let term := terminated h in
    match splitn PARTS h with
    | [] => Err MissingPrefix
    | prefix :: rest =>
      if negb term && negb (isnil prefix) && is_prefix prefix PROXY && is_suffix prefix h then Err Partial1
      else if negb (beq prefix PROXY) then Err InvalidPrefix
      else match rest with
      | [] => Err MissingProtocol
      | proto :: fields =>
        if beq proto TCP4 then
          match parse_addresses1 parse_ipv4 term fields with
          | Err e => Err e
          | Ok (sa, da, sp, dp) => finish1 h term fields (Tcp4 sa da sp dp)
          end
        else if beq proto TCP6 then
          match parse_addresses1 parse_ipv6 term fields with
          | Err e => Err e
          | Ok (sa, da, sp, dp) => finish1 h term fields (Tcp6 sa da sp dp)
          end
        else if beq proto UNKNOWN then
          if is_suffix CRLF h then Ok {| text := h; addr := Unknown |}
          else if term then Err InvalidSuffix else Err MissingNewLine
        else if isnil proto && isnil fields then Err MissingProtocol
        else if negb term && negb (isnil proto) && is_suffix proto h
                && (is_prefix proto TCP4 || is_prefix proto UNKNOWN) then Err Partial1
        else Err InvalidProtocol
      end
    end.

(* the window both TryFrom impls compute: up to the first CR + 2 bytes *)
Definition window_len (x : bytes) : result N err1 :=
  match first_cr x with
  | Some i => Ok (N.min (i + 2) (lenN x))
  | None => if MAX_LENGTH <=? lenN x then Err HeaderTooLong else Ok (lenN x)
  end.

(* TryFrom<&str> *)
Definition p1s (s : bytes) : result header1 err1 :=
  match window_len s with
  | Err e => Err e
  | Ok n => match str_get_to s n with None => Err InvalidSuffix | Some h => parse_header h end
  end.

(* TryFrom<&[u8]> *)
Definition p1 (x : bytes) : result header1 berr1 :=
  match window_len x with
  | Err e => Err (BParse e)
  | Ok n => let w := takeN n x in
            if utf8_valid w then map_err BParse (parse_header w) else Err BInvalidUtf8
  end.

(* Header::to_owned: an owned copy holds the same text and addresses *)
Definition h1_to_owned (h : header1) : header1 := {| text := text h; addr := addr h |}.

(* FromStr for Addresses / Header<'static> *)
Definition addresses_from_str (s : bytes) : result addrs1 err1 := map_ok addr (p1s s).
Definition header_from_str (s : bytes) : result header1 err1 := map_ok h1_to_owned (p1s s).

(* Addresses::protocol / Header::protocol *)
Definition addrs_protocol (a : addrs1) : bytes :=
  match a with Tcp4 _ _ _ _ => TCP4 | Tcp6 _ _ _ _ => TCP6 | Unknown => UNKNOWN end.
Definition h1_protocol (h : header1) : bytes := addrs_protocol (addr h).

(* Header::addresses_str *)
Definition h1_addresses_str (h : header1) : bytes :=
  let start := lenN PROXY + 1 + lenN (h1_protocol h) in
  let end_ := lenN (text h) - lenN CRLF in
  let addresses := sliceN start end_ (text h) in
  if is_prefix [SP] addresses then dropN 1 addresses else addresses.

(* Display for Header: the text verbatim *)
Definition h1_to_string (h : header1) : bytes := text h.

(* Display for Addresses *)
Definition fmt1 (a : addrs1) : bytes :=
  match a with
  | Unknown => PROXY ++ [SP] ++ UNKNOWN ++ CRLF
  | Tcp4 sa da sp dp =>
    PROXY ++ [SP] ++ TCP4 ++ [SP] ++ fmt_ipv4 sa ++ [SP] ++ fmt_ipv4 da ++ [SP] ++ fmt_dec sp ++ [SP] ++ fmt_dec dp ++ CRLF
  | Tcp6 sa da sp dp =>
    PROXY ++ [SP] ++ TCP6 ++ [SP] ++ fmt_ipv6 sa ++ [SP] ++ fmt_ipv6 da ++ [SP] ++ fmt_dec sp ++ [SP] ++ fmt_dec dp ++ CRLF
  end.

(* ---- src/lib.rs: PartialResult for the v1 errors ---- *)
Definition err1_is_incomplete (e : err1) : bool :=
  match e with
  | Partial1 | MissingPrefix | MissingProtocol | MissingSourceAddress | MissingDestinationAddress
  | MissingSourcePort | MissingDestinationPort | MissingNewLine => true
  | _ => false
  end.
Definition berr1_is_incomplete (e : berr1) : bool :=
  match e with BParse e => err1_is_incomplete e | BInvalidUtf8 => false end.
Definition is_incomplete1s {A} (r : result A err1) : bool :=
  match r with Ok _ => false | Err e => err1_is_incomplete e end.
Definition is_incomplete1 {A} (r : result A berr1) : bool :=
  match r with Ok _ => false | Err e => berr1_is_incomplete e end.
