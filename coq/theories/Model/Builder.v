(* Model of src/v2/builder.rs: Writer, the WriteToHeader implementations, Builder as a state machine.
   Executable Gallina, no proofs in this file. *)
From Coq Require Import ZArith.
From PPP Require Export Base.Bytes Model.V2.

(* ---- Writer: an append-only buffer; `write` refuses once the buffer is longer than a full-size header ---- *)
Definition WRITER_LIMIT : N := 65535 + 16.          (* (u16::MAX as usize) + MINIMUM_LENGTH *)

(* Write::write: the guard is evaluated before the bytes are appended *)
Definition wwrite (w chunk : bytes) : option bytes :=
  if WRITER_LIMIT <? lenN w then None else Some (w ++ chunk).
(* io::Write::write_all: loops while the buffer is non-empty, so an empty slice never reaches `write` *)
Definition write_all (w chunk : bytes) : option bytes :=
  if isnil chunk then Some w else wwrite w chunk.
(* a sequence of write_all(..)? calls: stops at the first failure, keeping what was written *)
Fixpoint write_chunks (chunks : list bytes) (w : bytes) : bool * bytes :=
  match chunks with
  | [] => (true, w)
  | c :: r => match write_all w c with None => (false, w) | Some w' => write_chunks r w' end
  end.

(* ---- values that implement WriteToHeader ---- *)
Inductive payload :=
| PInt (width : nat) (v : Z)        (* u8..u128, usize, i8..i128, isize: width in bytes, value *)
| PBytes (b : bytes)                (* [u8] *)
| PAddrs (a : addresses)            (* Addresses *)
| PTlv (k : N) (v : bytes)          (* TypeLengthValue *)
| PPair (k : N) (v : bytes)         (* (T: Into<u8>, &[u8]) *)
| PSection (b : bytes) (offset : N)  (* TypeLengthValues: the section bytes and the iteration cursor *)
| PType (t : tlv_type).             (* Type *)

(* to_be_bytes of a `width`-byte integer (two's complement for negative values) *)
Fixpoint be_bytes (width : nat) (n : N) : bytes :=
  match width with O => [] | S k => be_bytes k (n / 256) ++ [n mod 256] end.
Definition int_be_bytes (width : nat) (v : Z) : bytes :=
  be_bytes width (Z.to_N (v mod (2 ^ (8 * Z.of_nat width)))).

Definition addr_chunks (a : addresses) : list bytes :=
  match a with
  | AUnspec => []
  | AIPv4 sa da sp dp => [sa; da; be16 sp; be16 dp]
  | AIPv6 sa da sp dp => [sa; da; be16 sp; be16 dp]
  | AUnix s d => [s; d]
  end.

Definition U16_MAX : N := 65535.

(* write_to: (Ok(n) | Err, the writer afterwards) *)
Definition write_to (p : payload) (w : bytes) : option N * bytes :=
  match p with
  | PInt width v =>
    let b := int_be_bytes width v in
    match write_all w b with Some w' => (Some (lenN b), w') | None => (None, w) end
  | PBytes b =>
    if U16_MAX <? lenN b then (None, w) else
    match write_all w b with Some w' => (Some (lenN b), w') | None => (None, w) end
  | PAddrs a =>
    match write_chunks (addr_chunks a) w with
    | (true, w') => (Some (addresses_len a), w')
    | (false, w') => (None, w')
    end
  | PTlv k v | PPair k v =>
    if U16_MAX <? lenN v then (None, w) else
    match write_chunks [[k]; be16 (lenN v); v] w with
    | (true, w') => (Some (MINIMUM_TLV_LENGTH + lenN v), w')
    | (false, w') => (None, w')
    end
  | PSection b _ =>     (* as_bytes(): the whole section, whatever the cursor *)
    match write_all w b with Some w' => (Some (lenN b), w') | None => (None, w) end
  | PType t =>
    (* Type uses `write`, not `write_all` *)
    match wwrite w [type_code t] with Some w' => (Some 1, w') | None => (None, w) end
  end.

(* WriteToHeader::to_bytes (default method) *)
Definition to_bytes (p : payload) : option bytes :=
  match write_to p [] with (Some _, w) => Some w | (None, _) => None end.

(* ---- Builder ---- *)
Record bstate := {
  b_header : option bytes;      (* header: Option<Vec<u8>> *)
  b_vc : N;                     (* version_command *)
  b_afp : N;                    (* address_family_protocol *)
  b_addrs : addresses;
  b_length : option N;          (* length: Option<u16> *)
  b_cap : N                     (* additional_capacity (no output depends on it) *)
}.

Inductive ctor :=
| CNew (vc afp : N)                                   (* Builder::new *)
| CWith (vc : N) (p : protocol) (a : addresses).      (* Builder::with_addresses *)

Definition binit (c : ctor) : bstate :=
  match c with
  | CNew vc afp => {| b_header := None; b_vc := vc; b_afp := afp; b_addrs := AUnspec; b_length := None; b_cap := 0 |}
  | CWith vc p a => {| b_header := None; b_vc := vc; b_afp := family_or_protocol (address_family a) p;
                       b_addrs := a; b_length := None; b_cap := 0 |}
  end.

Inductive bop :=
| Reserve (n : N)
| SetLength (l : option N)
| WritePayload (p : payload)
| WritePayloads (ps : list payload)
| WriteTlv (k : N) (v : bytes).

Definition set_header (s : bstate) (h : option bytes) : bstate :=
  {| b_header := h; b_vc := b_vc s; b_afp := b_afp s; b_addrs := b_addrs s; b_length := b_length s; b_cap := b_cap s |}.

(* write_header: does nothing when the buffer exists; None = Err *)
Definition write_header (s : bstate) : option bstate :=
  match b_header s with
  | Some _ => Some s
  | None =>
    let length := match b_length s with Some l => l | None => 0 end in
    let header := SIG ++ [b_vc s; b_afp s] ++ be16 length in
    match write_to (PAddrs (b_addrs s)) header with
    | (Some _, w) => Some (set_header s (Some w))
    | (None, _) => None
    end
  end.

(* write_internal *)
Definition write_internal (s : bstate) (p : payload) : option bstate :=
  let w := match b_header s with Some h => h | None => [] end in
  match write_to p w with
  | (Some _, w') => Some (set_header s (Some w'))
  | (None, _) => None
  end.

Fixpoint write_items (ps : list payload) (w : bytes) : option bytes :=
  match ps with
  | [] => Some w
  | p :: r => match write_to p w with (Some _, w') => write_items r w' | (None, _) => None end
  end.

(* one builder call; None = the call returned Err (and consumed the builder) *)
Definition bstep (s : bstate) (o : bop) : option bstate :=
  match o with
  | Reserve n =>
    Some (match b_header s with
          | None => {| b_header := None; b_vc := b_vc s; b_afp := b_afp s; b_addrs := b_addrs s;
                       b_length := b_length s; b_cap := b_cap s + n |}
          | Some _ => s
          end)
  | SetLength l =>
    Some {| b_header := b_header s; b_vc := b_vc s; b_afp := b_afp s; b_addrs := b_addrs s;
            b_length := l; b_cap := b_cap s |}
  | WritePayload p =>
    match write_header s with None => None | Some s1 => write_internal s1 p end
  | WritePayloads ps =>
    match write_header s with
    | None => None
    | Some s1 =>
      let w := match b_header s1 with Some h => h | None => [] end in
      match write_items ps w with Some w' => Some (set_header s1 (Some w')) | None => None end
    end
  | WriteTlv k v =>
    match write_header s with None => None | Some s1 => write_internal s1 (PTlv k v) end
  end.

(* header[14..16].copy_from_slice(length.to_be_bytes()) *)
Definition patch_length (h : bytes) (l : N) : bytes := takeN 14 h ++ be16 l ++ dropN 16 h.

(* build *)
Definition bbuild (s : bstate) : option bytes :=
  match write_header s with
  | None => None
  | Some s1 =>
    let header := match b_header s1 with Some h => h | None => [] end in
    match b_length s1 with
    | Some l => Some (patch_length header l)
    | None =>
      let payload_length := lenN (dropN MINIMUM_LENGTH header) in
      if payload_length <=? U16_MAX then Some (patch_length header payload_length) else None
    end
  end.

Inductive bresult := BOk (out : bytes) | BErrAt (i : N) | BErrBuild.

Fixpoint brun_from (s : bstate) (ops : list bop) (i : N) : bresult :=
  match ops with
  | [] => match bbuild s with Some out => BOk out | None => BErrBuild end
  | o :: r => match bstep s o with Some s' => brun_from s' r (i + 1) | None => BErrAt i end
  end.
Definition brun (c : ctor) (ops : list bop) : bresult := brun_from (binit c) ops 0.

(* helper for the model driver: a decimal literal (sign, digits) as a Z *)
Definition z_of_digits (neg : bool) (ds : list N) : Z :=
  let n := fold_left (fun acc d => acc * 10 + d) ds 0 in
  if neg then Z.opp (Z.of_N n) else Z.of_N n.

(* helpers for the re-encoding round trip (C13): decoded items as payloads *)
Definition item_ok_b (i : tlv_item) : bool := match i with TOk _ _ => true | TErr _ => false end.
Definition item_payload_b (i : tlv_item) : payload := match i with TOk k v => PTlv k v | TErr _ => PBytes [] end.
