(* Model of the constructors and conversions of src/ip.rs, src/v1/model.rs, src/v2/model.rs (C19).
   The structs IPv4 / IPv6 store (source_address, source_port, destination_address, destination_port);
   in the model an address value is written  Tcp4 sa da sp dp / AIPv4 sa da sp dp  (source address,
   destination address, source port, destination port).  No proofs in this file. *)
From PPP Require Export Base.Bytes Model.V1 Model.V2.

(* IPv4 / IPv6 of src/ip.rs, with their four public fields *)
Record ipn := { source_address : bytes; source_port : N; destination_address : bytes; destination_port : N }.

(* IPv4::new / IPv6::new (source_address, destination_address, source_port, destination_port) *)
Definition ip_new (source_address destination_address : bytes) (source_port destination_port : N) : ipn :=
  {| source_address := source_address; source_port := source_port;
     destination_address := destination_address; destination_port := destination_port |}.

(* From<IPv4> / From<IPv6> for v1::Addresses and v2::Addresses *)
Definition v1_of_ip4 (a : ipn) : addrs1 := Tcp4 (source_address a) (destination_address a) (source_port a) (destination_port a).
Definition v1_of_ip6 (a : ipn) : addrs1 := Tcp6 (source_address a) (destination_address a) (source_port a) (destination_port a).
Definition v2_of_ip4 (a : ipn) : addresses := AIPv4 (source_address a) (destination_address a) (source_port a) (destination_port a).
Definition v2_of_ip6 (a : ipn) : addresses := AIPv6 (source_address a) (destination_address a) (source_port a) (destination_port a).

(* Addresses::new_tcp4 / new_tcp6 *)
Definition new_tcp4 (sa da : bytes) (sp dp : N) : addrs1 := v1_of_ip4 (ip_new sa da sp dp).
Definition new_tcp6 (sa da : bytes) (sp dp : N) : addrs1 := v1_of_ip6 (ip_new sa da sp dp).

(* Unix::new(source, destination) *)
Definition unix_new (source destination : bytes) : addresses := AUnix source destination.

(* std::net::SocketAddr: V4(ip, port) | V6(ip, port, flowinfo, scope_id) *)
Inductive sockaddr := SV4 (ip : bytes) (port : N) | SV6 (ip : bytes) (port flowinfo scope_id : N).

(* From<(SocketAddr, SocketAddr)> for v1::Addresses *)
Definition v1_of_pair (s d : sockaddr) : addrs1 :=
  match s, d with
  | SV4 a p, SV4 b q => v1_of_ip4 (ip_new a b p q)
  | SV6 a p _ _, SV6 b q _ _ => v1_of_ip6 (ip_new a b p q)
  | _, _ => Unknown
  end.
(* From<(SocketAddr, SocketAddr)> for v2::Addresses *)
Definition v2_of_pair (s d : sockaddr) : addresses :=
  match s, d with
  | SV4 a p, SV4 b q => v2_of_ip4 (ip_new a b p q)
  | SV6 a p _ _, SV6 b q _ _ => v2_of_ip6 (ip_new a b p q)
  | _, _ => AUnspec
  end.

(* Header::new(text, addresses) *)
Definition header1_new (t : bytes) (a : addrs1) : header1 := {| text := t; addr := a |}.
