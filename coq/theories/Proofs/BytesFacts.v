(* Facts about the base definitions: N-indexed slicing vs firstn/skipn, lengths, prefix tests. *)
From PPP Require Export Base.Bytes.
From Coq Require Export ZArith Lia ZifyBool ZifyN ZifyNat.
Ltac Zify.zify_post_hook ::= Z.div_mod_to_equations.

Lemma lenN_length {A} (l : list A) : lenN l = N.of_nat (length l).
Proof. induction l as [|x r IH]; cbn [lenN length]; [reflexivity|]. rewrite IH. lia. Qed.

Lemma lenN_nil {A} : lenN (@nil A) = 0. Proof. reflexivity. Qed.
Lemma lenN_cons {A} (x : A) l : lenN (x :: l) = 1 + lenN l.
Proof. cbn [lenN]. lia. Qed.
Lemma lenN_app {A} (l r : list A) : lenN (l ++ r) = lenN l + lenN r.
Proof. rewrite !lenN_length, app_length. lia. Qed.
Lemma lenN_0 {A} (l : list A) : lenN l = 0 -> l = [].
Proof. destruct l; [reflexivity|]. rewrite lenN_cons. lia. Qed.

Lemma takeN_firstn {A} n (l : list A) : takeN n l = firstn (N.to_nat n) l.
Proof.
  revert n; induction l as [|x r IH]; intros n; cbn [takeN].
  - now rewrite firstn_nil.
  - destruct (n =? 0) eqn:E.
    + apply N.eqb_eq in E. subst. reflexivity.
    + apply N.eqb_neq in E. replace (N.to_nat n) with (S (N.to_nat (N.pred n))) by lia.
      cbn [firstn]. now rewrite IH.
Qed.

Lemma dropN_skipn {A} n (l : list A) : dropN n l = skipn (N.to_nat n) l.
Proof.
  revert n; induction l as [|x r IH]; intros n; cbn [dropN].
  - now rewrite skipn_nil.
  - destruct (n =? 0) eqn:E.
    + apply N.eqb_eq in E. subst. reflexivity.
    + apply N.eqb_neq in E. replace (N.to_nat n) with (S (N.to_nat (N.pred n))) by lia.
      cbn [skipn]. now rewrite IH.
Qed.

Lemma takeN_dropN {A} n (l : list A) : takeN n l ++ dropN n l = l.
Proof. rewrite takeN_firstn, dropN_skipn. apply firstn_skipn. Qed.

Lemma lenN_takeN {A} n (l : list A) : lenN (takeN n l) = N.min n (lenN l).
Proof. rewrite takeN_firstn, !lenN_length, firstn_length. lia. Qed.

Lemma lenN_dropN {A} n (l : list A) : lenN (dropN n l) = lenN l - n.
Proof. rewrite dropN_skipn, !lenN_length, skipn_length. lia. Qed.

Lemma takeN_0 {A} (l : list A) : takeN 0 l = [].
Proof. destruct l; reflexivity. Qed.
Lemma dropN_0 {A} (l : list A) : dropN 0 l = l.
Proof. destruct l; reflexivity. Qed.

Lemma dropN3 {A} (a b c : A) r : dropN 3 (a :: b :: c :: r) = r.
Proof. destruct r; reflexivity. Qed.

Lemma dropN1 {A} (x : A) l : dropN 1 (x :: l) = l.
Proof. destruct l; reflexivity. Qed.

Lemma takeN_app_exact {A} (l r : list A) n : n = lenN l -> takeN n (l ++ r) = l.
Proof.
  intros ->. rewrite takeN_firstn, lenN_length, Nat2N.id.
  rewrite firstn_app, Nat.sub_diag, firstn_all. cbn. apply app_nil_r.
Qed.
Lemma dropN_app_exact {A} (l r : list A) n : n = lenN l -> dropN n (l ++ r) = r.
Proof.
  intros ->. rewrite dropN_skipn, lenN_length, Nat2N.id.
  rewrite skipn_app, Nat.sub_diag, skipn_all. reflexivity.
Qed.

Lemma takeN_app_le {A} (l r : list A) n : n <= lenN l -> takeN n (l ++ r) = takeN n l.
Proof.
  intros H. rewrite !takeN_firstn, firstn_app. rewrite lenN_length in H.
  replace (N.to_nat n - length l)%nat with O by lia. cbn. apply app_nil_r.
Qed.
Lemma takeN_app_ge {A} (l r : list A) n : lenN l <= n -> takeN n (l ++ r) = l ++ takeN (n - lenN l) r.
Proof.
  intros H. rewrite !takeN_firstn, firstn_app. rewrite lenN_length in *.
  rewrite firstn_all2 by lia. f_equal. f_equal. lia.
Qed.
Lemma dropN_app_ge {A} (l r : list A) n : lenN l <= n -> dropN n (l ++ r) = dropN (n - lenN l) r.
Proof.
  intros H. rewrite !dropN_skipn, skipn_app. rewrite lenN_length in *.
  rewrite skipn_all2 by lia. cbn. f_equal. lia.
Qed.
Lemma dropN_app_le {A} (l r : list A) n : n <= lenN l -> dropN n (l ++ r) = dropN n l ++ r.
Proof.
  intros H. rewrite !dropN_skipn, skipn_app. rewrite lenN_length in *.
  replace (N.to_nat n - length l)%nat with O by lia. reflexivity.
Qed.

Lemma takeN_all {A} (l : list A) n : lenN l <= n -> takeN n l = l.
Proof. intros H. rewrite takeN_firstn. apply firstn_all2. rewrite lenN_length in H. lia. Qed.
Lemma dropN_all {A} (l : list A) n : lenN l <= n -> dropN n l = [].
Proof. intros H. rewrite dropN_skipn. apply skipn_all2. rewrite lenN_length in H. lia. Qed.

Lemma skipn_skipn' {A} (l : list A) a b : skipn a (skipn b l) = skipn (b + a) l.
Proof.
  revert l; induction b as [|b IH]; intros l; [reflexivity|].
  destruct l as [|x l]; [now rewrite !skipn_nil|]. cbn [skipn Nat.add]. apply IH.
Qed.
Lemma dropN_dropN {A} (l : list A) a b : dropN a (dropN b l) = dropN (b + a) l.
Proof. rewrite !dropN_skipn, skipn_skipn'. f_equal. lia. Qed.

Lemma takeN_takeN {A} (l : list A) a b : takeN a (takeN b l) = takeN (N.min a b) l.
Proof. rewrite !takeN_firstn, firstn_firstn. f_equal. lia. Qed.

Lemma takeN_cons {A} n (x : A) l : 0 < n -> takeN n (x :: l) = x :: takeN (n - 1) l.
Proof. intros H. cbn [takeN]. destruct (n =? 0) eqn:E; [lia|]. now rewrite N.sub_1_r. Qed.
Lemma dropN_cons {A} n (x : A) l : 0 < n -> dropN n (x :: l) = dropN (n - 1) l.
Proof. intros H. cbn [dropN]. destruct (n =? 0) eqn:E; [lia|]. now rewrite N.sub_1_r. Qed.

Lemma nthN_0 x l : nthN 0 (x :: l) = x. Proof. reflexivity. Qed.
Lemma nthN_cons n x l : 0 < n -> nthN n (x :: l) = nthN (n - 1) l.
Proof. intros H. unfold nthN. now rewrite dropN_cons. Qed.
Lemma nthN_app_l (l r : bytes) n : n < lenN l -> nthN n (l ++ r) = nthN n l.
Proof.
  intros H. unfold nthN. rewrite dropN_app_le by lia.
  destruct (dropN n l) eqn:E; [|reflexivity].
  apply (f_equal lenN) in E. rewrite lenN_dropN in E. cbn in E. lia.
Qed.
Lemma nthN_app_r (l r : bytes) n : lenN l <= n -> nthN n (l ++ r) = nthN (n - lenN l) r.
Proof. intros H. unfold nthN. now rewrite dropN_app_ge. Qed.

Lemma beq_refl x : beq x x = true.
Proof. induction x as [|a x IH]; cbn [beq]; [reflexivity|]. now rewrite N.eqb_refl, IH. Qed.
Lemma beq_eq x y : beq x y = true <-> x = y.
Proof.
  split; [|intros ->; apply beq_refl].
  revert y; induction x as [|a x IH]; destruct y as [|c y]; cbn [beq]; try discriminate; [reflexivity|].
  intros H. apply andb_prop in H as [H1 H2]. apply N.eqb_eq in H1. subst. f_equal. now apply IH.
Qed.
Lemma beq_neq x y : beq x y = false <-> x <> y.
Proof.
  split.
  - intros H E. apply beq_eq in E. congruence.
  - intros H. destruct (beq x y) eqn:E; [|reflexivity]. apply beq_eq in E. contradiction.
Qed.

Lemma is_prefix_app p l : is_prefix p l = true <-> exists r, l = p ++ r.
Proof.
  revert l; induction p as [|a p IH]; intros l; cbn [is_prefix].
  - split; [intros _; now exists l|reflexivity].
  - destruct l as [|c l].
    + split; [discriminate|intros [r H]; discriminate].
    + rewrite andb_true_iff, N.eqb_eq, IH. split.
      * intros [-> [r ->]]. now exists r.
      * intros [r H]. injection H as -> ->. split; [reflexivity|now exists r].
Qed.

Lemma is_prefix_takeN p l : is_prefix p l = beq (takeN (lenN p) l) p.
Proof.
  revert l; induction p as [|a p IH]; intros l.
  - rewrite takeN_0. reflexivity.
  - destruct l as [|c l]; [reflexivity|].
    rewrite lenN_cons, takeN_cons by lia. replace (1 + lenN p - 1) with (lenN p) by lia.
    cbn [is_prefix beq]. rewrite IH, (N.eqb_sym a c). reflexivity.
Qed.

Lemma is_suffix_app s l : is_suffix s l = true <-> exists r, l = r ++ s.
Proof.
  unfold is_suffix. rewrite is_prefix_app. split.
  - intros [r H]. exists (rev r). apply (f_equal (@rev N)) in H.
    now rewrite rev_involutive, rev_app_distr, rev_involutive in H.
  - intros [r ->]. exists (rev r). now rewrite rev_app_distr.
Qed.

Lemma wf_bytes_app l r : wf_bytes (l ++ r) = wf_bytes l && wf_bytes r.
Proof. apply forallb_app. Qed.
Lemma wf_bytes_cons b l : wf_bytes (b :: l) = (b <? 256) && wf_bytes l.
Proof. reflexivity. Qed.
Lemma wf_bytes_takeN l n : wf_bytes l = true -> wf_bytes (takeN n l) = true.
Proof. intros H. rewrite <- (takeN_dropN n l), wf_bytes_app in H. now apply andb_prop in H. Qed.
Lemma wf_bytes_dropN l n : wf_bytes l = true -> wf_bytes (dropN n l) = true.
Proof. intros H. rewrite <- (takeN_dropN n l), wf_bytes_app in H. now apply andb_prop in H. Qed.
Lemma wf_bytes_nthN l n : wf_bytes l = true -> nthN n l < 256.
Proof.
  intros H. unfold nthN. pose proof (wf_bytes_dropN l n H) as H'.
  destruct (dropN n l) as [|x r]; [lia|]. rewrite wf_bytes_cons in H'. apply andb_prop in H' as [H' _]. lia.
Qed.

Lemma dropN_nthN (l : bytes) n : n < lenN l -> dropN n l = nthN n l :: dropN (n + 1) l.
Proof.
  intros H. unfold nthN. destruct (dropN n l) as [|x r] eqn:E.
  - apply (f_equal lenN) in E. rewrite lenN_dropN in E. cbn in E. lia.
  - f_equal. rewrite <- dropN_dropN, E. rewrite dropN_cons by lia. cbn. now rewrite dropN_0.
Qed.

(* splitting a list at known positions *)
Lemma list_split_at {A} (l : list A) n : n <= lenN l -> exists a b, l = a ++ b /\ lenN a = n.
Proof.
  intros H. exists (takeN n l), (dropN n l). split; [now rewrite takeN_dropN|]. rewrite lenN_takeN. lia.
Qed.
