(* C18 (the v1 verdict is final once the first line break or 107 bytes have been seen) and
   C04 for v1 (an accepted header does not depend on what follows it). *)
From PPP Require Import Base.Bytes Std.Utf8 Std.Text Std.Num Std.Ip Model.V1 Proofs.BytesFacts Proofs.V1Text.

(* ---- on a terminated line no "still arriving" error is produced ---- *)
Lemma parse_addresses1_term parse fields e :
  parse_addresses1 parse true fields = Err e -> err1_is_incomplete e = false.
Proof.
  unfold parse_addresses1.
  destruct (nth_error fields 0), (nth_error fields 1), (nth_error fields 2), (nth_error fields 3);
    cbn [negb andb]; rewrite ?andb_false_r; cbn [andb];
    repeat match goal with |- context [match parse ?x with _ => _ end] => destruct (parse x) end;
    unfold parse_port;
    repeat match goal with |- context [if ?c then _ else _] => destruct c end;
    repeat match goal with |- context [match parse_u16 ?x with _ => _ end] => destruct (parse_u16 x) end;
    intros H; inversion H; reflexivity.
Qed.

Lemma finish1_term h fields a : is_incomplete1s (finish1 h true fields a) = false.
Proof.
  unfold finish1. destruct (nth_error fields 4) as [[|]|]; cbn; try reflexivity;
    match goal with |- context [if ?c then _ else _] => destruct c end; reflexivity.
Qed.

Theorem terminated_complete h : terminated h = true -> is_incomplete1s (parse_header h) = false.
Proof.
  intros T. unfold parse_header. rewrite T. cbn [negb andb].
  destruct h as [|c0 h0]; [discriminate T|]. cbn [isnil].
  destruct (MAX_LENGTH <? lenN (c0 :: h0)); [reflexivity|].
  remember (c0 :: h0) as h eqn:Hh. unfold PARTS.
  rewrite splitn_SS. destruct (cut h) as [prefix [r|]] eqn:Ec.
  2:{ apply cut_none in Ec as [_ Hn]. apply no_sep_no_cr, first_cr_none in Hn.
      unfold terminated in T. rewrite Hn in T. discriminate. }
  destruct (beq prefix PROXY) eqn:Ep; [|reflexivity]. cbn [negb].
  rewrite splitn_SS. destruct (cut r) as [proto [r'|]] eqn:Ec2.
  - destruct (beq proto TCP4).
    { destruct (parse_addresses1 _ _ _) as [[[[? ?] ?] ?]|e] eqn:Ea; [apply finish1_term|].
      apply parse_addresses1_term in Ea. exact Ea. }
    destruct (beq proto TCP6).
    { destruct (parse_addresses1 _ _ _) as [[[[? ?] ?] ?]|e] eqn:Ea; [apply finish1_term|].
      apply parse_addresses1_term in Ea. exact Ea. }
    destruct (beq proto UNKNOWN). { destruct (is_suffix CRLF h); reflexivity. }
    rewrite (splitn_nonnil 4 r'), andb_false_r. reflexivity.
  - destruct (beq proto TCP4).
    { destruct (parse_addresses1 _ _ _) as [[[[? ?] ?] ?]|e] eqn:Ea; [apply finish1_term|].
      apply parse_addresses1_term in Ea. exact Ea. }
    destruct (beq proto TCP6).
    { destruct (parse_addresses1 _ _ _) as [[[[? ?] ?] ?]|e] eqn:Ea; [apply finish1_term|].
      apply parse_addresses1_term in Ea. exact Ea. }
    destruct (beq proto UNKNOWN). { destruct (is_suffix CRLF h); reflexivity. }
    destruct proto as [|p0 proto]; cbn [isnil andb]; [|reflexivity].
    (* h = PROXY ++ [sep]: cannot be terminated *)
    exfalso. apply cut_none in Ec2 as [E2 _]. subst r. apply cut_some in Ec as (c & E & Hs & Hn).
    apply beq_eq in Ep. subst prefix. rewrite E in T.
    unfold is_sep in Hs. apply orb_prop in Hs as [Hs|Hs]; apply N.eqb_eq in Hs; subst c; vm_compute in T; discriminate.
Qed.

(* ---- C18 at the entry points ---- *)
Definition settled (x : bytes) : Prop :=
  (exists i, first_cr x = Some i /\ i + 1 < lenN x) \/ (first_cr x = None /\ MAX_LENGTH <= lenN x).

Theorem p1_final x : settled x -> is_incomplete1 (p1 x) = false.
Proof.
  intros [(i & H & Hl)|[H Hl]]; unfold p1.
  - destruct (window_cr x i H Hl) as (a & b & t & Ex & Ha & Hn & Hw & Hwl). rewrite Hwl, Hw.
    destruct (utf8_valid _); [|reflexivity].
    pose proof (terminated_complete _ (terminated_window a b Hn)) as C.
    destruct (parse_header _); [reflexivity|exact C].
  - unfold window_len. rewrite H. replace (MAX_LENGTH <=? lenN x) with true by lia. reflexivity.
Qed.

Theorem p1s_final x : settled x -> is_incomplete1s (p1s x) = false.
Proof.
  intros [(i & H & Hl)|[H Hl]]; unfold p1s.
  - destruct (window_cr x i H Hl) as (a & b & t & Ex & Ha & Hn & Hw & Hwl). rewrite Hwl.
    unfold str_get_to. destruct (is_char_boundary x (i + 2)); [|reflexivity]. rewrite Hw.
    apply terminated_complete, terminated_window, Hn.
  - unfold window_len. rewrite H. replace (MAX_LENGTH <=? lenN x) with true by lia. reflexivity.
Qed.

(* no later byte changes the verdict: identical result after the first line break ... *)
Theorem p1_stable_cr x t i : first_cr x = Some i -> i + 1 < lenN x -> p1 (x ++ t) = p1 x.
Proof.
  intros H Hl. destruct (window_cr x i H Hl) as (a & b & r & Ex & Ha & Hn & Hw & Hwl).
  assert (H' : first_cr (x ++ t) = Some i) by now apply first_cr_app_some.
  assert (Hl' : i + 1 < lenN (x ++ t)) by (rewrite lenN_app; lia).
  destruct (window_cr (x ++ t) i H' Hl') as (a' & b' & r' & Ex' & Ha' & Hn' & Hw' & Hwl').
  unfold p1. rewrite Hwl, Hwl'. f_equal; rewrite takeN_app_le by lia; reflexivity.
Qed.

(* ... and still a complete error after 107 bytes without CR *)
Theorem p1_stable_long x t : first_cr x = None -> MAX_LENGTH <= lenN x ->
  is_ok (p1 x) = false /\ is_ok (p1 (x ++ t)) = false
  /\ is_incomplete1 (p1 x) = false /\ is_incomplete1 (p1 (x ++ t)) = false.
Proof.
  intros H Hl.
  assert (E : p1 x = Err (BParse HeaderTooLong)).
  { unfold p1, window_len. rewrite H. replace (MAX_LENGTH <=? lenN x) with true by lia. reflexivity. }
  rewrite E. repeat split; try reflexivity.
  - (* the window of x ++ t is longer than 107 bytes or there is none *)
    unfold p1, window_len. destruct (first_cr (x ++ t)) as [j|] eqn:Ej.
    + destruct (first_cr_some _ _ Ej) as (a & r & Ea & Hj & Hn).
      assert (lenN x <= j).
      { destruct (N.le_gt_cases (lenN x) j) as [Hle|Hgt]; [exact Hle|exfalso].
        assert (Hx : x = takeN (lenN x) (a ++ CR :: r)) by (rewrite <- Ea; symmetry; now apply takeN_app_exact).
        apply first_cr_none in H. rewrite Hx, takeN_app_ge, no_cr_app in H by lia.
        apply andb_prop in H as [_ H]. rewrite takeN_cons in H by lia. cbn in H. discriminate. }
      set (w := takeN _ _). assert (Hw : MAX_LENGTH < lenN w).
      { unfold w. rewrite lenN_takeN, lenN_app. assert (0 < lenN t \/ lenN t = 0) as [Ht|Ht] by lia.
        - pose proof (first_cr_lt _ _ Ej) as Hlt. rewrite lenN_app in Hlt.
          (* j >= 107 and the window is min (j+2) len >= 108 *) lia.
        - apply lenN_0 in Ht. subst t. rewrite app_nil_r in Ej. congruence. }
      destruct (utf8_valid w); [|reflexivity]. unfold parse_header.
      destruct w; [cbn in Hw; lia|]. cbn [isnil]. replace (MAX_LENGTH <? lenN (n :: w)) with true by lia. reflexivity.
    + rewrite lenN_app. replace (MAX_LENGTH <=? lenN x + lenN t) with true by lia. reflexivity.
  - unfold p1, window_len. destruct (first_cr (x ++ t)) as [j|] eqn:Ej.
    + destruct (first_cr_some _ _ Ej) as (a & r & Ea & Hj & Hn).
      assert (lenN x <= j).
      { destruct (N.le_gt_cases (lenN x) j) as [Hle|Hgt]; [exact Hle|exfalso].
        assert (Hx : x = takeN (lenN x) (a ++ CR :: r)) by (rewrite <- Ea; symmetry; now apply takeN_app_exact).
        apply first_cr_none in H. rewrite Hx, takeN_app_ge, no_cr_app in H by lia.
        apply andb_prop in H as [_ H]. rewrite takeN_cons in H by lia. cbn in H. discriminate. }
      set (w := takeN _ _). assert (Hw : MAX_LENGTH < lenN w).
      { unfold w. rewrite lenN_takeN, lenN_app. pose proof (first_cr_lt _ _ Ej) as Hlt. rewrite lenN_app in Hlt. lia. }
      destruct (utf8_valid w); [|reflexivity]. unfold parse_header.
      destruct w; [cbn in Hw; lia|]. cbn [isnil]. replace (MAX_LENGTH <? lenN (n :: w)) with true by lia. reflexivity.
    + rewrite lenN_app. replace (MAX_LENGTH <=? lenN x + lenN t) with true by lia. reflexivity.
Qed.

(* ---- C04 for v1 ---- *)
Lemma parse_header_ok h hd : parse_header h = Ok hd -> text hd = h /\ is_suffix CRLF h = true.
Proof.
  unfold parse_header. destruct (isnil h); [discriminate|]. destruct (MAX_LENGTH <? lenN h); [discriminate|].
  destruct (splitn PARTS h) as [|prefix rest]; [discriminate|].
  destruct (_ && _ && _ && _); [discriminate|]. destruct (negb (beq prefix PROXY)); [discriminate|].
  destruct rest as [|proto fields]; [discriminate|].
  assert (F : forall a, finish1 h (terminated h) fields a = Ok hd -> text hd = h /\ is_suffix CRLF h = true).
  { intros a. unfold finish1. destruct (match nth_error fields 4 with Some [] => None | o => o end) as [nl|].
    - destruct (beq nl [LF] && is_suffix CRLF h) eqn:E; [|discriminate]. intros H. injection H as <-.
      apply andb_prop in E as [_ E]. now split.
    - destruct (terminated h); discriminate. }
  destruct (beq proto TCP4).
  { destruct (parse_addresses1 _ _ _) as [[[[? ?] ?] ?]|e]; [apply F|discriminate]. }
  destruct (beq proto TCP6).
  { destruct (parse_addresses1 _ _ _) as [[[[? ?] ?] ?]|e]; [apply F|discriminate]. }
  destruct (beq proto UNKNOWN).
  { destruct (is_suffix CRLF h) eqn:E; [|destruct (terminated h); discriminate]. intros H. injection H as <-. now split. }
  destruct (isnil proto && isnil fields); [discriminate|]. destruct (_ && _ && _ && _); discriminate.
Qed.

(* the shape of any accepted input: the first CR is followed by LF, the header is the input through that LF *)
Lemma p1_ok_window x hd : p1 x = Ok hd ->
  exists i, first_cr x = Some i /\ i + 2 <= lenN x /\ text hd = takeN (i + 2) x
            /\ is_suffix CRLF (text hd) = true /\ utf8_valid (text hd) = true
            /\ parse_header (text hd) = Ok hd.
Proof.
  unfold p1, window_len. destruct (first_cr x) as [i|] eqn:Ei.
  - set (w := takeN (N.min (i + 2) (lenN x)) x). destruct (utf8_valid w) eqn:Eu; [|discriminate].
    destruct (parse_header w) as [h'|e] eqn:Ep; [|discriminate]. cbn [map_err]. intros H. injection H as <-.
    destruct (parse_header_ok w h' Ep) as [Et Es]. exists i.
    pose proof (first_cr_lt _ _ Ei) as Hlt.
    assert (Hlen : i + 2 <= lenN x).
    { destruct (N.le_gt_cases (i + 2) (lenN x)) as [Hle|Hgt]; [exact Hle|exfalso].
      (* the window ends with the CR itself: it cannot end in CR LF *)
      destruct (first_cr_some _ _ Ei) as (a & r & Ex & Ha & Hn).
      assert (r = []).
      { apply lenN_0. rewrite Ex, lenN_app, lenN_cons in Hgt, Hlt. lia. }
      subst r. assert (Ew : w = a ++ [CR]).
      { unfold w. rewrite takeN_all; [exact Ex|]. lia. }
      rewrite Ew in Es. apply is_suffix_app in Es as [q Hq].
      assert (Hrev : rev (a ++ [CR]) = rev (q ++ CRLF)) by now rewrite Hq.
      rewrite !rev_app_distr in Hrev. cbn in Hrev. injection Hrev as Hbad _. discriminate. }
    repeat split; try assumption.
    + rewrite Et. unfold w. f_equal. lia.
    + now rewrite Et.
    + now rewrite Et.
    + now rewrite Et.
  - destruct (MAX_LENGTH <=? lenN x); [discriminate|].
    destruct (utf8_valid (takeN (lenN x) x)); [|discriminate].
    destruct (parse_header _) as [h'|e] eqn:Ep; [|discriminate]. cbn [map_err]. intros H. injection H as <-.
    exfalso. destruct (parse_header_ok _ _ Ep) as [_ Es]. rewrite takeN_all in Es by lia.
    apply is_suffix_app in Es as [q ->]. apply first_cr_none in Ei.
    rewrite no_cr_app in Ei. apply andb_prop in Ei as [_ Ei]. cbn in Ei. discriminate.
Qed.

Theorem p1_trailer_independent x hd t : p1 x = Ok hd ->
  p1 (x ++ t) = Ok hd /\ p1 (text hd) = Ok hd /\ text hd = takeN (lenN (text hd)) x
  /\ is_suffix CRLF (text hd) = true.
Proof.
  intros H. destruct (p1_ok_window x hd H) as (i & Ei & Hl & Et & Es & Eu & Ep).
  assert (Hlen : lenN (text hd) = i + 2) by (rewrite Et, lenN_takeN; lia).
  repeat split.
  - rewrite p1_stable_cr with (i := i); [exact H|exact Ei|lia].
  - (* the header on its own: it is a prefix of x, and x = header ++ rest *)
    rewrite <- (takeN_dropN (i + 2) x) in H. rewrite <- Et in H.
    assert (Ei' : first_cr (text hd) = Some i).
    { destruct (first_cr_some _ _ Ei) as (a & r & Ex & Ha & Hn). rewrite Et, Ex.
      rewrite takeN_app_ge by lia. replace (i + 2 - lenN a) with 2 by lia. rewrite takeN_cons by lia.
      rewrite first_cr_app by assumption. now f_equal. }
    rewrite p1_stable_cr with (i := i) in H; [exact H|exact Ei'|lia].
  - rewrite Hlen. exact Et.
  - exact Es.
Qed.
