(* C05, last clause: a receiver that re-parses its growing buffer after each read ends with the same
   header as a one-shot parse, however the stream is split into reads. *)
From PPP Require Import Base.Bytes Std.Utf8 Std.Text Model.V1 Model.V2 Model.Auto
  Spec.V2Wire Proofs.BytesFacts Proofs.V2Views Proofs.V1Text Proofs.V1Final Proofs.V1Props Proofs.AutoProps Proofs.V1Prefix.

(* the receive loop of examples/server.rs: append the next read, parse, stop at the first complete result *)
Fixpoint receive {R} (parse : bytes -> R) (incomplete : R -> bool) (buf : bytes) (reads : list bytes) : option R :=
  match reads with
  | [] => None
  | c :: r => let buf' := buf ++ c in
              let res := parse buf' in
              if incomplete res then receive parse incomplete buf' r else Some res
  end.

(* generic: below H bytes every prefix of x is incomplete; from H bytes on every prefix gives [final] *)
Lemma receive_generic {R} (parse : bytes -> R) (incomplete : R -> bool) (x : bytes) (final : R) (H : N) :
  (forall k, k < H -> incomplete (parse (takeN k x)) = true) ->
  (forall k, H <= k -> k <= lenN x -> parse (takeN k x) = final) ->
  incomplete final = false -> H <= lenN x ->
  forall reads buf, buf ++ concat reads = x -> lenN buf < H \/ reads <> [] -> (lenN buf < H) ->
  receive parse incomplete buf reads = Some final.
Proof.
  intros Hinc Hfin Hc HH. induction reads as [|c r IH]; intros buf Ex Hne Hb.
  - cbn [concat] in Ex. rewrite app_nil_r in Ex. subst buf. lia.
  - cbn [receive concat] in *.
    assert (Ebuf : buf ++ c = takeN (lenN (buf ++ c)) x).
    { rewrite <- Ex, app_assoc. symmetry. now apply takeN_app_exact. }
    assert (Hle : lenN (buf ++ c) <= lenN x).
    { rewrite <- Ex, app_assoc, (lenN_app (buf ++ c)). lia. }
    rewrite Ebuf. destruct (lenN (buf ++ c) <? H) eqn:E.
    + rewrite Hinc by lia. rewrite <- Ebuf. apply IH; [now rewrite <- app_assoc|left; lia|lia].
    + rewrite Hfin by lia. now rewrite Hc.
Qed.

Theorem receive_v2 x h reads : wf_bytes x = true -> p2 x = Ok h -> concat reads = x ->
  receive p2 is_incomplete2 [] reads = Some (Ok h).
Proof.
  intros Hwf Hp Ex.
  destruct (p2_trailer_independent x h [] ltac:(now rewrite app_nil_r) Hp) as (_ & Hself & _ & Hpre).
  assert (Hlen : 0 < lenN (hbytes h)).
  { destruct (p2_ok_form x h Hwf Hp) as (vc & fp & hi & lo & rest & cmd & fam & proto & _ & _ & _ & _ & _ & _ & _ & _ & _ & _ & _ & _ & ->).
    cbn [hbytes]. rewrite lenN_app. cbn. lia. }
  assert (Hle : lenN (hbytes h) <= lenN x).
  { rewrite Hpre at 1. rewrite lenN_takeN. lia. }
  apply (receive_generic p2 is_incomplete2 x (Ok h) (lenN (hbytes h))); try assumption; try reflexivity.
  - intros k Hk. now apply (p2_prefix_flag x h k).
  - intros k H1 H2.
    (* takeN k x = header ++ something *)
    assert (E : takeN k x = hbytes h ++ dropN (lenN (hbytes h)) (takeN k x)).
    { rewrite <- (takeN_dropN (lenN (hbytes h)) (takeN k x)) at 1. f_equal.
      rewrite takeN_takeN. rewrite Hpre at 2. f_equal. lia. }
    rewrite E. apply (p2_trailer_independent (hbytes h) h); [|exact Hself].
    rewrite <- E. now apply wf_bytes_takeN.
  - right. intros ->. cbn in Ex. subst x. cbn in Hle. lia.
Qed.

Theorem receive_v1 x hd reads : p1 x = Ok hd -> ascii (text hd) = true -> concat reads = x ->
  receive p1 is_incomplete1 [] reads = Some (Ok hd).
Proof.
  intros Hp Ha Ex.
  destruct (p1_trailer_independent x hd [] Hp) as (_ & Hself & Hpre & Hsuf).
  assert (Hlen : 0 < lenN (text hd)).
  { apply is_suffix_app in Hsuf as [r ->]. rewrite lenN_app. cbn. lia. }
  assert (Hle : lenN (text hd) <= lenN x).
  { rewrite Hpre at 1. rewrite lenN_takeN. lia. }
  apply (receive_generic p1 is_incomplete1 x (Ok hd) (lenN (text hd))); try assumption; try reflexivity.
  - intros k Hk. now destruct (p1_prefix_incomplete x hd k Hp Ha Hk) as (H1 & _).
  - intros k H1 H2.
    assert (E : takeN k x = text hd ++ dropN (lenN (text hd)) (takeN k x)).
    { rewrite <- (takeN_dropN (lenN (text hd)) (takeN k x)) at 1. f_equal.
      rewrite takeN_takeN. rewrite Hpre at 2. f_equal. lia. }
    rewrite E. now destruct (p1_trailer_independent (text hd) hd (dropN (lenN (text hd)) (takeN k x)) Hself) as (H & _).
  - right. intros ->. cbn in Ex. subst x. cbn in Hle. lia.
Qed.

(* the same loop over the auto-detecting entry point (what examples/server.rs actually calls) *)
Lemma pa_of_v1_ok y hd : p1 y = Ok hd -> pa y = RV1 (Ok hd).
Proof.
  intros H. destruct (p1_ok_starts_P y hd H) as [r E]. rewrite pa_spec, (p2_text y r E). cbn. now rewrite H.
Qed.

Lemma pa_of_v2_ok y h : p2 y = Ok h -> pa y = RV2 (Ok h).
Proof. intros H. rewrite pa_spec, H. reflexivity. Qed.

Theorem receive_auto_v2 x h reads : wf_bytes x = true -> p2 x = Ok h -> concat reads = x ->
  receive pa is_incomplete_a [] reads = Some (RV2 (Ok h)).
Proof.
  intros Hwf Hp Ex.
  destruct (p2_trailer_independent x h [] ltac:(now rewrite app_nil_r) Hp) as (_ & Hself & _ & Hpre).
  assert (Hlen : 0 < lenN (hbytes h)).
  { destruct (p2_ok_form x h Hwf Hp) as (vc & fp & hi & lo & rest & cmd & fam & proto & _ & _ & _ & _ & _ & _ & _ & _ & _ & _ & _ & _ & ->).
    cbn [hbytes]. rewrite lenN_app. cbn. lia. }
  assert (Hle : lenN (hbytes h) <= lenN x).
  { rewrite Hpre at 1. rewrite lenN_takeN. lia. }
  apply (receive_generic pa is_incomplete_a x (RV2 (Ok h)) (lenN (hbytes h))); try assumption; try reflexivity.
  - intros k Hk. now apply (pa_prefix_incomplete_v2 x h k).
  - intros k H1 H2. apply pa_of_v2_ok.
    assert (E : takeN k x = hbytes h ++ dropN (lenN (hbytes h)) (takeN k x)).
    { rewrite <- (takeN_dropN (lenN (hbytes h)) (takeN k x)) at 1. f_equal.
      rewrite takeN_takeN. rewrite Hpre at 2. f_equal. lia. }
    rewrite E. apply (p2_trailer_independent (hbytes h) h); [|exact Hself].
    rewrite <- E. now apply wf_bytes_takeN.
  - right. intros ->. cbn in Ex. subst x. cbn in Hle. lia.
Qed.

Theorem receive_auto_v1 x hd reads : p1 x = Ok hd -> ascii (text hd) = true -> concat reads = x ->
  receive pa is_incomplete_a [] reads = Some (RV1 (Ok hd)).
Proof.
  intros Hp Ha Ex.
  destruct (p1_trailer_independent x hd [] Hp) as (_ & Hself & Hpre & Hsuf).
  assert (Hlen : 0 < lenN (text hd)).
  { apply is_suffix_app in Hsuf as [r ->]. rewrite lenN_app. cbn. lia. }
  assert (Hle : lenN (text hd) <= lenN x).
  { rewrite Hpre at 1. rewrite lenN_takeN. lia. }
  apply (receive_generic pa is_incomplete_a x (RV1 (Ok hd)) (lenN (text hd))); try assumption; try reflexivity.
  - intros k Hk. now destruct (p1_prefix_incomplete x hd k Hp Ha Hk) as (_ & _ & H3).
  - intros k H1 H2. apply pa_of_v1_ok.
    assert (E : takeN k x = text hd ++ dropN (lenN (text hd)) (takeN k x)).
    { rewrite <- (takeN_dropN (lenN (text hd)) (takeN k x)) at 1. f_equal.
      rewrite takeN_takeN. rewrite Hpre at 2. f_equal. lia. }
    rewrite E. now destruct (p1_trailer_independent (text hd) hd (dropN (lenN (text hd)) (takeN k x)) Hself) as (H & _).
  - right. intros ->. cbn in Ex. subst x. cbn in Hle. lia.
Qed.
