(* C11 (and the TLV part of C03): the iterator model performs the standard walk and then stops. *)
From PPP Require Import Base.Bytes Model.V2 Spec.TlvWalk Proofs.BytesFacts.

(* how the implementation reports each outcome of the walk; [total] = length of the whole section *)
Definition item_abs (total : N) (i : sitem) : tlv_item :=
  match i with
  | SOk k v => TOk k v
  | SOverrun k n => TErr (InvalidTLV k n)
  | SShort => TErr (Leftovers total)
  end.

Lemma tlv_next_end s off : lenN s <= off -> tlv_next s off = (None, off).
Proof. intros H. unfold tlv_next. destruct (lenN s <=? off) eqn:E; [reflexivity|lia]. Qed.

Lemma collect_from_end f s : collect_from (S f) s (lenN s) = Some [].
Proof. cbn [collect_from]. rewrite tlv_next_end by lia. reflexivity. Qed.

Lemma list3 (l : bytes) : 3 <= lenN l -> exists k h lo r, l = k :: h :: lo :: r.
Proof.
  destruct l as [|k [|h [|lo r]]]; rewrite ?lenN_cons, ?lenN_nil; try lia. intros _. now exists k, h, lo, r.
Qed.

Lemma collect_from_walk fuel : forall s off,
  off <= lenN s -> (length (dropN off s) < fuel)%nat ->
  exists items, Walk (dropN off s) items /\ collect_from fuel s off = Some (map (item_abs (lenN s)) items).
Proof.
  induction fuel as [|f IH]; intros s off Hoff Hfuel; [lia|].
  cbn [collect_from]. unfold tlv_next.
  destruct (lenN s <=? off) eqn:Eend.
  { exists []. rewrite dropN_all by lia. split; [constructor|reflexivity]. }
  remember (dropN off s) as rem eqn:Hrem.
  assert (Hlen : lenN rem = lenN s - off) by (subst rem; apply lenN_dropN).
  assert (Hf : (1 <= f)%nat).
  { rewrite lenN_length in Hlen. assert (lenN s - off > 0) by lia. lia. }
  destruct f as [|f']; [lia|].
  unfold MINIMUM_TLV_LENGTH.
  destruct (lenN rem <? 3) eqn:E3.
  { exists [SShort]. split.
    - apply WalkShort; [|lia]. intros ->. cbn in Hlen. lia.
    - rewrite collect_from_end. reflexivity. }
  destruct (list3 rem) as (k & h & lo & r & Er); [lia|].
  rewrite Er. change (nthN 0 (k :: h :: lo :: r)) with k.
  change (nthN 1 (k :: h :: lo :: r)) with h. change (nthN 2 (k :: h :: lo :: r)) with lo.
  unfold from_be16. set (n := 256 * h + lo).
  assert (Hr : lenN rem = 3 + lenN r) by (rewrite Er, !lenN_cons; lia).
  rewrite <- Er.
  destruct (lenN rem <? 3 + n) eqn:En.
  { exists [SOverrun k n]. split.
    - rewrite Er. apply WalkOverrun. fold n. lia.
    - rewrite collect_from_end. reflexivity. }
  (* a complete item *)
  assert (Hsl : sliceN 3 (3 + n) rem = takeN n r).
  { unfold sliceN. replace (3 + n - 3) with n by lia. rewrite Er, dropN3. reflexivity. }
  rewrite Hsl.
  assert (Hnext : dropN (off + (3 + n)) s = dropN n r).
  { rewrite <- dropN_dropN, <- Hrem, Er. rewrite <- dropN_dropN, dropN3. reflexivity. }
  destruct (IH s (off + (3 + n))) as (items & Hw & Hc).
  - lia.
  - rewrite Hnext. pose proof (lenN_dropN n r) as Hd. rewrite !lenN_length in *. lia.
  - exists (SOk k (takeN n r) :: items). split.
    + rewrite Er. rewrite <- (takeN_dropN n r) at 1. apply WalkItem.
      * rewrite lenN_takeN. fold n. lia.
      * now rewrite <- Hnext.
    + rewrite Hc. reflexivity.
Qed.

Theorem collect_walk s :
  exists items, Walk s items /\ collect s = Some (map (item_abs (lenN s)) items).
Proof.
  destruct (collect_from_walk (S (length s)) s 0) as (items & Hw & Hc).
  - lia.
  - rewrite dropN_0. lia.
  - rewrite dropN_0 in Hw. now exists items.
Qed.

(* the walk is a function of the section *)
Lemma app_inv_len {A} (a b c d : list A) : a ++ b = c ++ d -> lenN a = lenN c -> a = c /\ b = d.
Proof.
  revert c; induction a as [|x a IH]; intros [|y c] H L; rewrite ?lenN_cons, ?lenN_nil in L; try lia.
  - now split.
  - cbn in H. injection H as -> H. destruct (IH c H) as [-> ->]; [lia|]. now split.
Qed.

Theorem Walk_functional s a b : Walk s a -> Walk s b -> a = b.
Proof.
  intros Ha; revert b; induction Ha as [|s Hs Hl|k h l r Hl|k h l v r items Hv Hw IH]; intros b Hb.
  - inversion Hb; subst; try reflexivity. congruence.
  - inversion Hb; subst; try reflexivity; try congruence;
      rewrite !lenN_cons in Hl; lia.
  - inversion Hb; subst; try reflexivity.
    + rewrite !lenN_cons in *; lia.
    + rewrite lenN_app in Hl. lia.
  - inversion Hb; subst.
    + rewrite !lenN_cons in *; lia.
    + rewrite lenN_app in *. lia.
    + match goal with H : _ ++ _ = _ ++ _ |- _ => apply app_inv_len in H; [destruct H; subst|lia] end.
      f_equal. now apply IH.
Qed.

(* the values tile the section from its start; an error, if any, is the last item *)
Theorem Walk_tile s items : wf_bytes s = true -> Walk s items ->
  exists rest, s = concat (map enc_sitem items) ++ rest /\ (forallb is_sok items = true -> rest = []).
Proof.
  intros Hwf Hw; induction Hw as [|s Hs Hl|k h l r Hl|k h l v r items Hv Hw IH].
  - exists []. now split.
  - exists s. split; [reflexivity|discriminate].
  - exists (k :: h :: l :: r). split; [reflexivity|discriminate].
  - rewrite !wf_bytes_cons, wf_bytes_app in Hwf.
    apply andb_prop in Hwf as [_ Hwf]. apply andb_prop in Hwf as [_ Hwf].
    apply andb_prop in Hwf as [Hl Hwf]. apply andb_prop in Hwf as [_ Hwf].
    destruct (IH Hwf) as [rest [IH1 IH2]].
    exists rest. split.
    + cbn [map concat enc_sitem]. rewrite Hv.
      replace ((256 * h + l) / 256) with h by lia.
      replace ((256 * h + l) mod 256) with l by lia.
      cbn [app]. rewrite <- app_assoc. now rewrite <- IH1.
    + cbn [forallb is_sok andb]. exact IH2.
Qed.

Theorem Walk_error_last s items : Walk s items ->
  forall a i b, items = a ++ i :: b -> is_sok i = false -> b = [].
Proof.
  induction 1 as [|s Hs Hl|k h l r Hl|k h l v r items Hv Hw IH]; intros a i b E Hi.
  - destruct a; discriminate.
  - destruct a as [|? [|? ?]]; try discriminate. now injection E as _ <-.
  - destruct a as [|? [|? ?]]; try discriminate. now injection E as _ <-.
  - destruct a as [|x a].
    + injection E as <- _. discriminate.
    + injection E as _ E. now apply (IH a i b).
Qed.

(* at most n/3 + 1 items (the iteration bound of C03) *)
Theorem Walk_bound s items : Walk s items -> N.of_nat (length items) <= lenN s / 3 + 1.
Proof.
  induction 1 as [|s Hs Hl|k h l r Hl|k h l v r items Hv Hw IH]; cbn [length].
  - lia.
  - lia.
  - lia.
  - rewrite !lenN_cons, lenN_app. lia.
Qed.

(* the executable walk (the direct oracle) computes the relation *)
Lemma walk_fuel_Walk fuel : forall s, (length s < fuel)%nat -> Walk s (walk_fuel fuel s).
Proof.
  induction fuel as [|f IH]; intros s H; [lia|].
  destruct s as [|k [|h [|l r]]]; cbn [walk_fuel].
  - constructor.
  - apply WalkShort; [discriminate|]. rewrite !lenN_cons, lenN_nil. lia.
  - apply WalkShort; [discriminate|]. rewrite !lenN_cons, lenN_nil. lia.
  - destruct (lenN r <? 256 * h + l) eqn:E.
    + apply WalkOverrun. lia.
    + rewrite <- (firstn_skipn (N.to_nat (256 * h + l)) r) at 1. apply WalkItem.
      * rewrite <- takeN_firstn, lenN_takeN. lia.
      * apply IH. rewrite skipn_length. cbn [length] in H. lia.
Qed.

Theorem walk_Walk s : Walk s (walk s).
Proof. apply walk_fuel_Walk. lia. Qed.

(* after the end, and after an error, next() keeps returning None *)
Theorem tlv_next_fused_none s off o off' : tlv_next s off = (o, off') -> o = None -> off' = off.
Proof.
  unfold tlv_next. destruct (lenN s <=? off); [intros H; injection H as <- <-; reflexivity|].
  repeat match goal with |- context [if ?c then _ else _] => destruct c end;
    intros H; injection H as <- <-; discriminate.
Qed.

Theorem tlv_next_fused_err s off e off' :
  tlv_next s off = (Some (TErr e), off') -> tlv_next s off' = (None, off').
Proof.
  unfold tlv_next at 1. destruct (lenN s <=? off); [discriminate|].
  repeat match goal with |- context [if ?c then _ else _] => destruct c end;
    intros H; try discriminate H; injection H as _ <-; apply tlv_next_end; lia.
Qed.

(* consequences stated on the model's own output *)
Theorem collect_total s : exists items, collect s = Some items.
Proof. destruct (collect_walk s) as (items & _ & H). eauto. Qed.

Theorem collect_bound s items : collect s = Some items -> N.of_nat (length items) <= lenN s / 3 + 1.
Proof.
  destruct (collect_walk s) as (w & Hw & Hc). rewrite Hc. intros H. injection H as <-.
  rewrite map_length. now apply Walk_bound.
Qed.
