(* Entry-point level theorems for v1: acceptance (C01, model side), blame (C12), views (C15),
   agreement of the entry points (C16). *)
From PPP Require Import Base.Bytes Std.Utf8 Std.Text Std.Num Std.Ip Model.V1
  Proofs.BytesFacts Proofs.StdUtf8 Proofs.V1Text Proofs.V1Final Proofs.V1Lines Proofs.V1Shape.

(* ---- p1 on an input whose first line is [a ++ [CR; b]] ---- *)
Lemma p1_line a b rest : no_cr a = true ->
  p1 (a ++ CR :: b :: rest) =
  if utf8_valid (a ++ [CR; b]) then map_err BParse (parse_header (a ++ [CR; b])) else Err BInvalidUtf8.
Proof.
  intros Hn. unfold p1, window_len. rewrite first_cr_app by assumption.
  replace (N.min (lenN a + 2) (lenN (a ++ CR :: b :: rest))) with (lenN a + 2)
    by (rewrite lenN_app, !lenN_cons; lia).
  replace (a ++ CR :: b :: rest) with ((a ++ [CR; b]) ++ rest) by (rewrite <- app_assoc; reflexivity).
  rewrite takeN_app_exact by (rewrite lenN_app, !lenN_cons, lenN_nil; lia). reflexivity.
Qed.

Lemma p1s_line a b rest : no_cr a = true -> utf8_valid (a ++ CR :: b :: rest) = true ->
  p1s (a ++ CR :: b :: rest) =
  if utf8_valid (a ++ [CR; b]) then parse_header (a ++ [CR; b]) else Err InvalidSuffix.
Proof.
  intros Hn Hu. unfold p1s, window_len. rewrite first_cr_app by assumption.
  replace (N.min (lenN a + 2) (lenN (a ++ CR :: b :: rest))) with (lenN a + 2)
    by (rewrite lenN_app, !lenN_cons; lia).
  unfold str_get_to.
  assert (Hle : lenN a + 2 <= lenN (a ++ CR :: b :: rest)) by (rewrite lenN_app, !lenN_cons; lia).
  pose proof (utf8_prefix_boundary _ _ Hu Hle) as B.
  replace (a ++ CR :: b :: rest) with ((a ++ [CR; b]) ++ rest) in * by (rewrite <- app_assoc; reflexivity).
  rewrite takeN_app_exact in * by (rewrite lenN_app, !lenN_cons, lenN_nil; lia).
  destruct (is_char_boundary _ _) eqn:Eb.
  - replace (utf8_valid (a ++ [CR; b])) with true by (symmetry; now apply B). reflexivity.
  - destruct (utf8_valid (a ++ [CR; b])) eqn:Eu; [|reflexivity]. destruct B as [B _]. specialize (B eq_refl). discriminate.
Qed.

(* ---- C01, model side: acceptance <-> the input starts with a line of one of the three shapes ---- *)
Definition starts_with_line (x : bytes) (hd : header1) : Prop :=
  exists a rest, x = a ++ CRLF ++ rest /\ no_cr a = true /\ lenN (a ++ CRLF) <= MAX_LENGTH
    /\ utf8_valid (a ++ CRLF) = true /\ shape (a ++ CRLF) (addr hd) /\ text hd = a ++ CRLF.

Lemma shape_accepts l ad : shape l ad -> lenN l <= MAX_LENGTH -> parse_header l = Ok {| text := l; addr := ad |}.
Proof.
  intros S Hl. destruct S as [sa da sp dp a c n m Hn V1 V2 V3 V4|sa da sp dp a c n m Hn V1 V2 V3 V4|rest Hr Hn];
    change CRLF with [CR; LF] in *.
  - assert (Hall : all_nosep [PROXY; TCP4; sa; da; sp; dp] = true) by exact Hn.
    rewrite (parse_header_six PROXY TCP4 sa da sp dp LF Hall Hl).
    cbn [beq PROXY TCP4 negb]. rewrite !N.eqb_refl. cbn [andb negb]. unfold tcp_result.
    assert (V : validate parse_ipv4 sa da sp dp = Ok (a, c, n, m)) by (apply validate_ok; tauto).
    rewrite V. reflexivity.
  - assert (Hall : all_nosep [PROXY; TCP6; sa; da; sp; dp] = true) by exact Hn.
    rewrite (parse_header_six PROXY TCP6 sa da sp dp LF Hall Hl).
    cbn [beq PROXY TCP4 TCP6 negb]. rewrite !N.eqb_refl. cbn [andb negb].
    change (80 =? 80) with true. change (52 =? 54) with false. cbn [andb]. unfold tcp_result.
    assert (V : validate parse_ipv6 sa da sp dp = Ok (a, c, n, m)) by (apply validate_ok; tauto).
    rewrite V. reflexivity.
  - now rewrite (parse_header_unknown rest LF Hr Hn Hl).
Qed.

Lemma shape_line l ad : shape l ad -> exists a, l = a ++ CRLF.
Proof. intros S. destruct S; [eexists; reflexivity|eexists; reflexivity|]. exists (unknown_head ++ rest). now rewrite <- app_assoc. Qed.

Theorem p1_accepts_iff x hd : p1 x = Ok hd <-> starts_with_line x hd.
Proof.
  split.
  - intros H. destruct (p1_ok_window x hd H) as (i & Ei & Hl & Et & Es & Eu & Ep).
    destruct (first_cr_some x i Ei) as (a & r & -> & Ha & Hn).
    destruct r as [|b rest]; [rewrite lenN_app, lenN_cons, lenN_nil in Hl; lia|].
    assert (Ew : takeN (i + 2) (a ++ CR :: b :: rest) = a ++ [CR; b]).
    { replace (a ++ CR :: b :: rest) with ((a ++ [CR; b]) ++ rest) by (rewrite <- app_assoc; reflexivity).
      apply takeN_app_exact. rewrite lenN_app, !lenN_cons, lenN_nil. lia. }
    rewrite Ew in Et. rewrite Et in Es. rewrite is_suffix_last2, N.eqb_refl in Es. cbn [andb] in Es.
    apply N.eqb_eq in Es. subst b. rewrite Et in Ep, Eu.
    destruct (parse_header_shape a hd Hn Ep) as [Sh Etx].
    exists a, rest. repeat split; try assumption.
    unfold parse_header in Ep. destruct (isnil _); [discriminate|].
    destruct (MAX_LENGTH <? lenN (a ++ [CR; LF])) eqn:E; [discriminate|]. unfold CRLF. lia.
  - intros (a & rest & -> & Hn & Hl & Hu & Sh & Et). cbn [CRLF app].
    rewrite p1_line by assumption. fold CRLF. rewrite Hu, (shape_accepts _ _ Sh Hl). cbn [map_err].
    f_equal. destruct hd as [t ad]. cbn [text addr] in *. now subst t.
Qed.

(* ---- C12 for v1: a single malformed element of a complete TCP line ---- *)
(* all six fields separator-free, the line (with whatever follows the CR) at most 107 bytes *)
Definition blame (parse : bytes -> option bytes) (kw pr sa da sp dp : bytes) (b : N) : result header1 err1 :=
  parse_header (six kw pr sa da sp dp ++ [CR; b]).

Theorem blame_keyword kw pr sa da sp dp b :
  all_nosep [kw; pr; sa; da; sp; dp] = true -> lenN (six kw pr sa da sp dp ++ [CR; b]) <= MAX_LENGTH ->
  kw <> PROXY -> parse_header (six kw pr sa da sp dp ++ [CR; b]) = Err InvalidPrefix.
Proof.
  intros Hn Hl Hk. rewrite (parse_header_six kw pr sa da sp dp b Hn Hl).
  apply beq_neq in Hk. now rewrite Hk.
Qed.

Theorem blame_protocol pr sa da sp dp b :
  all_nosep [PROXY; pr; sa; da; sp; dp] = true -> lenN (six PROXY pr sa da sp dp ++ [CR; b]) <= MAX_LENGTH ->
  pr <> TCP4 -> pr <> TCP6 -> pr <> UNKNOWN ->
  parse_header (six PROXY pr sa da sp dp ++ [CR; b]) = Err InvalidProtocol.
Proof.
  intros Hn Hl H4 H6 HU. rewrite (parse_header_six PROXY pr sa da sp dp b Hn Hl).
  apply beq_neq in H4, H6, HU. now rewrite beq_refl, H4, H6, HU.
Qed.

(* the two TCP protocols, uniformly *)
Definition tcp_kind (P : bytes) (parse : bytes -> option bytes) : Prop :=
  (P = TCP4 /\ parse = parse_ipv4) \/ (P = TCP6 /\ parse = parse_ipv6).

Lemma parse_header_tcp P parse sa da sp dp b : tcp_kind P parse ->
  all_nosep [PROXY; P; sa; da; sp; dp] = true -> lenN (six PROXY P sa da sp dp ++ [CR; b]) <= MAX_LENGTH ->
  exists mk, parse_header (six PROXY P sa da sp dp ++ [CR; b])
             = tcp_result parse mk (six PROXY P sa da sp dp ++ [CR; b]) sa da sp dp b.
Proof.
  intros [[-> ->]|[-> ->]] Hn Hl; rewrite (parse_header_six _ _ sa da sp dp b Hn Hl).
  - exists Tcp4. reflexivity.
  - exists Tcp6. reflexivity.
Qed.

Theorem blame_source_address P parse sa da sp dp b : tcp_kind P parse ->
  all_nosep [PROXY; P; sa; da; sp; dp] = true -> lenN (six PROXY P sa da sp dp ++ [CR; b]) <= MAX_LENGTH ->
  parse sa = None -> parse_header (six PROXY P sa da sp dp ++ [CR; b]) = Err InvalidSourceAddress.
Proof.
  intros K Hn Hl Hb. destruct (parse_header_tcp P parse sa da sp dp b K Hn Hl) as [mk ->].
  unfold tcp_result, validate. now rewrite Hb.
Qed.

Theorem blame_destination_address P parse sa da sp dp b a : tcp_kind P parse ->
  all_nosep [PROXY; P; sa; da; sp; dp] = true -> lenN (six PROXY P sa da sp dp ++ [CR; b]) <= MAX_LENGTH ->
  parse sa = Some a -> parse da = None ->
  parse_header (six PROXY P sa da sp dp ++ [CR; b]) = Err InvalidDestinationAddress.
Proof.
  intros K Hn Hl Ha Hb. destruct (parse_header_tcp P parse sa da sp dp b K Hn Hl) as [mk ->].
  unfold tcp_result, validate. now rewrite Ha, Hb.
Qed.

Theorem blame_source_port P parse sa da sp dp b a c : tcp_kind P parse ->
  all_nosep [PROXY; P; sa; da; sp; dp] = true -> lenN (six PROXY P sa da sp dp ++ [CR; b]) <= MAX_LENGTH ->
  parse sa = Some a -> parse da = Some c -> port_value sp = None ->
  exists by_crate, parse_header (six PROXY P sa da sp dp ++ [CR; b]) = Err (InvalidSourcePort by_crate).
Proof.
  intros K Hn Hl Ha Hc Hb. destruct (parse_header_tcp P parse sa da sp dp b K Hn Hl) as [mk ->].
  unfold tcp_result, validate. rewrite Ha, Hc, parse_port_value, Hb. eauto.
Qed.

Theorem blame_destination_port P parse sa da sp dp b a c n : tcp_kind P parse ->
  all_nosep [PROXY; P; sa; da; sp; dp] = true -> lenN (six PROXY P sa da sp dp ++ [CR; b]) <= MAX_LENGTH ->
  parse sa = Some a -> parse da = Some c -> port_value sp = Some n -> port_value dp = None ->
  exists by_crate, parse_header (six PROXY P sa da sp dp ++ [CR; b]) = Err (InvalidDestinationPort by_crate).
Proof.
  intros K Hn Hl Ha Hc Hs Hb. destruct (parse_header_tcp P parse sa da sp dp b K Hn Hl) as [mk ->].
  unfold tcp_result, validate. rewrite Ha, Hc, !parse_port_value, Hs, Hb. eauto.
Qed.

Theorem blame_suffix_tcp P parse sa da sp dp b a c n m : tcp_kind P parse ->
  all_nosep [PROXY; P; sa; da; sp; dp] = true -> lenN (six PROXY P sa da sp dp ++ [CR; b]) <= MAX_LENGTH ->
  parse sa = Some a -> parse da = Some c -> port_value sp = Some n -> port_value dp = Some m -> b <> LF ->
  parse_header (six PROXY P sa da sp dp ++ [CR; b]) = Err InvalidSuffix.
Proof.
  intros K Hn Hl Ha Hc Hs Hd Hb. destruct (parse_header_tcp P parse sa da sp dp b K Hn Hl) as [mk ->].
  unfold tcp_result. assert (V : validate parse sa da sp dp = Ok (a, c, n, m)) by (apply validate_ok; tauto).
  rewrite V. apply N.eqb_neq in Hb. now rewrite Hb.
Qed.

Theorem blame_suffix_unknown rest b :
  (rest = [] \/ exists t, rest = SP :: t) -> no_cr rest = true ->
  lenN (unknown_head ++ rest ++ [CR; b]) <= MAX_LENGTH -> b <> LF ->
  parse_header (unknown_head ++ rest ++ [CR; b]) = Err InvalidSuffix.
Proof.
  intros Hr Hn Hl Hb. rewrite (parse_header_unknown rest b Hr Hn Hl). apply N.eqb_neq in Hb. now rewrite Hb.
Qed.

(* the byte-entry point passes these verdicts through (the line is ASCII or at least valid UTF-8) *)
Theorem p1_blame a b rest e : no_cr a = true -> utf8_valid (a ++ [CR; b]) = true ->
  parse_header (a ++ [CR; b]) = Err e ->
  p1 (a ++ CR :: b :: rest) = Err (BParse e) /\ is_incomplete1 (p1 (a ++ CR :: b :: rest)) = err1_is_incomplete e.
Proof. intros Hn Hu He. rewrite p1_line, Hu, He by assumption. split; reflexivity. Qed.

Theorem p1_too_long a b rest : no_cr a = true -> MAX_LENGTH < lenN a + 2 ->
  p1 (a ++ CR :: b :: rest) = Err (BParse HeaderTooLong) \/ p1 (a ++ CR :: b :: rest) = Err BInvalidUtf8.
Proof.
  intros Hn Hl. rewrite p1_line by assumption. destruct (utf8_valid _); [left|now right].
  unfold parse_header. destruct (a ++ [CR; b]) eqn:E; [destruct a; discriminate|]. cbn [isnil].
  rewrite <- E. replace (MAX_LENGTH <? lenN (a ++ [CR; b])) with true; [reflexivity|].
  rewrite lenN_app, !lenN_cons, lenN_nil. lia.
Qed.

Theorem p1_invalid_utf8 a b rest : no_cr a = true -> utf8_valid (a ++ [CR; b]) = false ->
  p1 (a ++ CR :: b :: rest) = Err BInvalidUtf8.
Proof. intros Hn Hu. now rewrite p1_line, Hu. Qed.

(* ---- C15: the views of an accepted header ---- *)
Lemma sliceN_mid {A} (a b c : list A) : sliceN (lenN a) (lenN a + lenN b) (a ++ b ++ c) = b.
Proof.
  unfold sliceN. rewrite dropN_app_exact by reflexivity. replace (lenN a + lenN b - lenN a) with (lenN b) by lia.
  now apply takeN_app_exact.
Qed.

Theorem views_of_shape l ad : shape l ad ->
  let h := {| text := l; addr := ad |} in
  h1_protocol h = addrs_protocol ad
  /\ exists sep, (sep = [] \/ sep = [SP])
     /\ l = PROXY ++ [SP] ++ h1_protocol h ++ sep ++ h1_addresses_str h ++ CRLF
     /\ (sep = [] -> h1_addresses_str h = [])
     /\ h1_to_string h = l.
Proof.
  intros S h. split; [reflexivity|].
  assert (Tcp : forall P sa da sp dp, lenN P = 4 -> h1_protocol h = P -> l = six PROXY P sa da sp dp ++ CRLF ->
     exists sep, (sep = [] \/ sep = [SP])
     /\ l = PROXY ++ [SP] ++ h1_protocol h ++ sep ++ h1_addresses_str h ++ CRLF
     /\ (sep = [] -> h1_addresses_str h = []) /\ h1_to_string h = l).
  { intros P sa da sp dp HP Hproto El. exists [SP]. split; [now right|].
    assert (Estr : h1_addresses_str h = join_sp [sa; da; sp; dp]).
    { unfold h1_addresses_str. rewrite Hproto. cbn [text h]. rewrite El. unfold six.
      change (join_sp [PROXY; P; sa; da; sp; dp]) with (PROXY ++ SP :: P ++ SP :: join_sp [sa; da; sp; dp]).
      replace ((PROXY ++ SP :: P ++ SP :: join_sp [sa; da; sp; dp]) ++ CRLF)
        with ((PROXY ++ SP :: P) ++ (SP :: join_sp [sa; da; sp; dp]) ++ CRLF)
        by (repeat (rewrite <- app_assoc; cbn [app]); reflexivity).
      replace (lenN PROXY + 1 + lenN P) with (lenN (PROXY ++ SP :: P)) by (rewrite lenN_app, lenN_cons; cbn; lia).
      replace (lenN ((PROXY ++ SP :: P) ++ (SP :: join_sp [sa; da; sp; dp]) ++ CRLF) - lenN CRLF)
        with (lenN (PROXY ++ SP :: P) + lenN (SP :: join_sp [sa; da; sp; dp]))
        by (rewrite !lenN_app; cbn; lia).
      rewrite sliceN_mid. cbn [is_prefix]. rewrite N.eqb_refl. cbn [andb]. apply dropN1. }
    rewrite Estr, Hproto. repeat split; try discriminate.
    rewrite El. unfold six. cbn [join_sp]. repeat (rewrite <- app_assoc; cbn [app]). reflexivity. }
  destruct S as [sa da sp dp a c n m Hn V1 V2 V3 V4|sa da sp dp a c n m Hn V1 V2 V3 V4|rest Hr Hn].
  - now apply (Tcp TCP4 sa da sp dp).
  - now apply (Tcp TCP6 sa da sp dp).
  - assert (Estr : h1_addresses_str h = match rest with [] => [] | _ :: t => t end /\ h1_protocol h = UNKNOWN).
    { split; [|reflexivity]. unfold h1_addresses_str. cbn [text h h1_protocol addr addrs_protocol].
      replace (lenN PROXY + 1 + lenN UNKNOWN) with (lenN unknown_head) by reflexivity.
      replace (lenN (unknown_head ++ rest ++ CRLF) - lenN CRLF) with (lenN unknown_head + lenN rest)
        by (rewrite !lenN_app; cbn; lia).
      rewrite sliceN_mid. destruct Hr as [->|[t ->]]; [reflexivity|].
      cbn [is_prefix]. rewrite N.eqb_refl. cbn [andb]. apply dropN1. }
    destruct Estr as [Estr Hproto]. rewrite Estr, Hproto.
    destruct Hr as [->|[t ->]].
    + exists []. split; [now left|]. split; [reflexivity|]. split; reflexivity.
    + exists [SP]. split; [now right|]. split; [|split; [discriminate|reflexivity]].
      unfold unknown_head. repeat (rewrite <- app_assoc; cbn [app]). reflexivity.
Qed.

Theorem p1_views x hd : p1 x = Ok hd ->
  h1_protocol hd = addrs_protocol (addr hd)
  /\ exists sep, (sep = [] \/ sep = [SP])
     /\ text hd = PROXY ++ [SP] ++ h1_protocol hd ++ sep ++ h1_addresses_str hd ++ CRLF
     /\ (sep = [] -> h1_addresses_str hd = [])
     /\ h1_to_string hd = text hd.
Proof.
  intros H. apply p1_accepts_iff in H as (a & rest & -> & Hn & Hl & Hu & Sh & Et).
  destruct hd as [t ad]. cbn [text addr] in *. subst t. exact (views_of_shape _ _ Sh).
Qed.

(* ---- C16: the entry points agree ---- *)
Definition window_end (s : bytes) : N := match window_len s with Ok n => n | Err _ => 0 end.

Lemma window_len_le s n : window_len s = Ok n -> n <= lenN s.
Proof. unfold window_len. destruct (first_cr s); [|destruct (MAX_LENGTH <=? lenN s)]; intros H; inversion H; lia. Qed.

Theorem entry_points_agree s : utf8_valid s = true -> is_char_boundary s (window_end s) = true ->
  p1 s = map_err BParse (p1s s)
  /\ header_from_str s = map_ok h1_to_owned (p1s s)
  /\ addresses_from_str s = map_ok addr (p1s s)
  /\ forall h, h1_to_owned h = h.
Proof.
  intros Hu Hb. repeat split; [|intros [t ad]; reflexivity].
  unfold p1, p1s, window_end in *. destruct (window_len s) as [n|e] eqn:Ew; [|reflexivity].
  unfold str_get_to. rewrite Hb.
  replace (utf8_valid (takeN n s)) with true; [reflexivity|].
  symmetry. apply utf8_prefix_boundary; [exact Hu| |exact Hb]. now apply window_len_le.
Qed.

Theorem entry_points_split s : utf8_valid s = true -> is_char_boundary s (window_end s) = false ->
  is_ok (p1 s) = false /\ is_ok (p1s s) = false /\ is_ok (header_from_str s) = false /\ is_ok (addresses_from_str s) = false.
Proof.
  intros Hu Hb. unfold header_from_str, addresses_from_str, p1, p1s, window_end in *.
  destruct (window_len s) as [n|e] eqn:Ew.
  - unfold str_get_to. rewrite Hb.
    destruct (utf8_valid (takeN n s)) eqn:Ev.
    + apply utf8_prefix_boundary in Ev; [congruence|exact Hu|now apply window_len_le].
    + repeat split.
  - cbn in Hb. discriminate.
Qed.
