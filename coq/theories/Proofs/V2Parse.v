(* Characterisation of the v2 parser model: on every input, [p2] is one of three closed forms.
   Used by C02, C04, C05, C12, C14, C17. *)
From PPP Require Import Base.Bytes Model.V2 Spec.V2Wire Proofs.BytesFacts.

(* ---- masks on bytes: finite sweep over the 256 byte values, lifted to all b < 256 ---- *)
Definition all_bytes : list N := map N.of_nat (seq 0 256).
Lemma in_all_bytes b : b < 256 -> In b all_bytes.
Proof.
  intros H. unfold all_bytes. rewrite <- (N2Nat.id b). apply in_map. apply in_seq. lia.
Qed.
Lemma mask_sweep :
  forallb (fun b => (N.land b 240 =? 16 * (b / 16)) && (N.land b 15 =? b mod 16)) all_bytes = true.
Proof. vm_compute. reflexivity. Qed.
Lemma land_240 b : b < 256 -> N.land b 240 = 16 * (b / 16).
Proof.
  intros H. pose proof mask_sweep as S. rewrite forallb_forall in S.
  specialize (S b (in_all_bytes b H)). apply andb_prop in S as [S _]. now apply N.eqb_eq in S.
Qed.
Lemma land_15 b : b < 256 -> N.land b 15 = b mod 16.
Proof.
  intros H. pose proof mask_sweep as S. rewrite forallb_forall in S.
  specialize (S b (in_all_bytes b H)). apply andb_prop in S as [_ S]. now apply N.eqb_eq in S.
Qed.

Lemma lenN_SIG : lenN SIG = 12. Proof. reflexivity. Qed.

(* ---- the closed form on inputs that carry the signature and the 4 control bytes ---- *)
Definition p2_ref (vc fp hi lo : N) (rest : bytes) : result header2 err2 :=
  if negb (vc / 16 =? 2) then Err (Version (16 * (vc / 16))) else
  match cmd_of_nibble (vc mod 16) with
  | None => Err (Command (vc mod 16))
  | Some cmd =>
    match fam_of_nibble (fp / 16) with
    | None => Err (AddressFamily (16 * (fp / 16)))
    | Some fam =>
      match proto_of_nibble (fp mod 16) with
      | None => Err (Protocol (fp mod 16))
      | Some proto =>
        let n := 256 * hi + lo in
        if n <? fam_size fam then Err (InvalidAddresses n (fam_size fam)) else
        if lenN rest <? n then Err (Partial (lenN rest) n) else
        Ok {| hbytes := SIG ++ vc :: fp :: hi :: lo :: takeN n rest;
              hcommand := cmd; hprotocol := proto; haddresses := decode_addrs fam rest |}
      end
    end
  end.

Lemma byte_length_fam_size fam : unwrap_or_default (byte_length fam) = fam_size fam.
Proof. destruct fam; reflexivity. Qed.

(* address decoding: the model's index-based decoding of the family-sized slice is the
   big-endian decoding of the payload *)
Ltac destr_list l n :=
  let rec go n := lazymatch n with
    | O => idtac
    | S ?k => let b := fresh "b" in destruct l as [|b l];
              [exfalso; repeat rewrite lenN_cons in *; rewrite ?lenN_nil in *; lia| go k]
    end in go n.

Lemma parse_addresses2_decode fam rest :
  fam_size fam <= lenN rest ->
  parse_addresses2 fam (takeN (fam_size fam) rest) = decode_addrs fam rest.
Proof.
  intros H. destruct fam; cbn [fam_size] in *.
  - reflexivity.
  - destr_list rest 12%nat. reflexivity.
  - destr_list rest 36%nat. reflexivity.
  - unfold parse_addresses2, decode_addrs. f_equal.
    + rewrite takeN_takeN. now rewrite takeN_firstn.
    + rewrite <- (takeN_dropN 108 rest) at 1.
      rewrite takeN_app_ge by (rewrite lenN_takeN; lia).
      rewrite lenN_takeN. replace (216 - N.min 108 (lenN rest)) with 108 by lia.
      rewrite dropN_app_exact by (rewrite lenN_takeN; lia).
      now rewrite takeN_firstn, dropN_skipn.
Qed.

Ltac nibble_cases q :=
  let C := fresh "C" in
  assert (C : q = 0 \/ q = 1 \/ q = 2 \/ q = 3 \/ q = 4 \/ q = 5 \/ q = 6 \/ q = 7 \/ q = 8 \/ q = 9
              \/ q = 10 \/ q = 11 \/ q = 12 \/ q = 13 \/ q = 14 \/ q = 15) by lia;
  repeat (destruct C as [C|C]; [rewrite C; reflexivity|]); rewrite C; reflexivity.

Lemma p2_on_shape vc fp hi lo rest :
  vc < 256 -> fp < 256 -> hi < 256 -> lo < 256 ->
  p2 (SIG ++ vc :: fp :: hi :: lo :: rest) = p2_ref vc fp hi lo rest.
Proof.
  intros Hvc Hfp Hhi Hlo. unfold p2, p2_ref.
  set (x := SIG ++ vc :: fp :: hi :: lo :: rest).
  assert (Hlen : lenN x = 16 + lenN rest) by (unfold x; rewrite lenN_app, !lenN_cons, lenN_SIG; lia).
  rewrite Hlen. unfold MINIMUM_LENGTH.
  destruct (16 + lenN rest <? 12) eqn:E1; [lia|].
  unfold x at 1. rewrite takeN_app_exact by reflexivity. rewrite beq_refl. cbn [negb].
  destruct (16 + lenN rest <? 16) eqn:E2; [lia|].
  assert (N12 : nthN 12 x = vc) by reflexivity.
  assert (N13 : nthN 13 x = fp) by reflexivity.
  assert (N14 : nthN 14 x = hi) by reflexivity.
  assert (N15 : nthN 15 x = lo) by reflexivity.
  rewrite N12, N13, N14, N15. rewrite !land_240, !land_15 by assumption.
  assert (Hv16 : vc / 16 < 16) by lia. assert (Hf16 : fp / 16 < 16) by lia.
  destruct (vc / 16 =? 2) eqn:Ev.
  2:{ replace (16 * (vc / 16) =? 32) with false by lia. reflexivity. }
  replace (16 * (vc / 16) =? 32) with true by lia. cbn [negb].
  assert (Hc : (if vc mod 16 =? 0 then Some Local else if vc mod 16 =? 1 then Some Proxy else None)
               = cmd_of_nibble (vc mod 16)).
  { assert (vc mod 16 < 16) by lia. nibble_cases (vc mod 16). }
  rewrite Hc. destruct (cmd_of_nibble (vc mod 16)) as [cmd|]; [|reflexivity].
  assert (Hfam : (if 16 * (fp / 16) =? 0 then Some FUnspec else if 16 * (fp / 16) =? 16 then Some FIPv4
                  else if 16 * (fp / 16) =? 32 then Some FIPv6 else if 16 * (fp / 16) =? 48 then Some FUnix else None)
                 = fam_of_nibble (fp / 16)).
  { nibble_cases (fp / 16). }
  rewrite Hfam. destruct (fam_of_nibble (fp / 16)) as [fam|]; [|reflexivity].
  assert (Hp : (if fp mod 16 =? 0 then Some PUnspec else if fp mod 16 =? 1 then Some PStream
                else if fp mod 16 =? 2 then Some PDatagram else None) = proto_of_nibble (fp mod 16)).
  { assert (fp mod 16 < 16) by lia. nibble_cases (fp mod 16). }
  rewrite Hp. destruct (proto_of_nibble (fp mod 16)) as [proto|]; [|reflexivity].
  unfold from_be16. rewrite byte_length_fam_size. cbv zeta.
  destruct (256 * hi + lo <? fam_size fam) eqn:En; [reflexivity|].
  replace (16 + lenN rest <? 16 + (256 * hi + lo)) with (lenN rest <? 256 * hi + lo) by lia.
  destruct (lenN rest <? 256 * hi + lo) eqn:Ep.
  { f_equal. f_equal. lia. }
  f_equal.
  assert (Hhdr : takeN (16 + (256 * hi + lo)) x = SIG ++ vc :: fp :: hi :: lo :: takeN (256 * hi + lo) rest).
  { unfold x. rewrite takeN_app_ge by (rewrite lenN_SIG; lia). f_equal. rewrite lenN_SIG.
    do 4 (rewrite takeN_cons by lia; f_equal). f_equal. lia. }
  rewrite Hhdr. f_equal.
  rewrite <- parse_addresses2_decode by lia. f_equal.
  unfold sliceN. replace (16 + fam_size fam - 16) with (fam_size fam) by lia.
  rewrite dropN_app_ge by (rewrite lenN_SIG; lia). rewrite lenN_SIG.
  replace (16 - 12) with 4 by lia.
  do 4 (rewrite dropN_cons by lia). replace (4 - 1 - 1 - 1 - 1) with 0 by lia. rewrite dropN_0.
  rewrite takeN_takeN. f_equal. lia.
Qed.

(* ---- inputs shorter than the fixed part, or without the signature ---- *)
Lemma p2_short x : lenN x < 16 ->
  p2 x = if is_prefix (takeN 12 x) SIG then Err (Incomplete (lenN x)) else Err Prefix.
Proof.
  intros H. unfold p2, MINIMUM_LENGTH.
  destruct (lenN x <? 12) eqn:E1.
  - rewrite takeN_all by lia. reflexivity.
  - replace (lenN x <? 16) with true by lia.
    destruct (beq (takeN 12 x) SIG) eqn:Eb; cbn [negb].
    + apply beq_eq in Eb. rewrite Eb. reflexivity.
    + destruct (is_prefix (takeN 12 x) SIG) eqn:Ep; [|reflexivity].
      exfalso. apply is_prefix_app in Ep as [r Hr]. apply beq_neq in Eb. apply Eb.
      assert (lenN r = 0).
      { apply (f_equal lenN) in Hr. rewrite lenN_app, lenN_takeN, lenN_SIG in Hr. lia. }
      apply lenN_0 in H0. subst r. now rewrite app_nil_r in Hr.
Qed.

Lemma p2_nosig x : 12 <= lenN x -> takeN 12 x <> SIG -> p2 x = Err Prefix.
Proof.
  intros H Hn. unfold p2. destruct (lenN x <? 12) eqn:E1; [lia|].
  apply beq_neq in Hn. now rewrite Hn.
Qed.

(* every input of at least 16 wf bytes that starts with the signature has the shape of [p2_on_shape] *)
Lemma shape_of x : 16 <= lenN x -> takeN 12 x = SIG ->
  exists vc fp hi lo rest, x = SIG ++ vc :: fp :: hi :: lo :: rest.
Proof.
  intros H Hs. rewrite <- (takeN_dropN 12 x), Hs.
  pose proof (lenN_dropN 12 x) as Hd. destruct (dropN 12 x) as [|vc [|fp [|hi [|lo rest]]]];
    rewrite ?lenN_cons, ?lenN_nil in Hd; try lia. now exists vc, fp, hi, lo, rest.
Qed.

Lemma wf_shape vc fp hi lo rest :
  wf_bytes (SIG ++ vc :: fp :: hi :: lo :: rest) = true ->
  vc < 256 /\ fp < 256 /\ hi < 256 /\ lo < 256 /\ wf_bytes rest = true.
Proof.
  rewrite wf_bytes_app, !wf_bytes_cons. intros H.
  repeat (apply andb_prop in H as [? H]). repeat split; try lia; assumption.
Qed.
