(* How parse_header sees a line: splitting of SP-joined fields, and the closed form of parse_header
   on every line made of separator-free fields.  Basis of C01, C05, C12, C15. *)
From PPP Require Import Base.Bytes Std.Utf8 Std.Text Std.Num Std.Ip Model.V1 Proofs.BytesFacts Proofs.V1Text.

(* fields joined by single spaces *)
Fixpoint join_sp (fs : list bytes) : bytes :=
  match fs with [] => [] | [f] => f | f :: r => f ++ SP :: join_sp r end.

Lemma join_sp_cons f g r : join_sp (f :: g :: r) = f ++ SP :: join_sp (g :: r).
Proof. reflexivity. Qed.

Lemma is_sep_SP : is_sep SP = true. Proof. reflexivity. Qed.
Lemma is_sep_CR : is_sep CR = true. Proof. reflexivity. Qed.

Definition all_nosep (fs : list bytes) : bool := forallb no_sep fs.

(* splitting an unterminated run of fields *)
Lemma splitn_join n : forall fs, all_nosep fs = true -> (1 <= length fs <= S n)%nat ->
  splitn (S n) (join_sp fs) = fs.
Proof.
  induction n as [|n IH]; intros fs Hn Hl.
  - destruct fs as [|f [|g r]]; cbn [length] in Hl; try lia. reflexivity.
  - destruct fs as [|f [|g r]]; cbn [length] in Hl; try lia.
    + cbn [all_nosep forallb] in Hn. apply andb_prop in Hn as [Hf _]. cbn [join_sp]. now apply splitn_last.
    + cbn [all_nosep forallb] in Hn. apply andb_prop in Hn as [Hf Hr].
      rewrite join_sp_cons, splitn_sep by (assumption || reflexivity). f_equal.
      apply IH; [exact Hr|cbn [length]; lia].
Qed.

(* ... and of a run of fields ended by CR and a tail *)
Lemma splitn_join_cr n : forall fs tl, all_nosep fs = true -> (1 <= length fs <= n)%nat ->
  splitn (S n) (join_sp fs ++ CR :: tl) = fs ++ splitn (S n - length fs) tl.
Proof.
  induction n as [|n IH]; intros fs tl Hn Hl; [lia|].
  destruct fs as [|f [|g r]]; cbn [length] in Hl; try lia.
  - cbn [all_nosep forallb] in Hn. apply andb_prop in Hn as [Hf _]. cbn [join_sp length app].
    rewrite splitn_sep by (assumption || reflexivity). reflexivity.
  - cbn [all_nosep forallb] in Hn. apply andb_prop in Hn as [Hf Hr].
    rewrite join_sp_cons. rewrite <- app_assoc. cbn [app].
    rewrite splitn_sep by (assumption || reflexivity). cbn [app]. f_equal.
    rewrite IH; [|exact Hr|cbn [length]; lia]. reflexivity.
Qed.

Lemma lenN_join_sp_le fs : lenN (join_sp fs) = 0 -> fs = [] \/ fs = [[]].
Proof.
  destruct fs as [|f [|g r]]; [now left| |].
  - cbn [join_sp]. intros H. apply lenN_0 in H. subst. now right.
  - rewrite join_sp_cons, lenN_app, lenN_cons. lia.
Qed.

Lemma no_cr_join_sp fs : all_nosep fs = true -> no_cr (join_sp fs) = true.
Proof.
  induction fs as [|f [|g r] IH]; intros H; [reflexivity| |].
  - cbn [all_nosep forallb] in H. apply andb_prop in H as [Hf _]. now apply no_sep_no_cr.
  - cbn [all_nosep forallb] in H. apply andb_prop in H as [Hf Hr].
    rewrite join_sp_cons, no_cr_app. rewrite (no_sep_no_cr f Hf). cbn [no_cr forallb andb].
    change (negb (SP =? CR)) with true. cbn [andb]. apply IH. exact Hr.
Qed.

Lemma terminated_join_cr fs b : all_nosep fs = true -> terminated (join_sp fs ++ [CR; b]) = true.
Proof. intros H. apply terminated_window. now apply no_cr_join_sp. Qed.

Lemma not_terminated_nocr l : no_cr l = true -> terminated l = false.
Proof. intros H. unfold terminated. apply first_cr_none in H. now rewrite H. Qed.

Lemma not_terminated_cr_end l : no_cr l = true -> terminated (l ++ [CR]) = false.
Proof.
  intros H. unfold terminated. rewrite first_cr_app by assumption. rewrite lenN_app, lenN_cons, lenN_nil. lia.
Qed.

(* ---- suffix tests on concrete endings ---- *)
Lemma is_suffix_CRLF_end l : is_suffix CRLF (l ++ CRLF) = true.
Proof. apply is_suffix_app. now exists l. Qed.

Lemma is_suffix_last2 l x y : is_suffix CRLF (l ++ [x; y]) = (x =? CR) && (y =? LF).
Proof.
  unfold is_suffix. rewrite rev_app_distr. cbn [rev app CRLF is_prefix]. rewrite andb_true_r.
  rewrite (N.eqb_sym LF y), (N.eqb_sym CR x). apply andb_comm.
Qed.

Lemma is_suffix_self l : is_suffix l l = true.
Proof. apply is_suffix_app. now exists []. Qed.

Lemma is_suffix_app_r s a : is_suffix s (a ++ s) = true.
Proof. apply is_suffix_app. now exists a. Qed.
