(* The builder state machine in closed form: for every constructor and every history of calls, the
   outcome of [brun] is determined by length-only "does it fit" predicates, the explicit length in
   force and the reference encoding of the payloads.  Basis of C09, C10, C07, C13. *)
From Coq Require Import ZArith.
From PPP Require Import Base.Bytes Model.V2 Model.Builder Spec.Encoder Proofs.BytesFacts Proofs.Writer.

Lemma lenN_SIG' : lenN SIG = 12. Proof. reflexivity. Qed.

(* ---- length-only success predicates ---- *)
Fixpoint chunks_fit (n : N) (cs : list bytes) : bool :=
  match cs with
  | [] => true
  | c :: r => (isnil c || (n <=? WRITER_LIMIT)) && chunks_fit (n + lenN c) r
  end.
Definition payload_fits (n : N) (p : payload) : bool := negb (oversize p) && chunks_fit n (chunks_of p).
Fixpoint items_fit (n : N) (ps : list payload) : bool :=
  match ps with
  | [] => true
  | p :: r => payload_fits n p && items_fit (n + lenN (enc_payload p)) r
  end.
Definition enc_items (ps : list payload) : bytes := concat (map enc_payload ps).

Lemma write_chunks_fit cs : forall w, fst (write_chunks cs w) = chunks_fit (lenN w) cs.
Proof.
  induction cs as [|c cs IH]; intros w; cbn [write_chunks chunks_fit]; [reflexivity|].
  unfold write_all, wwrite. destruct c as [|x c]; cbn [isnil orb andb].
  - rewrite IH. cbn. now rewrite N.add_0_r.
  - destruct (WRITER_LIMIT <? lenN w) eqn:E.
    + replace (lenN w <=? WRITER_LIMIT) with false by lia. reflexivity.
    + replace (lenN w <=? WRITER_LIMIT) with true by lia. rewrite IH, lenN_app. reflexivity.
Qed.

Lemma write_to_fits p w : wf_payload p = true ->
  write_to p w = (if payload_fits (lenN w) p then (Some (lenN (enc_payload p)), w ++ enc_payload p)
                  else (None, snd (write_to p w))).
Proof.
  intros Hwf. unfold payload_fits. rewrite write_to_chunks. destruct (oversize p); cbn [negb andb]; [reflexivity|].
  pose proof (write_chunks_fit (chunks_of p) w) as F.
  destruct (write_chunks (chunks_of p) w) as [[|] w'] eqn:E; cbn [fst] in F; rewrite <- F.
  - apply write_chunks_ok in E. rewrite concat_chunks_enc in E. subst w'. now rewrite ret_of_enc.
  - reflexivity.
Qed.

Lemma write_items_fit ps : forall w, forallb wf_payload ps = true ->
  write_items ps w = if items_fit (lenN w) ps then Some (w ++ enc_items ps) else None.
Proof.
  induction ps as [|p ps IH]; intros w Hwf; cbn [write_items items_fit].
  - unfold enc_items. cbn. now rewrite app_nil_r.
  - cbn [forallb] in Hwf. apply andb_prop in Hwf as [Hp Hps].
    rewrite (write_to_fits p w Hp). destruct (payload_fits (lenN w) p); cbn [andb]; [|reflexivity].
    rewrite IH by assumption. rewrite lenN_app. destruct (items_fit _ ps); [|reflexivity].
    unfold enc_items. cbn [map concat]. now rewrite app_assoc.
Qed.

Lemma items_fit_app a : forall n b, items_fit n (a ++ b) = items_fit n a && items_fit (n + lenN (enc_items a)) b.
Proof.
  induction a as [|p a IH]; intros n b; cbn [items_fit app].
  - unfold enc_items. cbn. now rewrite N.add_0_r.
  - rewrite IH. unfold enc_items. cbn [map concat]. rewrite lenN_app, N.add_assoc, andb_assoc. reflexivity.
Qed.

Lemma enc_items_app a b : enc_items (a ++ b) = enc_items a ++ enc_items b.
Proof. unfold enc_items. now rewrite map_app, concat_app. Qed.

(* ---- abstraction of a builder state ---- *)
Definition babs (s : bstate) : bytes :=
  match b_header s with None => enc_addrs (b_addrs s) | Some h => dropN 16 h end.
Definition BInv (s : bstate) : Prop :=
  wf_addresses (b_addrs s) = true /\
  match b_header s with
  | None => True
  | Some h => exists a b t, h = SIG ++ [b_vc s; b_afp s; a; b] ++ t
  end.

Lemma dropN16_hdr vc afp a b t : dropN 16 (SIG ++ [vc; afp; a; b] ++ t) = t.
Proof. cbn [SIG app]. destruct t; reflexivity. Qed.
Lemma takeN14_hdr vc afp a b t : takeN 14 (SIG ++ [vc; afp; a; b] ++ t) = SIG ++ [vc; afp].
Proof. reflexivity. Qed.
Lemma lenN_hdr vc afp a b t : lenN (SIG ++ [vc; afp; a; b] ++ t) = 16 + lenN t.
Proof. rewrite !lenN_app, lenN_SIG', !lenN_cons, lenN_nil. lia. Qed.

Lemma enc_addrs_small a : wf_addresses a = true -> lenN (enc_addrs a) <= 216.
Proof. intros H. rewrite <- wf_addresses_len by assumption. destruct a; cbn; lia. Qed.

Lemma write_header_abs s : BInv s ->
  exists a b, write_header s =
    Some (set_header s (Some (SIG ++ [b_vc s; b_afp s; a; b] ++ babs s))).
Proof.
  intros [Hwf Hh]. unfold write_header, babs. destruct (b_header s) as [h|] eqn:E.
  - destruct Hh as (a & b & t & ->). exists a, b. rewrite dropN16_hdr.
    unfold set_header. destruct s as [hh vc afp ad ln cp].
    cbn [b_header b_vc b_afp b_addrs b_length b_cap] in *. subst hh. reflexivity.
  - set (l := match b_length s with Some l => l | None => 0 end).
    exists (l / 256), (l mod 256).
    rewrite write_to_appends.
    + cbn [enc_payload]. unfold be16. now rewrite <- !app_assoc.
    + exact Hwf.
    + reflexivity.
    + pose proof (enc_addrs_small _ Hwf). cbn [enc_payload]. unfold be16.
      rewrite !lenN_app, lenN_SIG', !lenN_cons, lenN_nil. unfold WRITER_LIMIT. lia.
Qed.

(* one call *)
Lemma bstep_abs s o : BInv s -> forallb wf_payload (payloads [o]) = true ->
  if items_fit (16 + lenN (babs s)) (payloads [o]) then
    exists s', bstep s o = Some s' /\ BInv s'
      /\ babs s' = babs s ++ enc_items (payloads [o])
      /\ b_vc s' = b_vc s /\ b_afp s' = b_afp s
      /\ b_length s' = (match o with SetLength l => l | _ => b_length s end)
  else bstep s o = None.
Proof.
  intros Inv Hwf. pose proof Inv as [Ha Hh].
  destruct (write_header_abs s Inv) as (a & b & Hwh).
  assert (Hstart : forall ps, forallb wf_payload ps = true ->
    match write_header s with
    | None => None
    | Some s1 => match write_items ps (match b_header s1 with Some h => h | None => [] end) with
                 | Some w' => Some (set_header s1 (Some w')) | None => None end
    end =
    if items_fit (16 + lenN (babs s)) ps
    then Some (set_header s (Some (SIG ++ [b_vc s; b_afp s; a; b] ++ babs s ++ enc_items ps))) else None).
  { intros ps Hps. rewrite Hwh. cbn [set_header b_header]. rewrite write_items_fit by assumption.
    rewrite lenN_hdr. destruct (items_fit _ ps); [|reflexivity]. now rewrite <- !app_assoc. }
  assert (Hres : forall ps, let s' := set_header s (Some (SIG ++ [b_vc s; b_afp s; a; b] ++ babs s ++ enc_items ps)) in
    BInv s' /\ babs s' = babs s ++ enc_items ps /\ b_vc s' = b_vc s /\ b_afp s' = b_afp s /\ b_length s' = b_length s).
  { intros ps s'. unfold s', BInv, babs. cbn [set_header b_header b_addrs b_vc b_afp b_length].
    rewrite dropN16_hdr. repeat split; try assumption. now exists a, b, (match b_header s with
      | Some h => dropN 16 h | None => enc_addrs (b_addrs s) end ++ enc_items ps). }
  destruct o as [n|l|p|ps|k v]; cbn [payloads app items_fit] in *.
  - (* Reserve *)
    cbn [bstep]. destruct (b_header s) as [h|] eqn:E.
    + exists s. unfold enc_items. cbn [map concat]. rewrite app_nil_r.
      split; [reflexivity|]. split; [exact Inv|]. repeat split; reflexivity.
    + eexists. split; [reflexivity|]. unfold BInv, babs, enc_items. cbn [b_header b_addrs b_vc b_afp b_length map concat].
      rewrite E, app_nil_r. repeat split; assumption.
  - (* SetLength *)
    cbn [bstep]. eexists. split; [reflexivity|].
    unfold BInv, babs, enc_items. cbn [b_header b_addrs b_vc b_afp b_length map concat]. rewrite app_nil_r.
    repeat split; assumption.
  - (* WritePayload *)
    cbn [bstep]. specialize (Hstart [p] Hwf). cbn [write_items items_fit] in Hstart.
    unfold write_internal. destruct (write_header s) as [s1|]; [|rewrite andb_true_r in *; destruct (payload_fits _ p); [discriminate|reflexivity]].
    destruct (write_to p _) as [[n|] w']; rewrite Hstart; destruct (payload_fits _ p && true);
      try reflexivity; eexists; (split; [reflexivity|apply (Hres [p])]).
  - (* WritePayloads *)
    cbn [bstep]. rewrite app_nil_r in *. rewrite (Hstart ps Hwf).
    destruct (items_fit _ ps); [|reflexivity]. eexists. split; [reflexivity|apply (Hres ps)].
  - (* WriteTlv *)
    cbn [bstep]. specialize (Hstart [PTlv k v] Hwf). cbn [write_items items_fit] in Hstart.
    unfold write_internal. destruct (write_header s) as [s1|]; [|rewrite andb_true_r in *; destruct (payload_fits _ _); [discriminate|reflexivity]].
    destruct (write_to (PTlv k v) _) as [[n|] w']; rewrite Hstart; destruct (payload_fits _ _ && true);
      try reflexivity; eexists; (split; [reflexivity|apply (Hres [PTlv k v])]).
Qed.

(* build *)
Definition out_of (s : bstate) (l : N) : bytes := SIG ++ [b_vc s; b_afp s] ++ be16 l ++ babs s.

Lemma bbuild_abs s : BInv s ->
  bbuild s = match b_length s with
             | Some l => Some (out_of s l)
             | None => if lenN (babs s) <=? U16_MAX then Some (out_of s (lenN (babs s))) else None
             end.
Proof.
  intros Inv. destruct (write_header_abs s Inv) as (a & b & Hwh). unfold bbuild. rewrite Hwh.
  cbn [set_header b_header b_length]. unfold patch_length, MINIMUM_LENGTH. rewrite dropN16_hdr, takeN14_hdr.
  unfold out_of. destruct (b_length s) as [l|]; [now rewrite <- !app_assoc|].
  destruct (lenN (babs s) <=? U16_MAX); [now rewrite <- !app_assoc|reflexivity].
Qed.

Lemma payloads_cons o r : payloads (o :: r) = payloads [o] ++ payloads r.
Proof. destruct o; cbn [payloads app]; rewrite ?app_nil_r; reflexivity. Qed.

(* ---- a whole history, from any state ---- *)
Lemma brun_from_closed ops : forall s i, BInv s -> forallb wf_payload (payloads ops) = true ->
  let n := 16 + lenN (babs s) in
  let bd := babs s ++ enc_items (payloads ops) in
  let fl := in_force_from (b_length s) ops in
  match brun_from s ops i with
  | BOk out => items_fit n (payloads ops) = true /\ (fl = None -> lenN bd <= U16_MAX)
               /\ out = SIG ++ [b_vc s; b_afp s] ++ be16 (match fl with Some l => l | None => lenN bd end) ++ bd
  | BErrAt _ => items_fit n (payloads ops) = false
  | BErrBuild => items_fit n (payloads ops) = true /\ fl = None /\ U16_MAX < lenN bd
  end.
Proof.
  induction ops as [|o ops IH]; intros s i Inv Hwf; cbv zeta.
  - cbn [brun_from payloads items_fit in_force_from]. unfold enc_items. cbn [map concat]. rewrite app_nil_r.
    rewrite bbuild_abs by assumption. unfold out_of.
    destruct (b_length s) as [l|].
    + repeat split. discriminate.
    + destruct (lenN (babs s) <=? U16_MAX) eqn:E; repeat split; lia.
  - rewrite payloads_cons in *. rewrite forallb_app in Hwf. apply andb_prop in Hwf as [Hwo Hwr].
    rewrite items_fit_app, enc_items_app. cbn [brun_from].
    pose proof (bstep_abs s o Inv Hwo) as Hstep.
    destruct (items_fit (16 + lenN (babs s)) (payloads [o])) eqn:Efit; cbn [andb].
    + destruct Hstep as (s' & -> & Inv' & Habs & Hvc & Hafp & Hlen).
      specialize (IH s' (i + 1) Inv' Hwr). cbv zeta in IH.
      rewrite Habs, Hvc, Hafp, lenN_app, N.add_assoc, <- app_assoc in IH.
      assert (Hfl : in_force_from (b_length s') ops = in_force_from (b_length s) (o :: ops)).
      { rewrite Hlen. destruct o; reflexivity. }
      rewrite Hfl in IH. exact IH.
    + rewrite Hstep. reflexivity.
Qed.

(* ---- from the constructors ---- *)
Lemma family_or_protocol_code a p : family_or_protocol (address_family a) p = 16 * fam_idx a + tr_code p.
Proof. destruct a, p; reflexivity. Qed.

Lemma binit_facts c : wf_ctor c = true ->
  BInv (binit c) /\ babs (binit c) = enc_addrs (ctor_addrs c)
  /\ b_vc (binit c) = ctor_vc c /\ b_afp (binit c) = ctor_afp c /\ b_length (binit c) = None.
Proof.
  intros H. destruct c as [vc afp|vc p a]; unfold BInv, babs; cbn [binit b_header b_addrs b_vc b_afp b_length ctor_vc ctor_afp ctor_addrs].
  - repeat split; reflexivity.
  - rewrite family_or_protocol_code. repeat split; try reflexivity. exact H.
Qed.

Definition wf_ops (ops : list bop) : bool := forallb wf_payload (payloads ops).

Theorem brun_closed c ops : wf_ctor c = true -> wf_ops ops = true ->
  let n := 16 + lenN (enc_addrs (ctor_addrs c)) in
  match brun c ops with
  | BOk out => items_fit n (payloads ops) = true /\ (in_force ops = None -> lenN (body c ops) <= U16_MAX)
               /\ out = expected_output c ops
  | BErrAt _ => items_fit n (payloads ops) = false
  | BErrBuild => items_fit n (payloads ops) = true /\ in_force ops = None /\ U16_MAX < lenN (body c ops)
  end.
Proof.
  intros Hc Ho. destruct (binit_facts c Hc) as (Inv & Habs & Hvc & Hafp & Hlen).
  pose proof (brun_from_closed ops (binit c) 0 Inv Ho) as H. cbv zeta in H.
  rewrite Habs, Hvc, Hafp, Hlen in H. unfold brun, expected_output, length_field, body, in_force, enc_items in *.
  exact H.
Qed.
