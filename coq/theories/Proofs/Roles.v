(* End-to-end role preservation (C19 carried through C07 and C08): a pair of socket addresses of one
   family, converted by the crate's From impls, encoded (v2 builder / v1 Display) and parsed back,
   comes out with the source still the source and the destination still the destination; and on the
   wire the source address and port precede the destination's, as the PROXY protocol prescribes. *)
From Coq Require Import ZArith List Lia Bool.
From PPP Require Import Base.Bytes Std.Num Std.Ip Model.V1 Model.V2 Model.Builder Model.Ctor Spec.V2Wire Spec.TlvWalk Spec.Encoder
  Proofs.BytesFacts Proofs.RoundTrip Proofs.V1Format.
Import ListNotations.
Local Open Scope N_scope.

(* a std::net::SocketAddr as a value: 4 or 16 octets, a 16-bit port (flow-info and scope are free) *)
Definition wf_sock (s : sockaddr) : bool :=
  match s with
  | SV4 a p => (lenN a =? 4) && wf_bytes a && (p <? 65536)
  | SV6 a p _ _ => (lenN a =? 16) && wf_bytes a && (p <? 65536)
  end.
Definition sock_ip (s : sockaddr) : bytes := match s with SV4 a _ | SV6 a _ _ _ => a end.
Definition sock_port (s : sockaddr) : N := match s with SV4 _ p | SV6 _ p _ _ => p end.
Definition same_family (s d : sockaddr) : bool :=
  match s, d with SV4 _ _, SV4 _ _ | SV6 _ _ _ _, SV6 _ _ _ _ => true | _, _ => false end.

Definition endpoints1 (a : addrs1) : option (bytes * N * bytes * N) :=
  match a with Unknown => None | Tcp4 sa da sp dp | Tcp6 sa da sp dp => Some (sa, sp, da, dp) end.
Definition endpoints2 (a : addresses) : option (bytes * N * bytes * N) :=
  match a with AIPv4 sa da sp dp | AIPv6 sa da sp dp => Some (sa, sp, da, dp) | _ => None end.
Definition pair_endpoints (s d : sockaddr) : option (bytes * N * bytes * N) :=
  if same_family s d then Some (sock_ip s, sock_port s, sock_ip d, sock_port d) else None.

Lemma pair_endpoints1 s d : endpoints1 (v1_of_pair s d) = pair_endpoints s d.
Proof. destruct s, d; reflexivity. Qed.
Lemma pair_endpoints2 s d : endpoints2 (v2_of_pair s d) = pair_endpoints s d.
Proof. destruct s, d; reflexivity. Qed.

Lemma wf_pair1 s d : wf_sock s = true -> wf_sock d = true -> wf_addrs1 (v1_of_pair s d) = true.
Proof.
  destruct s, d; cbn; intros Hs Hd; try reflexivity;
  repeat (apply andb_true_iff in Hs; destruct Hs as [Hs ?]); repeat (apply andb_true_iff in Hd; destruct Hd as [Hd ?]);
  repeat (apply andb_true_iff; split); assumption.
Qed.
Lemma wf_pair2 s d : wf_sock s = true -> wf_sock d = true ->
  wf_addresses (v2_of_pair s d) = true /\ wf_addr_bytes (v2_of_pair s d) = true.
Proof.
  destruct s, d; cbn; intros Hs Hd; try (split; reflexivity);
  repeat (apply andb_true_iff in Hs; destruct Hs as [Hs ?]); repeat (apply andb_true_iff in Hd; destruct Hd as [Hd ?]);
  split; repeat (apply andb_true_iff; split); assumption.
Qed.

(* v1: the formatted line of the converted pair parses back, through every text entry point, to
   addresses whose endpoints are the pair's, source first *)
Theorem pair_round_v1 s d : wf_sock s = true -> wf_sock d = true ->
  let l := fmt1 (v1_of_pair s d) in
  addresses_from_str l = Ok (v1_of_pair s d)
  /\ (forall hd, p1 l = Ok hd -> endpoints1 (addr hd) = pair_endpoints s d)
  /\ (forall hd, p1s l = Ok hd -> endpoints1 (addr hd) = pair_endpoints s d).
Proof.
  intros Hs Hd l. pose proof (fmt1_round_trip _ (wf_pair1 s d Hs Hd)) as R. cbv zeta in R.
  destruct R as (_ & _ & R1 & R2 & _ & R3). fold l in R1, R2, R3.
  split; [exact R3|]. split; intros hd E.
  - rewrite R1 in E. injection E as <-. cbn [addr]. apply pair_endpoints1.
  - rewrite R2 in E. injection E as <-. cbn [addr]. apply pair_endpoints1.
Qed.

(* v2: the header built from the converted pair (any command, transport and TLVs that fit) parses
   back to addresses whose endpoints are the pair's, source first *)
Theorem pair_round_v2 cmd tr s d tlvs : wf_sock s = true -> wf_sock d = true ->
  wf_bytes (tlvs_payload tlvs) = true -> lenN (enc_addrs (v2_of_pair s d) ++ tlvs_payload tlvs) <= 65535 ->
  exists hd, p2 (wire cmd tr (v2_of_pair s d) tlvs) = Ok hd /\ endpoints2 (haddresses hd) = pair_endpoints s d.
Proof.
  intros Hs Hd Ht Hl. destruct (wf_pair2 s d Hs Hd) as [W1 W2].
  eexists. split; [apply wire_parses; assumption|]. cbn [haddresses]. apply pair_endpoints2.
Qed.

(* the wire order of the address block: source address, destination address, source port,
   destination port, each big-endian *)
Theorem pair_wire_layout s d : same_family s d = true ->
  enc_addrs (v2_of_pair s d)
  = sock_ip s ++ sock_ip d ++ [sock_port s / 256; sock_port s mod 256] ++ [sock_port d / 256; sock_port d mod 256].
Proof. destruct s, d; cbn; intros H; try discriminate H; reflexivity. Qed.

(* the text order of a v1 line: source address, destination address, source port, destination port *)
Theorem pair_text_layout s d : same_family s d = true ->
  exists kw fmt, (kw = TCP4 \/ kw = TCP6) /\
  fmt1 (v1_of_pair s d)
  = PROXY ++ [SP] ++ kw ++ [SP] ++ fmt (sock_ip s) ++ [SP] ++ fmt (sock_ip d) ++ [SP]
    ++ fmt_dec (sock_port s) ++ [SP] ++ fmt_dec (sock_port d) ++ CRLF.
Proof.
  destruct s, d; cbn [same_family]; intros H; try discriminate H.
  - exists TCP4, fmt_ipv4. split; [left; reflexivity|reflexivity].
  - exists TCP6, fmt_ipv6. split; [right; reflexivity|reflexivity].
Qed.

(* a mixed pair carries no endpoints in either version, and both encodings say so explicitly *)
Theorem pair_mixed s d : same_family s d = false ->
  v1_of_pair s d = Unknown /\ v2_of_pair s d = AUnspec
  /\ fmt1 (v1_of_pair s d) = PROXY ++ [SP] ++ UNKNOWN ++ CRLF /\ enc_addrs (v2_of_pair s d) = [].
Proof. destruct s, d; cbn [same_family]; intros H; try discriminate H; repeat split. Qed.

(* both versions, one pair: the peer of a v1 sender and the peer of a v2 sender read the same endpoints *)
Lemma pair_block_small s d : wf_sock s = true -> wf_sock d = true -> lenN (enc_addrs (v2_of_pair s d)) <= 36.
Proof.
  destruct s as [a p|a p f1 s1], d as [b q|b q f2 s2]; cbn [wf_sock v2_of_pair v2_of_ip4 v2_of_ip6 ip_new enc_addrs
    source_address destination_address source_port destination_port]; intros Hs Hd;
  repeat (apply andb_true_iff in Hs; destruct Hs as [Hs ?]); repeat (apply andb_true_iff in Hd; destruct Hd as [Hd ?]);
  rewrite ?lenN_app; cbn [lenN]; try lia.
Qed.

Theorem pair_cross_version cmd tr s d : wf_sock s = true -> wf_sock d = true ->
  exists a1 hd2,
    addresses_from_str (fmt1 (v1_of_pair s d)) = Ok a1
    /\ p2 (wire cmd tr (v2_of_pair s d) []) = Ok hd2
    /\ endpoints1 a1 = endpoints2 (haddresses hd2)
    /\ endpoints1 a1 = pair_endpoints s d.
Proof.
  intros Hs Hd.
  destruct (pair_round_v1 s d Hs Hd) as (R1 & _).
  assert (Hl : lenN (enc_addrs (v2_of_pair s d) ++ tlvs_payload []) <= 65535).
  { unfold tlvs_payload. cbn [map concat]. rewrite app_nil_r. pose proof (pair_block_small s d Hs Hd). lia. }
  destruct (pair_round_v2 cmd tr s d [] Hs Hd eq_refl Hl) as (hd & R2 & E2).
  exists (v1_of_pair s d), hd. repeat split; try assumption.
  - rewrite E2. apply pair_endpoints1.
  - apply pair_endpoints1.
Qed.
