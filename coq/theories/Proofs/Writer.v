(* C20: every encodable value appends exactly its wire encoding and reports its size.
   Also the uniform "chunk" view of write_to used by the builder proofs. *)
From Coq Require Import ZArith.
From PPP Require Import Base.Bytes Model.V2 Model.Builder Spec.Encoder Proofs.BytesFacts.

(* ---- write_all / write_chunks ---- *)
Lemma write_all_ok w c w' : write_all w c = Some w' -> w' = w ++ c.
Proof.
  unfold write_all, wwrite. destruct c as [|x c]; cbn [isnil].
  - intros H. injection H as <-. now rewrite app_nil_r.
  - destruct (WRITER_LIMIT <? lenN w); [discriminate|]. intros H. now injection H as <-.
Qed.

Lemma write_all_fits w c : lenN w <= WRITER_LIMIT \/ c = [] -> write_all w c = Some (w ++ c).
Proof.
  unfold write_all, wwrite. intros [H| ->].
  - destruct c as [|x c]; cbn [isnil]; [now rewrite app_nil_r|].
    destruct (WRITER_LIMIT <? lenN w) eqn:E; [lia|reflexivity].
  - cbn [isnil]. now rewrite app_nil_r.
Qed.

Lemma write_all_len w1 w2 c : lenN w1 = lenN w2 ->
  match write_all w1 c, write_all w2 c with Some _, Some _ | None, None => True | _, _ => False end.
Proof.
  intros H. unfold write_all, wwrite. destruct (isnil c); [exact I|]. rewrite H.
  destruct (WRITER_LIMIT <? lenN w2); exact I.
Qed.

Lemma write_chunks_ok cs : forall w w', write_chunks cs w = (true, w') -> w' = w ++ concat cs.
Proof.
  induction cs as [|c cs IH]; intros w w' H; cbn [write_chunks concat] in *.
  - injection H as <-. now rewrite app_nil_r.
  - destruct (write_all w c) as [w1|] eqn:E; [|discriminate].
    apply write_all_ok in E. subst w1. rewrite (IH _ _ H). now rewrite app_assoc.
Qed.

Lemma write_chunks_prefix cs : forall w ok w', write_chunks cs w = (ok, w') -> exists t, w' = w ++ t.
Proof.
  induction cs as [|c cs IH]; intros w ok w' H; cbn [write_chunks] in H.
  - injection H as _ <-. exists []. now rewrite app_nil_r.
  - destruct (write_all w c) as [w1|] eqn:E.
    + apply write_all_ok in E. subst w1. destruct (IH _ _ _ H) as [t ->]. exists (c ++ t). now rewrite app_assoc.
    + injection H as _ <-. exists []. now rewrite app_nil_r.
Qed.

Lemma write_chunks_fits cs : forall w, lenN w + lenN (concat cs) <= WRITER_LIMIT ->
  write_chunks cs w = (true, w ++ concat cs).
Proof.
  induction cs as [|c cs IH]; intros w H; cbn [write_chunks concat] in *.
  - now rewrite app_nil_r.
  - rewrite lenN_app in H. rewrite write_all_fits by (left; lia).
    rewrite IH by (rewrite lenN_app; lia). now rewrite app_assoc.
Qed.

(* success or failure of a chunk sequence depends on the writer's length only *)
Lemma write_chunks_len cs : forall w1 w2, lenN w1 = lenN w2 ->
  fst (write_chunks cs w1) = fst (write_chunks cs w2).
Proof.
  induction cs as [|c cs IH]; intros w1 w2 H; cbn [write_chunks]; [reflexivity|].
  pose proof (write_all_len w1 w2 c H) as L.
  destruct (write_all w1 c) as [a|] eqn:E1, (write_all w2 c) as [b|] eqn:E2; try contradiction; [|reflexivity].
  apply IH. apply write_all_ok in E1, E2. subst. rewrite !lenN_app. lia.
Qed.

(* ---- the uniform view of write_to ---- *)
Definition chunks_of (p : payload) : list bytes :=
  match p with
  | PInt w v => [int_be_bytes w v]
  | PBytes b => [b]
  | PAddrs a => addr_chunks a
  | PTlv k v | PPair k v => [[k]; be16 (lenN v); v]
  | PSection b _ => [b]
  | PType t => [[type_code t]]
  end.
Definition ret_of (p : payload) : N :=
  match p with
  | PInt w v => lenN (int_be_bytes w v)
  | PBytes b => lenN b
  | PAddrs a => addresses_len a
  | PTlv k v | PPair k v => MINIMUM_TLV_LENGTH + lenN v
  | PSection b _ => lenN b
  | PType t => 1
  end.

Lemma write_to_chunks p w :
  write_to p w =
  if oversize p then (None, w) else
  match write_chunks (chunks_of p) w with
  | (true, w') => (Some (ret_of p), w')
  | (false, w') => (None, w')
  end.
Proof.
  destruct p as [wd v|b|a|k v|k v|b off|t]; cbn [write_to oversize chunks_of ret_of write_chunks]; unfold U16_MAX.
  - destruct (write_all w _); reflexivity.
  - destruct (65535 <? lenN b); [reflexivity|]. destruct (write_all w b); reflexivity.
  - destruct (write_chunks (addr_chunks a) w) as [[|] w']; reflexivity.
  - destruct (65535 <? lenN v); [reflexivity|].
    destruct (write_all w [k]) as [w1|]; [|reflexivity].
    destruct (write_all w1 (be16 (lenN v))) as [w2|]; [|reflexivity].
    destruct (write_all w2 v); reflexivity.
  - destruct (65535 <? lenN v); [reflexivity|].
    destruct (write_all w [k]) as [w1|]; [|reflexivity].
    destruct (write_all w1 (be16 (lenN v))) as [w2|]; [|reflexivity].
    destruct (write_all w2 v); reflexivity.
  - destruct (write_all w b); reflexivity.
  - unfold write_all. cbn [isnil]. destruct (wwrite w [type_code t]); reflexivity.
Qed.

(* ---- the chunks are the reference encoding ---- *)
Lemma be_bytes_spec width : forall n, be_bytes width n = be_spec width n.
Proof.
  induction width as [|k IH]; intros n; [reflexivity|].
  cbn [be_bytes]. unfold be_spec. rewrite seq_S, map_app. cbn [map Nat.add].
  rewrite IH. unfold be_spec. f_equal.
  - apply map_ext_in. intros i Hi. apply in_seq in Hi.
    replace (S k - 1 - i)%nat with (S (k - 1 - i)) by lia.
    rewrite Nat2N.inj_succ, N.pow_succ_r', N.div_div by (try apply N.pow_nonzero; lia). reflexivity.
  - replace (S k - 1 - k)%nat with O by lia. cbn. now rewrite N.div_1_r.
Qed.

Lemma type_code_spec t : type_code t = spec_type_code t.
Proof. destruct t; reflexivity. Qed.

Lemma concat_chunks_enc p : concat (chunks_of p) = enc_payload p.
Proof.
  destruct p as [wd v|b|a|k v|k v|b off|t]; cbn [chunks_of enc_payload concat]; rewrite ?app_nil_r; try reflexivity.
  - unfold int_be_bytes, twos. apply be_bytes_spec.
  - destruct a; cbn [addr_chunks enc_addrs concat]; rewrite ?app_nil_r; reflexivity.
Qed.

Lemma lenN_be_spec width n : lenN (be_spec width n) = N.of_nat width.
Proof. unfold be_spec. now rewrite lenN_length, map_length, seq_length. Qed.

Lemma wf_addresses_len a : wf_addresses a = true -> addresses_len a = lenN (enc_addrs a).
Proof.
  destruct a as [|sa da sp dp|sa da sp dp|s d]; cbn [wf_addresses enc_addrs]; intros H.
  - reflexivity.
  - repeat (apply andb_prop in H as [H ?]). rewrite !lenN_app, !lenN_cons, lenN_nil. cbn. lia.
  - repeat (apply andb_prop in H as [H ?]). rewrite !lenN_app, !lenN_cons, lenN_nil. cbn. lia.
  - apply andb_prop in H as [H ?]. rewrite lenN_app. cbn. lia.
Qed.

Lemma ret_of_enc p : wf_payload p = true -> ret_of p = lenN (enc_payload p).
Proof.
  destruct p as [wd v|b|a|k v|k v|b off|t]; cbn [ret_of enc_payload wf_payload]; intros H; try reflexivity.
  - unfold int_be_bytes. now rewrite be_bytes_spec.
  - now apply wf_addresses_len.
  - unfold enc_tlv, MINIMUM_TLV_LENGTH. rewrite !lenN_cons. lia.
  - unfold enc_tlv, MINIMUM_TLV_LENGTH. rewrite !lenN_cons. lia.
Qed.

(* ---- C20 ---- *)
Theorem write_to_appends w p : wf_payload p = true -> oversize p = false ->
  lenN w + lenN (enc_payload p) <= WRITER_LIMIT ->
  write_to p w = (Some (lenN (enc_payload p)), w ++ enc_payload p).
Proof.
  intros Hwf Hbig Hfit. rewrite write_to_chunks, Hbig.
  rewrite write_chunks_fits by (rewrite concat_chunks_enc; exact Hfit).
  now rewrite concat_chunks_enc, ret_of_enc.
Qed.

Theorem write_to_refuses w p : oversize p = true -> write_to p w = (None, w).
Proof. intros H. now rewrite write_to_chunks, H. Qed.

(* whenever write_to succeeds -- at any writer size -- it has appended exactly the encoding *)
Theorem write_to_success w p n w' : wf_payload p = true -> write_to p w = (Some n, w') ->
  w' = w ++ enc_payload p /\ n = lenN (enc_payload p) /\ oversize p = false.
Proof.
  intros Hwf. rewrite write_to_chunks. destruct (oversize p); [discriminate|].
  destruct (write_chunks (chunks_of p) w) as [[|] w1] eqn:E; [|discriminate].
  intros H. injection H as <- <-. apply write_chunks_ok in E.
  rewrite concat_chunks_enc in E. repeat split; [exact E|now apply ret_of_enc].
Qed.

(* the writer only ever grows: a failed multi-part write keeps a prefix relation (band above the limit) *)
Theorem write_to_band w p r w' : write_to p w = (r, w') -> exists t, w' = w ++ t.
Proof.
  rewrite write_to_chunks. destruct (oversize p).
  - intros H. injection H as _ <-. exists []. now rewrite app_nil_r.
  - destruct (write_chunks (chunks_of p) w) as [[|] w1] eqn:E; intros H; injection H as _ <-;
      eapply write_chunks_prefix; exact E.
Qed.

Theorem to_bytes_enc p : wf_payload p = true -> oversize p = false -> lenN (enc_payload p) <= WRITER_LIMIT ->
  to_bytes p = Some (enc_payload p).
Proof.
  intros Hwf Hbig Hfit. unfold to_bytes. rewrite write_to_appends by (assumption || (cbn; lia)). reflexivity.
Qed.

Theorem tlv_pair_same k v : enc_payload (PTlv k v) = enc_payload (PPair k v) /\ forall w, write_to (PTlv k v) w = write_to (PPair k v) w.
Proof. split; reflexivity. Qed.

(* a TLV section encodes to all of its bytes, wherever its iteration cursor stands *)
Theorem section_cursor_irrelevant b off1 off2 : enc_payload (PSection b off1) = enc_payload (PSection b off2)
  /\ forall w, write_to (PSection b off1) w = write_to (PSection b off2) w.
Proof. split; reflexivity. Qed.

(* integers: big-endian at their natural width, two's complement *)
Theorem int_encoding width v : enc_payload (PInt width v) = be_spec width (twos width v) /\ lenN (enc_payload (PInt width v)) = N.of_nat width.
Proof. split; [reflexivity|apply lenN_be_spec]. Qed.
