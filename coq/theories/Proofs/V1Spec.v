(* C01 against the grammar of Spec/V1Grammar.v: the model accepts exactly what the grammar accepts,
   with the same decoded value. *)
From PPP Require Import Base.Bytes Std.Utf8 Std.Text Std.Num Std.Ip Model.V1 Spec.V1Grammar
  Proofs.BytesFacts Proofs.StdUtf8 Proofs.StdNum Proofs.StdIp6 Proofs.V1Text Proofs.V1Final Proofs.V1Lines
  Proofs.V1Shape Proofs.V1Props.

Lemma port_value_spec s : port_value s = spec_port s.
Proof. exact (port_ok_spec s). Qed.

Lemma join_sp_join fs : join_sp fs = join SP fs.
Proof. induction fs as [|f [|g r] IH]; [reflexivity|reflexivity|]. rewrite join_sp_cons, IH. reflexivity. Qed.

Lemma no_sep_parts f : no_sep f = true <-> nosep SP f = true /\ V1Text.no_cr f = true.
Proof.
  unfold no_sep, nosep, V1Text.no_cr. induction f as [|c f IH]; cbn [forallb]; [tauto|].
  rewrite !andb_true_iff, IH. unfold is_sep. destruct (c =? SP), (c =? CR); cbn; tauto.
Qed.

Lemma no_cr_join_parts fs : V1Text.no_cr (join_sp fs) = true -> Forall (fun f => V1Text.no_cr f = true) fs.
Proof.
  induction fs as [|f [|g r] IH]; intros H; [constructor|constructor; [exact H|constructor]|].
  rewrite join_sp_cons, no_cr_app in H. apply andb_prop in H as [Hf H]. cbn [V1Text.no_cr forallb] in H.
  apply andb_prop in H as [_ H]. constructor; [exact Hf|]. apply IH. exact H.
Qed.

(* the four address fields: splitting on SP inverts joining with SP *)
Lemma spec_fields_iff (ip : bytes -> option bytes) mk rest ad : V1Text.no_cr rest = true ->
  spec_fields ip mk rest = Some ad <->
  exists sa da sp dp a c n m, rest = join_sp [sa; da; sp; dp] /\ all_nosep [sa; da; sp; dp] = true
    /\ ip sa = Some a /\ ip da = Some c /\ spec_port sp = Some n /\ spec_port dp = Some m /\ ad = mk a c n m.
Proof.
  intros Hn. unfold spec_fields. split.
  - destruct (split_on SP rest) as [|sa [|da [|sp [|dp [|? ?]]]]] eqn:Es; try discriminate.
    destruct (ip sa) as [a|] eqn:E1; [|discriminate]. destruct (ip da) as [c|] eqn:E2; [|discriminate].
    destruct (spec_port sp) as [n|] eqn:E3; [|discriminate]. destruct (spec_port dp) as [m|] eqn:E4; [|discriminate].
    intros H. injection H as <-.
    assert (Er : rest = join_sp [sa; da; sp; dp]) by (rewrite join_sp_join, <- Es; symmetry; apply join_split).
    exists sa, da, sp, dp, a, c, n, m. repeat split; try assumption.
    pose proof (split_on_parts SP rest) as Hp. rewrite Es in Hp.
    rewrite Er in Hn. apply no_cr_join_parts in Hn.
    cbn [all_nosep forallb]. repeat match goal with
      | H : Forall _ (_ :: _) |- _ => inversion H; clear H; subst
      end.
    repeat (rewrite (proj2 (no_sep_parts _)) by (split; assumption)). reflexivity.
  - intros (sa & da & sp & dp & a & c & n & m & -> & Hns & E1 & E2 & E3 & E4 & ->).
    rewrite join_sp_join, StdIp6.split_on_join.
    + now rewrite E1, E2, E3, E4.
    + discriminate.
    + cbn [all_nosep forallb] in Hns. repeat (apply andb_prop in Hns as [? Hns]).
      repeat constructor; now apply no_sep_parts.
Qed.

Definition P4 : bytes := PROXY ++ [SP] ++ TCP4 ++ [SP].
Definition P6 : bytes := PROXY ++ [SP] ++ TCP6 ++ [SP].
Definition PU : bytes := PROXY ++ [SP] ++ UNKNOWN.
Definition PUS : bytes := PROXY ++ [SP] ++ UNKNOWN ++ [SP].

Lemma six_P4 sa da sp dp : six PROXY TCP4 sa da sp dp = P4 ++ join_sp [sa; da; sp; dp]. Proof. reflexivity. Qed.
Lemma six_P6 sa da sp dp : six PROXY TCP6 sa da sp dp = P6 ++ join_sp [sa; da; sp; dp]. Proof. reflexivity. Qed.

Lemma no_cr_dropN a k : V1Text.no_cr a = true -> V1Text.no_cr (dropN k a) = true.
Proof. intros H. rewrite <- (takeN_dropN k a), no_cr_app in H. now apply andb_prop in H. Qed.

Theorem shape_spec_line a ad : V1Text.no_cr a = true -> (shape (a ++ CRLF) ad <-> spec_line a = Some ad).
Proof.
  intros Hn. split.
  - intros S. remember (a ++ CRLF) as l eqn:El. revert El.
    destruct S as [sa da sp dp x y n m Hns V1 V2 V3 V4|sa da sp dp x y n m Hns V1 V2 V3 V4|rest Hr Hnr]; intros El.
    + apply app_inv_tail in El. subst a. unfold spec_line. fold P4. rewrite six_P4.
      replace (is_prefix P4 (P4 ++ join_sp [sa; da; sp; dp])) with true by (symmetry; apply is_prefix_app; eauto).
      rewrite (dropN_app_exact P4) by reflexivity.
      apply spec_fields_iff; [rewrite six_P4 in Hn; rewrite no_cr_app in Hn; now apply andb_prop in Hn|].
      exists sa, da, sp, dp, x, y, n, m. rewrite <- !parse_ipv4_spec, <- !port_value_spec. tauto.
    + apply app_inv_tail in El. subst a. unfold spec_line. fold P4 P6. rewrite six_P6.
      assert (F4 : is_prefix P4 (P6 ++ join_sp [sa; da; sp; dp]) = false) by reflexivity. rewrite F4.
      replace (is_prefix P6 (P6 ++ join_sp [sa; da; sp; dp])) with true by (symmetry; apply is_prefix_app; eauto).
      rewrite (dropN_app_exact P6) by reflexivity.
      apply spec_fields_iff; [rewrite six_P6 in Hn; rewrite no_cr_app in Hn; now apply andb_prop in Hn|].
      exists sa, da, sp, dp, x, y, n, m. rewrite <- !parse_ipv6_spec, <- !port_value_spec. tauto.
    + rewrite app_assoc in El. apply app_inv_tail in El. subst a. unfold spec_line. fold P4 P6 PUS PU.
      change unknown_head with PU.
      destruct Hr as [->|[t ->]].
      * rewrite app_nil_r. reflexivity.
      * assert (F4 : is_prefix P4 (PU ++ SP :: t) = false) by reflexivity.
        assert (F6 : is_prefix P6 (PU ++ SP :: t) = false) by reflexivity.
        rewrite F4, F6.
        assert (FU : beq (PU ++ SP :: t) PU = false).
        { apply beq_neq. intros E. apply (f_equal lenN) in E. rewrite lenN_app, lenN_cons in E. lia. }
        rewrite FU.
        replace (is_prefix PUS (PU ++ SP :: t)) with true; [reflexivity|].
        symmetry. apply is_prefix_app. exists t. reflexivity.
  - unfold spec_line. fold P4 P6 PUS PU. intros H.
    destruct (is_prefix P4 a) eqn:E4.
    { apply is_prefix_app in E4 as [rest ->]. rewrite dropN_app_exact in H by reflexivity.
      apply spec_fields_iff in H; [|rewrite no_cr_app in Hn; now apply andb_prop in Hn].
      destruct H as (sa & da & sp & dp & x & y & n & m & -> & Hns & V1 & V2 & V3 & V4 & ->).
      rewrite <- six_P4. constructor; try assumption; rewrite ?parse_ipv4_spec, ?port_value_spec; assumption. }
    destruct (is_prefix P6 a) eqn:E6.
    { apply is_prefix_app in E6 as [rest ->]. rewrite dropN_app_exact in H by reflexivity.
      apply spec_fields_iff in H; [|rewrite no_cr_app in Hn; now apply andb_prop in Hn].
      destruct H as (sa & da & sp & dp & x & y & n & m & -> & Hns & V1 & V2 & V3 & V4 & ->).
      rewrite <- six_P6. constructor; try assumption; rewrite ?parse_ipv6_spec, ?port_value_spec; assumption. }
    destruct (beq a PU) eqn:EU.
    { apply beq_eq in EU. subst a. injection H as <-.
      change (PU ++ CRLF) with (unknown_head ++ [] ++ CRLF). constructor; [now left|reflexivity]. }
    destruct (is_prefix PUS a) eqn:EP; [|discriminate].
    apply is_prefix_app in EP as [t ->]. injection H as <-.
    replace ((PUS ++ t) ++ CRLF) with (unknown_head ++ (SP :: t) ++ CRLF)
      by (repeat (rewrite <- app_assoc; cbn [app]); reflexivity).
    constructor; [right; eauto|].
    change (PUS ++ t) with (PU ++ SP :: t) in Hn. rewrite no_cr_app in Hn. now apply andb_prop in Hn.
Qed.

Theorem p1_spec x hd : p1 x = Ok hd <-> spec_v1 x = Some hd.
Proof.
  rewrite p1_accepts_iff. unfold starts_with_line, spec_v1. split.
  - intros (a & rest & -> & Hn & Hl & Hu & Sh & Et).
    change (CRLF ++ rest) with (CR :: LF :: rest) in *.
    rewrite first_cr_app by assumption.
    rewrite takeN_app_exact by reflexivity.
    assert (N1 : nthN (lenN a + 1) (a ++ CR :: LF :: rest) = LF).
    { rewrite nthN_app_r by lia. replace (lenN a + 1 - lenN a) with 1 by lia. reflexivity. }
    rewrite N1, N.eqb_refl. cbn [negb orb].
    rewrite !lenN_app, !lenN_cons in *. change (lenN CRLF) with 2 in *.
    replace (lenN a + (1 + (1 + lenN rest)) <? lenN a + 2) with false by lia.
    replace (MAX_LENGTH <? lenN a + 2) with false by lia. rewrite Hu. cbn [negb].
    apply shape_spec_line in Sh; [|exact Hn]. rewrite Sh. f_equal. destruct hd as [t ad]. cbn [text addr] in *. now subst t.
  - destruct (first_cr x) as [i|] eqn:Ei; [|discriminate].
    destruct (first_cr_some x i Ei) as (a & r & -> & Ha & Hn). subst i.
    rewrite takeN_app_exact by reflexivity.
    destruct (negb (nthN (lenN a + 1) (a ++ CR :: r) =? LF) || (lenN (a ++ CR :: r) <? lenN a + 2)) eqn:E1; [discriminate|].
    apply orb_false_iff in E1 as [E1 E2]. apply negb_false_iff, N.eqb_eq in E1.
    rewrite lenN_app, lenN_cons in E2.
    destruct r as [|b rest]; [rewrite lenN_nil in E2; lia|].
    rewrite nthN_app_r in E1 by lia. replace (lenN a + 1 - lenN a) with 1 in E1 by lia.
    change (nthN 1 (CR :: b :: rest)) with b in E1. subst b.
    destruct (MAX_LENGTH <? lenN a + 2) eqn:E3; [discriminate|].
    destruct (utf8_valid (a ++ CRLF)) eqn:Eu; cbn [negb]; [|discriminate].
    destruct (spec_line a) as [ad|] eqn:Es; [|discriminate]. intros H. injection H as <-.
    exists a, rest. cbn [text addr]. repeat split; try assumption.
    + rewrite lenN_app. change (lenN CRLF) with 2. lia.
    + now apply shape_spec_line.
Qed.

(* the &str entry point, on character boundaries *)
Theorem p1s_spec s : utf8_valid s = true -> is_char_boundary s (window_end s) = true ->
  forall hd, p1s s = Ok hd <-> spec_v1 s = Some hd.
Proof.
  intros Hu Hb hd. rewrite <- p1_spec. destruct (entry_points_agree s Hu Hb) as (E & _). rewrite E.
  destruct (p1s s); cbn [map_err]; split; intros H; try discriminate; now inversion H.
Qed.

Theorem p1_rejects x : spec_v1 x = None -> exists e, p1 x = Err e.
Proof. intros H. destruct (p1 x) as [hd|e] eqn:E; [|eauto]. apply p1_spec in E. congruence. Qed.
