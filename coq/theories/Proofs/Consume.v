(* Pipelined headers (C04 carried to histories): a receiver that parses its buffer with the
   auto-detecting parser and removes exactly the reported header bytes after every success reads any
   back-to-back sequence of headers -- v1 and v2 mixed -- one by one, in order, and is left with exactly
   the bytes that follow the last one.  Unbounded in the number of headers. *)
From Coq Require Import ZArith List Lia Bool.
From PPP Require Import Base.Bytes Model.V1 Model.V2 Model.Auto Proofs.BytesFacts Proofs.V1Final Proofs.AutoProps.
Import ListNotations.
Local Open Scope N_scope.

(* a frame as a parser reports it: parsing its own bytes gives it back (C04: every accepted header is one) *)
Definition self_parsing (fr : frame) : Prop := frame_of (pa (frame_bytes fr)) = Some fr.

Lemma frame_of_ok r fr : frame_of r = Some fr -> is_ok_a r = true.
Proof. destruct r as [[h|e]|[h|e]]; cbn; intros H; try discriminate H; reflexivity. Qed.

Lemma pa_text_line x r : x = 80 :: r -> pa x = RV1 (p1 x).
Proof. intros E. rewrite pa_spec, (p2_text x r E). reflexivity. Qed.

(* C04, in the form the loop needs: what the auto-detecting parser accepts is self-parsing, and it is a
   prefix of the input, so cutting it off leaves exactly the bytes behind the header *)
Lemma accepted_is_self_parsing x fr : wf_bytes x = true -> frame_of (pa x) = Some fr ->
  self_parsing fr /\ x = frame_bytes fr ++ dropN (lenN (frame_bytes fr)) x.
Proof.
  intros Hwf H. unfold self_parsing. rewrite pa_spec in H.
  destruct (p2 x) as [h|e] eqn:E2.
  - cbn in H. injection H as <-. cbn [frame_bytes].
    assert (Hw : wf_bytes (x ++ []) = true) by (rewrite app_nil_r; exact Hwf).
    destruct (p2_trailer_independent x h [] Hw E2) as (_ & Hs & _ & Ht).
    split.
    + rewrite pa_spec, Hs. reflexivity.
    + rewrite Ht at 1. symmetry. apply takeN_dropN.
  - cbn [is_ok is_incomplete2 orb] in H.
    destruct (err2_is_incomplete e) eqn:Ei; [cbn in H; discriminate H|].
    cbn in H. destruct (p1 x) as [h1|e1] eqn:E1; [|discriminate H]. injection H as <-. cbn [frame_bytes].
    destruct (p1_trailer_independent x h1 [] E1) as (_ & Hs & Ht & _).
    split.
    + destruct (p1_ok_starts_P _ _ Hs) as [r Er]. rewrite (pa_text_line _ r Er), Hs. reflexivity.
    + rewrite Ht at 1. symmetry. apply takeN_dropN.
Qed.

(* one step of the loop on a self-parsing frame followed by anything *)
Lemma drain_step fr t : self_parsing fr -> wf_bytes (frame_bytes fr ++ t) = true ->
  frame_of (pa (frame_bytes fr ++ t)) = Some fr /\ dropN (lenN (frame_bytes fr)) (frame_bytes fr ++ t) = t.
Proof.
  intros Hs Hw. split; [|apply dropN_app_exact; reflexivity].
  rewrite (pa_trailer_independent (frame_bytes fr) (pa (frame_bytes fr)) t Hw eq_refl (frame_of_ok _ _ Hs)). exact Hs.
Qed.

(* every back-to-back sequence of headers is read one by one, in order; what follows is left untouched *)
Theorem drain_sequence fs rest :
  Forall self_parsing fs -> wf_bytes (concat (map frame_bytes fs) ++ rest) = true -> frame_of (pa rest) = None ->
  drain (S (length fs)) (concat (map frame_bytes fs) ++ rest) = (fs, rest).
Proof.
  induction fs as [|fr fs IH]; intros Hf Hw Hr.
  - cbn [map concat app length drain]. rewrite Hr. reflexivity.
  - inversion Hf as [|? ? Hfr Hfs]; subst.
    cbn [map concat length] in Hw |- *. rewrite <- app_assoc in Hw |- *.
    change (drain (S (S (length fs))) ?b) with
      (match frame_of (pa b) with
       | Some fr0 => let '(fs0, r) := drain (S (length fs)) (dropN (lenN (frame_bytes fr0)) b) in (fr0 :: fs0, r)
       | None => ([], b) end).
    destruct (drain_step fr _ Hfr Hw) as [E1 E2]. rewrite E1, E2.
    rewrite IH; [reflexivity|exact Hfs| |exact Hr].
    rewrite wf_bytes_app in Hw. apply andb_prop in Hw. apply Hw.
Qed.

(* more fuel changes nothing once the loop has stopped on the remainder *)
Theorem drain_sequence_fuel fs rest k :
  Forall self_parsing fs -> wf_bytes (concat (map frame_bytes fs) ++ rest) = true -> frame_of (pa rest) = None ->
  drain (S (length fs) + k) (concat (map frame_bytes fs) ++ rest) = (fs, rest).
Proof.
  induction fs as [|fr fs IH]; intros Hf Hw Hr.
  - cbn [map concat app length plus drain]. rewrite Hr. reflexivity.
  - inversion Hf as [|? ? Hfr Hfs]; subst.
    cbn [map concat length plus] in Hw |- *. rewrite <- app_assoc in Hw |- *.
    change (drain (S (S (length fs + k))) ?b) with
      (match frame_of (pa b) with
       | Some fr0 => let '(fs0, r) := drain (S (length fs + k)) (dropN (lenN (frame_bytes fr0)) b) in (fr0 :: fs0, r)
       | None => ([], b) end).
    destruct (drain_step fr _ Hfr Hw) as [E1 E2]. rewrite E1, E2.
    change (S (length fs + k)) with (S (length fs) + k)%nat.
    rewrite IH; [reflexivity|exact Hfs| |exact Hr].
    rewrite wf_bytes_app in Hw. apply andb_prop in Hw. apply Hw.
Qed.
