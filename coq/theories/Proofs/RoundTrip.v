(* C07 (builder output is the wire format and parses back) and C13 (re-encoding a parsed header
   reproduces it). *)
From Coq Require Import ZArith.
From PPP Require Import Base.Bytes Model.V2 Model.Builder Spec.V2Wire Spec.TlvWalk Spec.Encoder
  Proofs.BytesFacts Proofs.Tlv Proofs.V2Parse Proofs.V2Spec Proofs.V2Views Proofs.Writer Proofs.BuilderRun Proofs.BuilderProps.

(* ---- when everything fits, the build succeeds with the reference output ---- *)
Lemma chunks_fit_small cs : forall n, n + lenN (concat cs) <= WRITER_LIMIT -> chunks_fit n cs = true.
Proof.
  induction cs as [|c cs IH]; intros n H; cbn [chunks_fit concat] in *; [reflexivity|].
  rewrite lenN_app in H. rewrite IH by lia. replace (n <=? WRITER_LIMIT) with true by lia. now rewrite orb_true_r.
Qed.

Lemma items_fit_small ps : forall n, forallb (fun p => negb (oversize p)) ps = true ->
  n + lenN (enc_items ps) <= WRITER_LIMIT -> items_fit n ps = true.
Proof.
  induction ps as [|p ps IH]; intros n Hs H; [reflexivity|]. cbn [items_fit forallb] in *.
  apply andb_prop in Hs as [Hp Hs]. unfold enc_items in H. cbn [map concat] in H. rewrite lenN_app in H.
  unfold payload_fits. rewrite Hp. cbn [andb].
  rewrite chunks_fit_small by (rewrite concat_chunks_enc; lia). cbn [andb].
  apply IH; [assumption|]. unfold enc_items. lia.
Qed.

Theorem brun_success c ops : wf_ctor c = true -> wf_ops ops = true ->
  forallb (fun p => negb (oversize p)) (payloads ops) = true ->
  lenN (body c ops) <= 65535 ->
  brun c ops = BOk (expected_output c ops).
Proof.
  intros Hc Ho Hs Hb. pose proof (brun_closed c ops Hc Ho) as C. cbv zeta in C.
  assert (Hfit : items_fit (16 + lenN (enc_addrs (ctor_addrs c))) (payloads ops) = true).
  { apply items_fit_small; [assumption|]. unfold body in Hb. rewrite lenN_app in Hb.
    unfold enc_items, WRITER_LIMIT. lia. }
  destruct (brun c ops) as [out|i|].
  - destruct C as (_ & _ & ->). reflexivity.
  - congruence.
  - destruct C as (_ & _ & C). unfold U16_MAX in C. lia.
Qed.

(* ---- C07: the wire layout ---- *)
Definition is_tlv_of (p : payload) (kv : N * bytes) : Prop :=
  p = PTlv (fst kv) (snd kv) \/ p = PPair (fst kv) (snd kv).

Lemma enc_items_tlvs ps tlvs : Forall2 is_tlv_of ps tlvs ->
  enc_items ps = concat (map (fun kv => enc_tlv (fst kv) (snd kv)) tlvs)
  /\ forallb wf_payload ps = true
  /\ forallb (fun p => negb (oversize p)) ps = forallb (fun kv => lenN (snd kv) <=? 65535) tlvs.
Proof.
  induction 1 as [|p kv ps tlvs Hp _ (IH1 & IH2 & IH3)]; [repeat split|].
  assert (Hneg : negb (65535 <? lenN (snd kv)) = (lenN (snd kv) <=? 65535)) by lia.
  unfold enc_items in *. cbn [map concat forallb]. rewrite IH1, IH2, IH3.
  destruct Hp as [-> | ->]; cbn [enc_payload wf_payload oversize andb]; rewrite Hneg; repeat split.
Qed.

Lemma version_or_command_code cmd : version_or_command cmd = 32 + cmd_code cmd.
Proof. destruct cmd; reflexivity. Qed.

Theorem build_is_wire cmd tr a tlvs ops :
  wf_addresses a = true ->
  Forall2 is_tlv_of (payloads ops) tlvs -> in_force ops = None ->
  forallb (fun kv => lenN (snd kv) <=? 65535) tlvs = true ->
  lenN (enc_addrs a ++ concat (map (fun kv => enc_tlv (fst kv) (snd kv)) tlvs)) <= 65535 ->
  brun (CWith (version_or_command cmd) tr a) ops = BOk (wire cmd tr a tlvs).
Proof.
  intros Ha Hp Hf Hs Hl. destruct (enc_items_tlvs _ _ Hp) as (He & Hw & Hb).
  rewrite brun_success.
  - unfold expected_output, wire, length_field, body. rewrite Hf.
    cbn [ctor_vc ctor_afp ctor_addrs]. fold (enc_items (payloads ops)). rewrite He, version_or_command_code. reflexivity.
  - exact Ha.
  - exact Hw.
  - now rewrite Hb.
  - unfold body. cbn [ctor_addrs]. fold (enc_items (payloads ops)). now rewrite He.
Qed.

(* the plain write_tlv form *)
Definition tlv_ops (tlvs : list (N * bytes)) : list bop := map (fun kv => WriteTlv (fst kv) (snd kv)) tlvs.
Lemma tlv_ops_payloads tlvs : Forall2 is_tlv_of (payloads (tlv_ops tlvs)) tlvs /\ in_force_from None (tlv_ops tlvs) = None.
Proof.
  induction tlvs as [|kv tlvs [IH1 IH2]]; [split; [constructor|reflexivity]|].
  cbn [tlv_ops map payloads in_force_from]. split; [|exact IH2]. constructor; [now left|exact IH1].
Qed.

(* ---- encode / decode of the address block ---- *)
Lemma be2_enc sp t : sp < 65536 -> be2 (sp / 256 :: sp mod 256 :: t) = sp.
Proof. intros H. cbn [be2]. lia. Qed.

Ltac destr_exact l n :=
  let rec go n := lazymatch n with
    | O => destruct l; [|exfalso; repeat rewrite lenN_cons in *; lia]
    | S ?k => let b := fresh "b" in destruct l as [|b l];
              [exfalso; repeat rewrite lenN_cons in *; rewrite ?lenN_nil in *; lia| go k]
    end in go n.

Lemma firstn_app_exact {A} (a b : list A) n : length a = n -> firstn n (a ++ b) = a.
Proof. intros <-. rewrite firstn_app, Nat.sub_diag, firstn_all. cbn. apply app_nil_r. Qed.
Lemma skipn_app_exact {A} (a b : list A) n : length a = n -> skipn n (a ++ b) = b.
Proof. intros <-. rewrite skipn_app, Nat.sub_diag, skipn_all. reflexivity. Qed.

Lemma decode_enc a t : wf_addresses a = true -> decode_addrs (address_family a) (enc_addrs a ++ t) = a.
Proof.
  destruct a as [|sa da sp dp|sa da sp dp|s d]; cbn [wf_addresses address_family enc_addrs decode_addrs]; intros H.
  - reflexivity.
  - repeat (apply andb_prop in H as [H ?]).
    destr_exact sa 4%nat. destr_exact da 4%nat.
    cbn [app firstn skipn be2]. f_equal; lia.
  - repeat (apply andb_prop in H as [H ?]).
    destr_exact sa 16%nat. destr_exact da 16%nat.
    cbn [app firstn skipn be2]. f_equal; lia.
  - apply andb_prop in H as [H1 H2].
    assert (L1 : length s = 108%nat) by (rewrite lenN_length in *; lia).
    assert (L2 : length d = 108%nat) by (rewrite lenN_length in *; lia).
    rewrite <- !app_assoc. rewrite (firstn_app_exact s _ 108 L1), (skipn_app_exact s _ 108 L1).
    now rewrite (firstn_app_exact d _ 108 L2).
Qed.

Lemma enc_addrs_fam_size a : wf_addresses a = true -> lenN (enc_addrs a) = fam_size (address_family a).
Proof. intros H. rewrite <- wf_addresses_len by assumption. destruct a; reflexivity. Qed.

Definition wf_addr_bytes (a : addresses) : bool :=
  match a with
  | AUnspec => true
  | AIPv4 sa da _ _ | AIPv6 sa da _ _ => wf_bytes sa && wf_bytes da
  | AUnix s d => wf_bytes s && wf_bytes d
  end.

Lemma wf_enc_addrs a : wf_addresses a = true -> wf_addr_bytes a = true -> wf_bytes (enc_addrs a) = true.
Proof.
  destruct a as [|sa da sp dp|sa da sp dp|s d]; cbn [wf_addresses wf_addr_bytes enc_addrs]; intros H W; [reflexivity| | |].
  - repeat (apply andb_prop in H as [H ?]). apply andb_prop in W as [W1 W2].
    rewrite !wf_bytes_app, W1, W2. cbn [wf_bytes forallb andb]. unfold is_byte.
    replace (sp / 256 <? 256) with true by lia. replace (sp mod 256 <? 256) with true by lia.
    replace (dp / 256 <? 256) with true by lia. replace (dp mod 256 <? 256) with true by lia. reflexivity.
  - repeat (apply andb_prop in H as [H ?]). apply andb_prop in W as [W1 W2].
    rewrite !wf_bytes_app, W1, W2. cbn [wf_bytes forallb andb]. unfold is_byte.
    replace (sp / 256 <? 256) with true by lia. replace (sp mod 256 <? 256) with true by lia.
    replace (dp / 256 <? 256) with true by lia. replace (dp mod 256 <? 256) with true by lia. reflexivity.
  - apply andb_prop in W as [W1 W2]. now rewrite wf_bytes_app, W1, W2.
Qed.

(* ---- C07: the built header parses back ---- *)
Lemma cmd_nibble cmd : (32 + cmd_code cmd) / 16 = 2 /\ cmd_of_nibble ((32 + cmd_code cmd) mod 16) = Some cmd.
Proof. destruct cmd; split; reflexivity. Qed.
Lemma fp_nibbles a tr :
  fam_of_nibble ((16 * fam_idx a + tr_code tr) / 16) = Some (address_family a)
  /\ proto_of_nibble ((16 * fam_idx a + tr_code tr) mod 16) = Some tr.
Proof. destruct a, tr; split; reflexivity. Qed.

Definition tlvs_payload (tlvs : list (N * bytes)) : bytes := concat (map (fun kv => enc_tlv (fst kv) (snd kv)) tlvs).

Theorem wire_parses cmd tr a tlvs :
  wf_addresses a = true -> wf_addr_bytes a = true -> wf_bytes (tlvs_payload tlvs) = true ->
  lenN (enc_addrs a ++ tlvs_payload tlvs) <= 65535 ->
  p2 (wire cmd tr a tlvs) = Ok {| hbytes := wire cmd tr a tlvs; hcommand := cmd; hprotocol := tr; haddresses := a |}.
Proof.
  intros Ha Hab Ht Hl. unfold wire. fold (tlvs_payload tlvs).
  set (pl := enc_addrs a ++ tlvs_payload tlvs) in *. set (n := lenN pl) in *.
  cbn [app]. change (SIG ++ (32 + cmd_code cmd) :: (16 * fam_idx a + tr_code tr) :: n / 256 :: n mod 256 :: pl)
    with (SIG ++ (32 + cmd_code cmd) :: (16 * fam_idx a + tr_code tr) :: n / 256 :: n mod 256 :: pl).
  assert (Hvc : 32 + cmd_code cmd < 256) by (destruct cmd; cbn; lia).
  assert (Hfp : 16 * fam_idx a + tr_code tr < 256) by (destruct a, tr; cbn; lia).
  rewrite p2_on_shape by lia.
  apply p2_ref_ok; [lia|lia|].
  destruct (cmd_nibble cmd) as [C1 C2]. destruct (fp_nibbles a tr) as [F1 F2].
  exists cmd, (address_family a), tr.
  replace (256 * (n / 256) + n mod 256) with n by lia.
  repeat split; try assumption.
  - rewrite <- enc_addrs_fam_size by assumption. unfold n, pl. rewrite lenN_app. lia.
  - lia.
  - rewrite takeN_all by lia. f_equal. unfold pl. symmetry. now apply decode_enc.
Qed.

(* the TLV sequence read back from an encoded list *)
Lemma Walk_enc tlvs : Walk (tlvs_payload tlvs) (map (fun kv => SOk (fst kv) (snd kv)) tlvs).
Proof.
  induction tlvs as [|[k v] tlvs IH]; [constructor|].
  unfold tlvs_payload in *. cbn [map concat fst snd]. unfold enc_tlv. cbn [app].
  apply WalkItem; [lia|exact IH].
Qed.

Theorem collect_enc tlvs : collect (tlvs_payload tlvs) = Some (map (fun kv => TOk (fst kv) (snd kv)) tlvs).
Proof.
  destruct (collect_walk (tlvs_payload tlvs)) as (items & Hw & Hc).
  rewrite (Walk_functional _ _ _ Hw (Walk_enc tlvs)) in Hc. rewrite Hc, map_map. reflexivity.
Qed.

Lemma tlv_view_of_wire cmd tr a tlvs : wf_addresses a = true -> a <> AUnspec ->
  lenN (enc_addrs a ++ tlvs_payload tlvs) <= 65535 ->
  h_tlv_bytes {| hbytes := wire cmd tr a tlvs; hcommand := cmd; hprotocol := tr; haddresses := a |} = tlvs_payload tlvs.
Proof.
  intros Ha Hn Hl. unfold h_tlv_bytes, h_address_bytes_end, h_length, h_address_family, MINIMUM_LENGTH.
  cbn [hbytes haddresses]. unfold wire. fold (tlvs_payload tlvs).
  set (pl := enc_addrs a ++ tlvs_payload tlvs) in *.
  assert (Hd : dropN 16 (SIG ++ [32 + cmd_code cmd; 16 * fam_idx a + tr_code tr] ++ [lenN pl / 256; lenN pl mod 256] ++ pl) = pl).
  { cbn [SIG app]. destruct pl; reflexivity. }
  rewrite Hd.
  assert (Hbl : byte_length (address_family a) = Some (lenN (enc_addrs a))).
  { rewrite enc_addrs_fam_size by assumption. destruct a; try reflexivity. contradiction. }
  rewrite Hbl. replace (N.min (lenN (enc_addrs a)) (lenN pl)) with (lenN (enc_addrs a)) by (unfold pl; rewrite lenN_app; lia).
  rewrite <- dropN_dropN, Hd. unfold pl. now rewrite dropN_app_exact.
Qed.

(* ---- C13 ---- *)
Lemma vc_of_cmd vc cmd : vc < 256 -> vc / 16 = 2 -> cmd_of_nibble (vc mod 16) = Some cmd -> version_or_command cmd = vc.
Proof.
  intros H1 H2 H3. assert (E : vc = 32 + vc mod 16) by lia. assert (Hm : vc mod 16 < 16) by lia.
  destruct (vc mod 16) as [|[[p|p|]|[p|p|]|]]; cbn in H3; try discriminate; injection H3 as <-; rewrite E; reflexivity.
Qed.

Lemma fp_of_parts fp fam proto : fp < 256 -> fam_of_nibble (fp / 16) = Some fam -> proto_of_nibble (fp mod 16) = Some proto ->
  protocol_or_family proto fam = fp /\ forall rest, 16 * fam_idx (decode_addrs fam rest) + tr_code proto = fp.
Proof.
  intros H Hf Hp. assert (E : fp = 16 * (fp / 16) + fp mod 16) by lia.
  destruct (fp / 16) as [|[[p|p|]|[p|p|]|]]; cbn in Hf; try discriminate; injection Hf as <-;
  destruct (fp mod 16) as [|[[p|p|]|[p|p|]|]]; cbn in Hp; try discriminate; injection Hp as <-;
  rewrite E; split; try intros rest; reflexivity.
Qed.

(* the general form: any history whose payloads encode to the payload of the header *)
Theorem rebuild_from_parts x h ops : wf_bytes x = true -> p2 x = Ok h ->
  wf_ops ops = true -> forallb (fun p => negb (oversize p)) (payloads ops) = true -> in_force ops = None ->
  enc_items (payloads ops) = dropN 16 (hbytes h) ->
  brun (CNew (version_or_command (hcommand h)) (protocol_or_family (hprotocol h) (h_address_family h))) ops = BOk (hbytes h).
Proof.
  intros Hwf H Hwo Hs Hf He.
  destruct (p2_ok_form x h Hwf H) as (vc & fp & hi & lo & rest & cmd & fam & proto & -> & Hvc & Hfp & Hhi & Hlo & Hr
                                       & Hv & Hc & Hfm & Hp & H1 & H2 & Eh).
  assert (Evc : version_or_command (hcommand h) = vc) by (subst h; cbn [hcommand]; now apply vc_of_cmd).
  assert (Eafp : protocol_or_family (hprotocol h) (h_address_family h) = fp).
  { subst h. unfold h_address_family. cbn [hprotocol haddresses]. rewrite family_of_decode. now apply fp_of_parts. }
  rewrite Evc, Eafp.
  assert (Hd : dropN 16 (hbytes h) = takeN (256 * hi + lo) rest).
  { subst h. cbn [hbytes SIG app]. destruct (takeN _ rest); reflexivity. }
  assert (Hn : lenN (takeN (256 * hi + lo) rest) = 256 * hi + lo) by (rewrite lenN_takeN; lia).
  assert (Hb : body (CNew vc fp) ops = takeN (256 * hi + lo) rest).
  { unfold body. cbn [ctor_addrs enc_addrs app]. fold (enc_items (payloads ops)). now rewrite He. }
  rewrite brun_success; try assumption; try reflexivity.
  - unfold expected_output, length_field. rewrite Hf, Hb, Hn. cbn [ctor_vc ctor_afp].
    replace ((256 * hi + lo) / 256) with hi by lia. replace ((256 * hi + lo) mod 256) with lo by lia.
    subst h. reflexivity.
  - rewrite Hb, Hn. lia.
Qed.

Lemma payload_small x h : wf_bytes x = true -> p2 x = Ok h ->
  lenN (h_address_bytes h) <= 65535 /\ lenN (h_tlv_bytes h) <= 65535 /\ wf_bytes (hbytes h) = true.
Proof.
  intros Hwf H. destruct (views_partition x h Hwf H) as (Hcat & _).
  destruct (p2_ok_form x h Hwf H) as (vc & fp & hi & lo & rest & cmd & fam & proto & -> & Hvc & Hfp & Hhi & Hlo & Hr
                                       & Hv & Hc & Hfm & Hp & H1 & H2 & Eh).
  assert (L : lenN (h_address_bytes h ++ h_tlv_bytes h) <= 65535).
  { rewrite Hcat. subst h. cbn [hbytes]. rewrite lenN_dropN, lenN_app, !lenN_cons, lenN_SIG, lenN_takeN. lia. }
  rewrite lenN_app in L. repeat split; try lia.
  subst h. cbn [hbytes]. rewrite wf_bytes_app, !wf_bytes_cons, wf_bytes_takeN by assumption.
  replace (vc <? 256) with true by lia. replace (fp <? 256) with true by lia.
  replace (hi <? 256) with true by lia. replace (lo <? 256) with true by lia. reflexivity.
Qed.

Theorem rebuild_raw x h : wf_bytes x = true -> p2 x = Ok h ->
  let c := CNew (version_or_command (hcommand h)) (protocol_or_family (hprotocol h) (h_address_family h)) in
  brun c [WritePayload (PBytes (h_address_bytes h)); WritePayload (PBytes (h_tlv_bytes h))] = BOk (hbytes h)
  /\ forall cursor, brun c [WritePayload (PBytes (h_address_bytes h)); WritePayload (PSection (h_tlv_bytes h) cursor)] = BOk (hbytes h).
Proof.
  intros Hwf H. destruct (views_partition x h Hwf H) as (Hcat & _).
  destruct (payload_small x h Hwf H) as (La & Lt & _). cbv zeta.
  split; [|intros cursor]; apply (rebuild_from_parts x h); try assumption; try reflexivity.
  - cbn [payloads forallb oversize negb andb]. replace (65535 <? lenN (h_address_bytes h)) with false by lia.
    replace (65535 <? lenN (h_tlv_bytes h)) with false by lia. reflexivity.
  - unfold enc_items. cbn [payloads map concat enc_payload]. now rewrite app_nil_r.
  - cbn [payloads forallb oversize negb andb]. replace (65535 <? lenN (h_address_bytes h)) with false by lia. reflexivity.
  - unfold enc_items. cbn [payloads map concat enc_payload]. now rewrite app_nil_r.
Qed.

(* the decoded items re-encode to the section when it is well-formed *)
Definition item_ok (i : tlv_item) : bool := match i with TOk _ _ => true | TErr _ => false end.
Definition item_payload (i : tlv_item) : payload := match i with TOk k v => PTlv k v | TErr _ => PBytes [] end.

Lemma section_of_items s items : wf_bytes s = true -> lenN s <= 65535 -> collect s = Some items -> forallb item_ok items = true ->
  enc_items (map item_payload items) = s /\ forallb (fun p => negb (oversize p)) (map item_payload items) = true.
Proof.
  intros Hwf El Hc Hok.
  destruct (collect_walk s) as (w & Hw & Hc'). rewrite Hc in Hc'. injection Hc' as ->.
  destruct (Walk_tile s w Hwf Hw) as (rest & Hs & Hrest).
  assert (Hall : forallb is_sok w = true).
  { clear -Hok. induction w as [|i w IH]; [reflexivity|]. cbn [map forallb] in *. apply andb_prop in Hok as [H1 H2].
    rewrite IH by assumption. destruct i; cbn in *; congruence. }
  rewrite (Hrest Hall), app_nil_r in Hs.
  assert (Henc : forall w', forallb is_sok w' = true ->
     enc_items (map item_payload (map (item_abs (lenN s)) w')) = concat (map enc_sitem w')).
  { induction w' as [|i w' IH]; intros Hw'; [reflexivity|]. cbn [forallb] in Hw'. apply andb_prop in Hw' as [H1 H2].
    unfold enc_items in *. cbn [map concat]. rewrite IH by assumption. destruct i; try discriminate. reflexivity. }
  split; [rewrite Henc by assumption; now symmetry|].
  assert (Hsmall : forall w', forallb is_sok w' = true -> lenN (concat (map enc_sitem w')) <= 65535 ->
     forallb (fun p => negb (oversize p)) (map item_payload (map (item_abs (lenN s)) w')) = true).
  { induction w' as [|i w' IH]; intros Hw' Hl; [reflexivity|]. cbn [forallb] in Hw'. apply andb_prop in Hw' as [H1 H2].
    cbn [map concat forallb] in *. rewrite lenN_app in Hl. rewrite IH by (assumption || lia).
    destruct i; try discriminate. cbn [item_abs item_payload oversize enc_sitem] in *. rewrite !lenN_cons in Hl.
    replace (65535 <? lenN v) with false by lia. reflexivity. }
  apply Hsmall; [assumption|]. rewrite <- Hs. lia.
Qed.

Lemma wf_item_payloads items : forallb wf_payload (map item_payload items) = true.
Proof. induction items as [|i items IH]; [reflexivity|]. cbn [map forallb]. rewrite IH. destruct i; reflexivity. Qed.

Theorem rebuild_items x h items : wf_bytes x = true -> p2 x = Ok h ->
  collect (h_tlv_bytes h) = Some items -> forallb item_ok items = true ->
  brun (CNew (version_or_command (hcommand h)) (protocol_or_family (hprotocol h) (h_address_family h)))
       [WritePayload (PBytes (h_address_bytes h)); WritePayloads (map item_payload items)] = BOk (hbytes h).
Proof.
  intros Hwf H Hc Hok. destruct (views_partition x h Hwf H) as (Hcat & _).
  destruct (payload_small x h Hwf H) as (La & Lt & Hwh).
  assert (Hwt : wf_bytes (h_tlv_bytes h) = true) by (unfold h_tlv_bytes; now apply wf_bytes_dropN).
  destruct (section_of_items _ _ Hwt Lt Hc Hok) as [Henc Hfit].
  apply (rebuild_from_parts x h); try assumption; try reflexivity.
  - unfold wf_ops. cbn [payloads]. rewrite app_nil_r. cbn [forallb wf_payload andb]. apply wf_item_payloads.
  - cbn [payloads]. rewrite app_nil_r. cbn [forallb oversize negb]. replace (65535 <? lenN (h_address_bytes h)) with false by lia.
    exact Hfit.
  - cbn [payloads]. rewrite app_nil_r. unfold enc_items in *. cbn [map concat enc_payload]. now rewrite Henc.
Qed.

(* rebuilding from the decoded address value, when a family is specified *)
Lemma decode_addrs_wf fam rest : wf_bytes rest = true -> fam_size fam <= lenN rest ->
  wf_addresses (decode_addrs fam rest) = true /\ enc_addrs (decode_addrs fam rest) = takeN (fam_size fam) rest.
Proof.
  intros Hwf Hl. destruct fam; cbn [fam_size decode_addrs] in *.
  - split; [reflexivity|]. now rewrite takeN_0.
  - destr_list rest 12%nat. rewrite !wf_bytes_cons in Hwf. repeat (apply andb_prop in Hwf as [? Hwf]).
    cbn [firstn skipn be2 wf_addresses enc_addrs lenN app]. split.
    + replace (256 * b7 + b8 <? 65536) with true by lia. replace (256 * b9 + b10 <? 65536) with true by lia. reflexivity.
    + replace ((256 * b7 + b8) / 256) with b7 by lia. replace ((256 * b7 + b8) mod 256) with b8 by lia.
      replace ((256 * b9 + b10) / 256) with b9 by lia. replace ((256 * b9 + b10) mod 256) with b10 by lia.
      destruct rest; reflexivity.
  - destr_list rest 36%nat. rewrite !wf_bytes_cons in Hwf. repeat (apply andb_prop in Hwf as [? Hwf]).
    cbn [firstn skipn be2 wf_addresses enc_addrs lenN app]. split.
    + replace (256 * b31 + b32 <? 65536) with true by lia. replace (256 * b33 + b34 <? 65536) with true by lia. reflexivity.
    + replace ((256 * b31 + b32) / 256) with b31 by lia. replace ((256 * b31 + b32) mod 256) with b32 by lia.
      replace ((256 * b33 + b34) / 256) with b33 by lia. replace ((256 * b33 + b34) mod 256) with b34 by lia.
      destruct rest; reflexivity.
  - cbn [wf_addresses enc_addrs]. change 108%nat with (N.to_nat 108). rewrite <- !takeN_firstn, <- dropN_skipn. split.
    + rewrite !lenN_takeN, lenN_dropN. replace (N.min 108 (lenN rest) =? 108) with true by lia.
      replace (N.min 108 (lenN rest - 108) =? 108) with true by lia. reflexivity.
    + rewrite <- (takeN_dropN 108 (takeN 216 rest)). rewrite takeN_takeN. f_equal.
      rewrite <- (takeN_dropN 108 rest) at 2. rewrite takeN_app_ge by (rewrite lenN_takeN; lia).
      rewrite dropN_app_exact by (rewrite lenN_takeN; lia). rewrite lenN_takeN. f_equal. lia.
Qed.

Theorem rebuild_value x h ops : wf_bytes x = true -> p2 x = Ok h -> h_address_family h <> FUnspec ->
  wf_ops ops = true -> forallb (fun p => negb (oversize p)) (payloads ops) = true -> in_force ops = None ->
  enc_items (payloads ops) = h_tlv_bytes h ->
  brun (CWith (version_or_command (hcommand h)) (hprotocol h) (haddresses h)) ops = BOk (hbytes h).
Proof.
  intros Hwf H Hfam Hwo Hs Hf He. destruct (views_partition x h Hwf H) as (Hcat & Hsz & _ & _ & _ & _ & _ & Hdec & _).
  destruct (p2_ok_form x h Hwf H) as (vc & fp & hi & lo & rest & cmd & fam & proto & -> & Hvc & Hfp & Hhi & Hlo & Hr
                                       & Hv & Hc & Hfm & Hp & H1 & H2 & Eh).
  assert (Evc : version_or_command (hcommand h) = vc) by (subst h; cbn [hcommand]; now apply vc_of_cmd).
  destruct (decode_addrs_wf fam rest Hr) as [Hwa Henc]; [lia|].
  assert (Ea : haddresses h = decode_addrs fam rest) by (subst h; reflexivity).
  assert (Efam : h_address_family h = fam) by (subst h; apply family_of_decode).
  assert (Hd : dropN 16 (hbytes h) = takeN (256 * hi + lo) rest).
  { subst h. cbn [hbytes SIG app]. destruct (takeN _ rest); reflexivity. }
  assert (Hab : h_address_bytes h = takeN (fam_size fam) rest).
  { assert (L : lenN (h_address_bytes h) = fam_size fam) by (rewrite Hsz, Efam; destruct fam; try reflexivity; congruence).
    assert (P : takeN (fam_size fam) (h_address_bytes h ++ h_tlv_bytes h) = h_address_bytes h) by now apply takeN_app_exact.
    rewrite Hcat, Hd, takeN_takeN in P. rewrite <- P. f_equal. lia. }
  assert (Hb : body (CWith vc (hprotocol h) (haddresses h)) ops = takeN (256 * hi + lo) rest).
  { unfold body. cbn [ctor_addrs]. fold (enc_items (payloads ops)). rewrite He, Ea, Henc, <- Hab, Hcat. exact Hd. }
  assert (Hn : lenN (takeN (256 * hi + lo) rest) = 256 * hi + lo) by (rewrite lenN_takeN; lia).
  rewrite Evc. rewrite brun_success; try assumption.
  - unfold expected_output, length_field. rewrite Hf, Hb, Hn. cbn [ctor_vc ctor_afp].
    replace ((256 * hi + lo) / 256) with hi by lia. replace ((256 * hi + lo) mod 256) with lo by lia.
    rewrite Ea. destruct (fp_of_parts fp fam proto Hfp Hfm Hp) as [_ Efp].
    replace (hprotocol h) with proto by (subst h; reflexivity). rewrite Efp. subst h. reflexivity.
  - unfold wf_ctor. cbn [ctor_addrs]. now rewrite Ea.
  - rewrite Hb, Hn. lia.
Qed.
