(* Ipv6Addr::from_str / Display for Ipv6Addr models: round trip, character set, shape. *)
From PPP Require Import Base.Bytes Std.Num Std.Ip Spec.V1Grammar Proofs.BytesFacts.

Definition wf_groups (gs : list N) : Prop := length gs = 8%nat /\ Forall (fun g => g < 65536) gs.

(* ---------- finite sweeps ---------- *)
Fixpoint allfrom (k : nat) (s : N) (P : N -> bool) : bool :=
  match k with O => true | S k' => P s && allfrom k' (N.succ s) P end.

Lemma allfrom_spec P : forall k s, allfrom k s P = true -> forall n, s <= n < s + N.of_nat k -> P n = true.
Proof.
  induction k as [|k IH]; intros s H n Hn; [lia|].
  cbn [allfrom] in H. apply andb_prop in H as [H1 H2].
  destruct (N.eq_dec n s) as [->|Hne]; [assumption|].
  apply (IH (N.succ s) H2). lia.
Qed.

Lemma sweep (P : N -> bool) (b : N) :
  allfrom (N.to_nat b) 0 P = true -> forall n, n < b -> P n = true.
Proof. intros H n Hn. apply (allfrom_spec P _ _ H). lia. Qed.

(* ---------- read_digits ---------- *)
Definition stops (radix : N) (l : bytes) : bool :=
  match l with
  | [] => true
  | c :: _ => match to_digit radix c with None => true | Some _ => false end
  end.

Lemma read_digits_app radix R : forall l acc cnt v c r,
  read_digits radix l acc cnt = (v, c, r) -> (r = [] -> stops radix R = true) ->
  read_digits radix (l ++ R) acc cnt = (v, c, r ++ R).
Proof.
  induction l as [|x l IH]; intros acc cnt v c r H HR.
  - cbn [read_digits] in H. injection H as <- <- <-. cbn [app]. specialize (HR eq_refl).
    destruct R as [|y R]; [reflexivity|]. cbn [read_digits]. cbn [stops] in HR.
    destruct (to_digit radix y); [discriminate|reflexivity].
  - cbn [app read_digits] in *. destruct (to_digit radix x) as [d|].
    + apply IH; assumption.
    + injection H as <- <- <-. reflexivity.
Qed.

Lemma read_digits_suffix radix : forall l acc cnt v c r,
  read_digits radix l acc cnt = (v, c, r) -> exists p, l = p ++ r.
Proof.
  induction l as [|x l IH]; intros acc cnt v c r H.
  - cbn [read_digits] in H. injection H as <- <- <-. exists []. reflexivity.
  - cbn [read_digits] in H. destruct (to_digit radix x) as [d|].
    + apply IH in H. destruct H as [p ->]. exists (x :: p). reflexivity.
    + injection H as <- <- <-. exists []. reflexivity.
Qed.

Lemma read_digits_stop radix l acc cnt : stops radix l = true -> read_digits radix l acc cnt = (acc, cnt, l).
Proof.
  destruct l as [|x l]; [reflexivity|]. cbn [stops read_digits].
  destruct (to_digit radix x); [discriminate|reflexivity].
Qed.

Lemma read_number_stop radix maxd bound z l : stops radix l = true -> read_number radix maxd bound z l = None.
Proof.
  intros H. unfold read_number. rewrite (read_digits_stop _ _ _ _ H). reflexivity.
Qed.

Lemma read_number_inv radix maxd bound z l v r :
  read_number radix maxd bound z l = Some (v, r) -> v <= bound /\ exists p, l = p ++ r.
Proof.
  unfold read_number. destruct (read_digits radix l 0 0) as [[v' c'] r'] eqn:E.
  destruct ((c' =? 0) || (maxd <? c')); [discriminate|].
  destruct (negb z && _ && _); [discriminate|].
  destruct (bound <? v') eqn:Eb; [discriminate|]. intros H. injection H as <- <-.
  split; [lia|]. eapply read_digits_suffix; eassumption.
Qed.

(* ---------- hex groups ---------- *)
Definition hexch (ch : N) : bool := is_hex ch && negb (ch =? 46) && negb (ch =? 58).
Definition chk_hex (g : N) : bool :=
  let '(v, c, r) := read_digits 16 (fmt_hex g) 0 0 in
  (v =? g) && (1 <=? c) && (c <=? 4) && isnil r && forallb hexch (fmt_hex g) && (lenN (fmt_hex g) <=? 4).

Lemma chk_hex_all : forall g, g < 65536 -> chk_hex g = true.
Proof. apply sweep. vm_compute. reflexivity. Qed.

Lemma hex_facts g : g < 65536 ->
  (exists c, read_digits 16 (fmt_hex g) 0 0 = (g, c, []) /\ 1 <= c <= 4) /\
  forallb hexch (fmt_hex g) = true /\ lenN (fmt_hex g) <= 4.
Proof.
  intros Hg. pose proof (chk_hex_all g Hg) as H. unfold chk_hex in H.
  destruct (read_digits 16 (fmt_hex g) 0 0) as [[v c] r].
  rewrite !andb_true_iff in H. destruct H as [[[[[H1 H2] H3] H4] H5] H6].
  destruct r; [|discriminate]. apply N.eqb_eq in H1. subst v.
  split; [exists c; split; [reflexivity|lia]|]. split; [assumption|lia].
Qed.

Lemma read_hex_fmt g R : g < 65536 -> stops 16 R = true ->
  read_number 16 4 65535 true (fmt_hex g ++ R) = Some (g, R).
Proof.
  intros Hg HR. destruct (hex_facts g Hg) as [(c & Hrd & Hc) _].
  unfold read_number. rewrite (read_digits_app _ _ _ _ _ _ _ _ Hrd (fun _ => HR)).
  cbn [app negb andb].
  destruct ((c =? 0) || (4 <? c)) eqn:E1; [lia|]. destruct (65535 <? g) eqn:E2; [lia|]. reflexivity.
Qed.

(* ---------- leading-zero flag ---------- *)
Lemma lead0_cons (c : N) (r : bytes) :
  match c :: r with 48 :: _ => true | _ => false end = (c =? 48).
Proof.
  destruct (N.eqb_spec c 48) as [->|Hne]; [reflexivity|].
  destruct c as [|p]; [reflexivity|].
  do 6 (destruct p as [p|p|]; try reflexivity). all: try congruence.
Qed.

(* ---------- decimal octets ---------- *)
Definition decch (ch : N) : bool := is_digit ch.
Definition chk_dec (n : N) : bool :=
  match fmt_dec n with
  | [] => false
  | c0 :: ds =>
    let '(v, c, r) := read_digits 10 (c0 :: ds) 0 0 in
    (v =? n) && (1 <=? c) && (c <=? 3) && isnil r && negb ((c0 =? 48) && (1 <? c))
    && forallb is_digit (c0 :: ds) && (lenN (c0 :: ds) <=? 3)
  end.

Lemma chk_dec_all : forall n, n < 256 -> chk_dec n = true.
Proof. apply sweep. vm_compute. reflexivity. Qed.

Lemma read_octet_fmt n R : n < 256 -> stops 10 R = true -> read_octet (fmt_dec n ++ R) = Some (n, R).
Proof.
  intros Hn HR. pose proof (chk_dec_all n Hn) as H. unfold chk_dec in H.
  destruct (fmt_dec n) as [|c0 ds]; [discriminate|].
  destruct (read_digits 10 (c0 :: ds) 0 0) as [[v c] r] eqn:Hrd.
  rewrite !andb_true_iff in H. destruct H as [[[[[[H1 H2] H3] H4] H5] H6] H7].
  destruct r; [|discriminate]. apply N.eqb_eq in H1. subst v.
  unfold read_octet, read_number. rewrite (read_digits_app _ _ _ _ _ _ _ _ Hrd (fun _ => HR)).
  cbn [app]. rewrite (lead0_cons c0 (ds ++ R)). cbn [negb andb].
  destruct ((c =? 0) || (3 <? c)) eqn:E1; [lia|].
  destruct ((c0 =? 48) && (1 <? c)) eqn:E2; [discriminate|].
  destruct (255 <? n) eqn:E3; [lia|]. reflexivity.
Qed.

Lemma dec_facts n : n < 256 -> forallb is_digit (fmt_dec n) = true /\ lenN (fmt_dec n) <= 3.
Proof.
  intros Hn. pose proof (chk_dec_all n Hn) as H. unfold chk_dec in H.
  destruct (fmt_dec n) as [|c0 ds]; [discriminate|].
  destruct (read_digits 10 (c0 :: ds) 0 0) as [[v c] r] eqn:Hrd.
  rewrite !andb_true_iff in H. destruct H as [[[[[[H1 H2] H3] H4] H5] H6] H7].
  split; [assumption|lia].
Qed.

Lemma read_ipv4_fmt a b c d : a < 256 -> b < 256 -> c < 256 -> d < 256 ->
  read_ipv4 (fmt_ipv4 [a; b; c; d]) = Some ([a; b; c; d], []).
Proof.
  intros Ha Hb Hc Hd. unfold fmt_ipv4. cbn [map join]. unfold read_ipv4, read_sep.
  assert (S46 : forall X, stops 10 (46 :: X) = true) by (intros X; reflexivity).
  rewrite read_octet_fmt by auto. cbn [read_char]. rewrite N.eqb_refl.
  rewrite read_octet_fmt by auto. cbn [read_char]. rewrite N.eqb_refl.
  rewrite read_octet_fmt by auto. cbn [read_char]. rewrite N.eqb_refl.
  rewrite <- (app_nil_r (fmt_dec d)). rewrite read_octet_fmt by auto. reflexivity.
Qed.

Lemma forallb_imp {A} (P Q : A -> bool) (l : list A) :
  (forall x, P x = true -> Q x = true) -> forallb P l = true -> forallb Q l = true.
Proof.
  intros HPQ. induction l as [|x l IH]; [reflexivity|]. cbn [forallb]. intros H.
  apply andb_prop in H as [H1 H2]. rewrite (HPQ _ H1), (IH H2). reflexivity.
Qed.

(* ---------- texts without '.' are not IPv4 addresses ---------- *)
Definition nodot (l : bytes) : bool := forallb (fun c => negb (c =? 46)) l.

Lemma nodot_app l r : nodot (l ++ r) = nodot l && nodot r.
Proof. apply forallb_app. Qed.

Lemma read_ipv4_nodot l : nodot l = true -> read_ipv4 l = None.
Proof.
  intros H. unfold read_ipv4. unfold read_sep at 1.
  destruct (read_octet l) as [[a r]|] eqn:E; [|reflexivity].
  apply read_number_inv in E as [_ [p ->]]. rewrite nodot_app in H. apply andb_prop in H as [_ H].
  unfold read_sep, read_char. destruct r as [|x r]; [reflexivity|].
  cbn [nodot forallb] in H. apply andb_prop in H as [H _].
  destruct (x =? 46); [discriminate|reflexivity].
Qed.

Lemma nodot_hex g : g < 65536 -> nodot (fmt_hex g) = true.
Proof.
  intros Hg. destruct (hex_facts g Hg) as (_ & H & _). revert H. apply forallb_imp.
  intros x. unfold hexch. intros Hx. apply andb_prop in Hx as [Hx _]. apply andb_prop in Hx as [_ Hx]. exact Hx.
Qed.

(* ---------- read_groups on formatted groups ---------- *)
Definition endR (R : bytes) : Prop := R = [] \/ exists X, R = 58 :: 58 :: X.

Lemma endR_stops R : endR R -> stops 16 R = true.
Proof. intros [->|[X ->]]; reflexivity. Qed.

Lemma read_groups_end fuel limit i acc R : endR R -> read_groups fuel limit i acc R = (acc, false, R).
Proof.
  intros HR. destruct fuel as [|f]; [reflexivity|]. cbn [read_groups].
  assert (H4 : read_sep 58 i read_ipv4 R = None).
  { destruct HR as [->|[X ->]]; destruct i; reflexivity. }
  assert (H6 : read_sep 58 i (read_number 16 4 65535 true) R = None).
  { destruct HR as [->|[X ->]]; destruct i; reflexivity. }
  rewrite H4, H6. destruct (Nat.ltb (S i) limit); reflexivity.
Qed.

Definition sepi (i : nat) : bytes := match i with O => [] | S _ => [58] end.

Lemma read_sep_sepi {A} i (inner : bytes -> option (A * bytes)) l : read_sep 58 i inner (sepi i ++ l) = inner l.
Proof. destruct i; [reflexivity|]. cbn [sepi app]. unfold read_sep, read_char. rewrite N.eqb_refl. reflexivity. Qed.

Lemma read_groups_step f limit i acc g R :
  g < 65536 -> stops 16 R = true -> nodot R = true ->
  read_groups (S f) limit i acc (sepi i ++ fmt_hex g ++ R) = read_groups f limit (S i) (acc ++ [g]) R.
Proof.
  intros Hg HR HD. cbn [read_groups]. rewrite !read_sep_sepi.
  rewrite read_ipv4_nodot by (rewrite nodot_app, nodot_hex, HD; auto).
  rewrite read_hex_fmt by assumption.
  destruct (Nat.ltb (S i) limit); reflexivity.
Qed.

Definition seps (gs : list N) : bytes := flat_map (fun g => 58 :: fmt_hex g) gs.

Lemma seps_cons g gs : seps (g :: gs) = 58 :: fmt_hex g ++ seps gs.
Proof. reflexivity. Qed.

Lemma join_seps : forall gs g, join 58 (map fmt_hex (g :: gs)) = fmt_hex g ++ seps gs.
Proof.
  induction gs as [|h gs IH]; intros g.
  - cbn [map join seps flat_map]. now rewrite app_nil_r.
  - change (join 58 (map fmt_hex (g :: h :: gs))) with (fmt_hex g ++ 58 :: join 58 (map fmt_hex (h :: gs))).
    rewrite IH. reflexivity.
Qed.

Lemma stops_seps gs R : endR R -> stops 16 (seps gs ++ R) = true.
Proof. intros HR. destruct gs as [|g gs]; [now apply endR_stops|reflexivity]. Qed.

Lemma nodot_seps gs R : Forall (fun g => g < 65536) gs -> nodot R = true -> nodot (seps gs ++ R) = true.
Proof.
  intros HF HD. induction HF as [|g gs Hg HF IH]; [exact HD|].
  rewrite seps_cons. cbn [app]. rewrite <- app_assoc. change (nodot (58 :: ?l)) with (nodot l).
  rewrite nodot_app, nodot_hex, IH; auto.
Qed.

Lemma read_groups_seps : forall gs f limit i acc R,
  Forall (fun g => g < 65536) gs -> endR R -> nodot R = true ->
  read_groups (length gs + f) limit (S i) acc (seps gs ++ R) = read_groups f limit (S i + length gs) (acc ++ gs) R.
Proof.
  induction gs as [|g gs IH]; intros f limit i acc R HF HR HD.
  - cbn [length seps flat_map app Nat.add]. rewrite app_nil_r, Nat.add_0_r. reflexivity.
  - inversion HF as [|g' gs' Hg HF']; subst.
    rewrite seps_cons. cbn [app length Nat.add]. rewrite <- app_assoc.
    change (58 :: fmt_hex g ++ seps gs ++ R) with (sepi (S i) ++ fmt_hex g ++ seps gs ++ R).
    rewrite read_groups_step by (auto using stops_seps, nodot_seps).
    rewrite IH by assumption. rewrite <- app_assoc. cbn [app]. f_equal. lia.
Qed.

Lemma read_groups_join gs f limit R :
  Forall (fun g => g < 65536) gs -> endR R -> nodot R = true ->
  read_groups (length gs + f) limit 0 [] (join 58 (map fmt_hex gs) ++ R) = (gs, false, R).
Proof.
  intros HF HR HD. destruct gs as [|g gs].
  - cbn [map join app]. now apply read_groups_end.
  - inversion HF as [|g' gs' Hg HF']; subst.
    rewrite join_seps, <- app_assoc. cbn [length Nat.add].
    change (fmt_hex g ++ seps gs ++ R) with (sepi 0 ++ fmt_hex g ++ seps gs ++ R).
    rewrite read_groups_step by (auto using stops_seps, nodot_seps).
    rewrite read_groups_seps by assumption. cbn [app]. now apply read_groups_end.
Qed.

Lemma read_groups_join' gs fuel limit R :
  Forall (fun g => g < 65536) gs -> endR R -> nodot R = true -> (length gs <= fuel)%nat ->
  read_groups fuel limit 0 [] (join 58 (map fmt_hex gs) ++ R) = (gs, false, R).
Proof.
  intros HF HR HD HL. replace fuel with (length gs + (fuel - length gs))%nat by lia.
  now apply read_groups_join.
Qed.

(* ---------- zrun ---------- *)
Definition zeros_at (all : list N) (p : nat * nat) : Prop :=
  snd p = 0%nat \/
  ((fst p + snd p <= length all)%nat /\ forall k, (fst p <= k < fst p + snd p)%nat -> nth k all 0 = 0).
Definition run_at (pre : list N) (p : nat * nat) : Prop :=
  snd p = 0%nat \/
  ((fst p + snd p)%nat = length pre /\ forall k, (fst p <= k < length pre)%nat -> nth k pre 0 = 0).

Lemma zeros_at_app all x p : zeros_at all p -> zeros_at (all ++ x) p.
Proof.
  intros [H|[H1 H2]]; [left; exact H|right]. rewrite app_length. split; [lia|].
  intros k Hk. rewrite app_nth1 by lia. now apply H2.
Qed.

Lemma run_at_zeros pre p : run_at pre p -> zeros_at pre p.
Proof.
  intros [H|[H1 H2]]; [left; exact H|right]. split; [lia|]. intros k Hk. apply H2. lia.
Qed.

Lemma zrun_inv : forall gs pre cur best,
  run_at pre cur -> zeros_at pre best -> zeros_at (pre ++ gs) (zrun gs (length pre) cur best).
Proof.
  induction gs as [|g r IH]; intros pre [cs cl] [bs bl] Hc Hb.
  - cbn [zrun]. rewrite app_nil_r. exact Hb.
  - cbn [zrun]. replace (pre ++ g :: r) with ((pre ++ [g]) ++ r) by (rewrite <- app_assoc; reflexivity).
    replace (S (length pre)) with (length (pre ++ [g])) by (rewrite app_length; cbn [length]; lia).
    destruct (g =? 0) eqn:Eg.
    + apply N.eqb_eq in Eg. subst g. cbn [fst snd].
      assert (Hc' : run_at (pre ++ [0]) (if Nat.eqb cl 0 then length pre else cs, S cl)).
      { right. cbn [fst snd]. rewrite app_length. cbn [length]. unfold run_at in Hc. cbn [fst snd] in Hc.
        destruct (Nat.eqb_spec cl 0) as [E|E].
        - split; [lia|]. intros k Hk. replace k with (length pre) by lia. now rewrite nth_middle.
        - destruct Hc as [Hc|[Hc1 Hc2]]; [lia|]. split; [lia|]. intros k Hk.
          destruct (Nat.eq_dec k (length pre)) as [->|Hne]; [now rewrite nth_middle|].
          rewrite app_nth1 by lia. apply Hc2. lia. }
      apply IH; [exact Hc'|].
      destruct (Nat.ltb bl (S cl)); [now apply run_at_zeros|now apply zeros_at_app].
    + apply IH; [left; reflexivity|now apply zeros_at_app].
Qed.

Lemma repeatN_length {A} (x : A) n : length (repeatN x n) = n.
Proof. induction n as [|n IH]; cbn [repeatN length]; [reflexivity|now rewrite IH]. Qed.

Lemma zeros_firstn : forall n (l : list N),
  (n <= length l)%nat -> (forall k, (k < n)%nat -> nth k l 0 = 0) -> firstn n l = repeatN 0 n.
Proof.
  induction n as [|n IH]; intros l HL H; [reflexivity|].
  destruct l as [|x l]; [cbn [length] in HL; lia|]. cbn [firstn repeatN]. f_equal.
  - apply (H 0%nat). lia.
  - apply IH; [cbn [length] in HL; lia|]. intros k Hk. apply (H (S k)). lia.
Qed.

Lemma zeros_firstn_skipn : forall s n (l : list N),
  (s + n <= length l)%nat -> (forall k, (s <= k < s + n)%nat -> nth k l 0 = 0) ->
  firstn n (skipn s l) = repeatN 0 n.
Proof.
  induction s as [|s IH]; intros n l HL H.
  - cbn [skipn]. apply zeros_firstn; [lia|]. intros k Hk. apply H. lia.
  - destruct l as [|x l]; [cbn [length] in HL; lia|]. cbn [skipn]. apply IH.
    + cbn [length] in HL. lia.
    + intros k Hk. apply (H (S k)). lia.
Qed.

Lemma zrun_zeros gs st ln :
  zrun gs 0 (0, 0)%nat (0, 0)%nat = (st, ln) -> (2 <= ln)%nat ->
  (st + ln <= length gs)%nat /\ gs = firstn st gs ++ repeatN 0 ln ++ skipn (st + ln) gs.
Proof.
  intros Z L. pose proof (zrun_inv gs [] (0, 0)%nat (0, 0)%nat) as H.
  cbn [app length] in H. rewrite Z in H.
  destruct H as [H|[H1 H2]]; try (left; reflexivity); cbn [fst snd] in *; [lia|].
  split; [exact H1|].
  rewrite <- (zeros_firstn_skipn st ln gs H1 H2). rewrite <- skipn_skipn'.
  now rewrite !firstn_skipn.
Qed.

(* ---------- the shapes of the formatted text ---------- *)
Definition fmt_gen (gs : list N) : bytes :=
  let '(st, ln) := zrun gs 0 (0, 0)%nat (0, 0)%nat in
  if Nat.ltb 1 ln
  then join 58 (map fmt_hex (firstn st gs)) ++ [58; 58] ++ join 58 (map fmt_hex (skipn (st + ln) gs))
  else join 58 (map fmt_hex gs).

Lemma fmt_cases gs : length gs = 8%nat ->
  (exists a c, gs = [0; 0; 0; 0; 0; 65535; a; c]) \/ fmt_ipv6_groups gs = fmt_gen gs.
Proof.
  intros HL.
  destruct gs as [|g0 [|g1 [|g2 [|g3 [|g4 [|g5 [|g6 [|g7 [|g8 gs]]]]]]]]]; try discriminate.
  destruct g0; [|right; reflexivity]. destruct g1; [|right; reflexivity].
  destruct g2; [|right; reflexivity]. destruct g3; [|right; reflexivity].
  destruct g4; [|right; reflexivity].
  destruct g5 as [|p]; [right; reflexivity|].
  do 15 (destruct p as [p|p|]; [|right; reflexivity|right; reflexivity]).
  destruct p as [p|p|]; [right; reflexivity|right; reflexivity|].
  left. eauto.
Qed.

(* ---------- the IPv4-mapped form ---------- *)
Lemma mapped_step1 f T :
  read_groups (S f) 7 0 [] (102 :: 102 :: 102 :: 102 :: 58 :: T) = read_groups f 7 1 [65535] (58 :: T).
Proof.
  cbn [read_groups].
  assert (E1 : read_sep 58 0 read_ipv4 (102 :: 102 :: 102 :: 102 :: 58 :: T) = None) by reflexivity.
  assert (E2 : read_sep 58 0 (read_number 16 4 65535 true) (102 :: 102 :: 102 :: 102 :: 58 :: T)
               = Some (65535, 58 :: T)) by reflexivity.
  rewrite E1, E2. change (Nat.ltb 1 7) with true. cbn iota. reflexivity.
Qed.

Lemma mapped_step2 f a b c d : a < 256 -> b < 256 -> c < 256 -> d < 256 ->
  read_groups (S f) 7 1 [65535] (58 :: fmt_ipv4 [a; b; c; d]) = ([65535; a * 256 + b; c * 256 + d], true, []).
Proof.
  intros Ha Hb Hc Hd. cbn [read_groups]. change (Nat.ltb 2 7) with true. cbn iota.
  change (58 :: fmt_ipv4 [a; b; c; d]) with (sepi 1 ++ fmt_ipv4 [a; b; c; d]).
  rewrite read_sep_sepi, read_ipv4_fmt by assumption. reflexivity.
Qed.

Lemma read_char_eq c l : read_char c (c :: l) = Some l.
Proof. unfold read_char. now rewrite N.eqb_refl. Qed.

Lemma read_mapped a c : a < 65536 -> c < 65536 ->
  read_ipv6 ([58; 58; 102; 102; 102; 102; 58] ++ fmt_ipv4 [a / 256; a mod 256; c / 256; c mod 256])
  = Some ([0; 0; 0; 0; 0; 65535; a; c], []).
Proof.
  intros Ha Hc. unfold read_ipv6. cbn [app].
  rewrite read_groups_end by (right; eauto).
  cbn [length Nat.eqb]. cbn beta iota.
  rewrite read_char_eq. cbn beta iota. rewrite read_char_eq. cbn beta iota.
  change (8 - (0 + 1))%nat with 7%nat.
  rewrite mapped_step1, mapped_step2 by lia.
  cbn [length Nat.sub repeatN app]. f_equal. f_equal. repeat f_equal; lia.
Qed.

Lemma nodot_join gs : Forall (fun g => g < 65536) gs -> nodot (join 58 (map fmt_hex gs)) = true.
Proof.
  intros HF. destruct gs as [|g gs]; [reflexivity|]. inversion HF as [|g' gs' Hg HF']; subst.
  rewrite join_seps, nodot_app, nodot_hex by assumption. rewrite <- (app_nil_r (seps gs)).
  now rewrite nodot_seps.
Qed.

(* 1 *)
Lemma read_fmt_ipv6_groups : forall gs, wf_groups gs -> read_ipv6 (fmt_ipv6_groups gs) = Some (gs, []).
Proof.
  intros gs [HL HF]. destruct (fmt_cases gs HL) as [(a & c & ->)|E].
  - change (fmt_ipv6_groups [0; 0; 0; 0; 0; 65535; a; c])
      with ([58; 58; 102; 102; 102; 102; 58] ++ fmt_ipv4 [a / 256; a mod 256; c / 256; c mod 256]).
    do 6 (apply Forall_inv_tail in HF). pose proof (Forall_inv HF) as Ha.
    apply Forall_inv_tail in HF. pose proof (Forall_inv HF) as Hc. cbv beta in Ha, Hc.
    now apply read_mapped.
  - rewrite E. unfold fmt_gen. destruct (zrun gs 0 (0, 0)%nat (0, 0)%nat) as [st ln] eqn:Z.
    destruct (Nat.ltb 1 ln) eqn:L.
    + apply Nat.ltb_lt in L. destruct (zrun_zeros gs st ln Z L) as [Hle Hgs].
      assert (Hlh : length (firstn st gs) = st) by (rewrite firstn_length; lia).
      assert (Hlt : length (skipn (st + ln) gs) = (8 - st - ln)%nat) by (rewrite skipn_length; lia).
      remember (firstn st gs) as hd eqn:Ehd. remember (skipn (st + ln) gs) as tl eqn:Etl.
      assert (HF2 : Forall (fun g => g < 65536) hd /\ Forall (fun g => g < 65536) tl).
      { rewrite Hgs in HF. apply Forall_app in HF as [H1 H2]. apply Forall_app in H2 as [_ H2]. now split. }
      destruct HF2 as [HFh HFt].
      unfold read_ipv6.
      rewrite (read_groups_join' hd 8 8 ([58; 58] ++ join 58 (map fmt_hex tl))); try assumption; try lia.
      2:{ right. eexists. reflexivity. }
      2:{ cbn [app]. change (nodot (58 :: 58 :: ?l)) with (nodot l). now apply nodot_join. }
      destruct (Nat.eqb_spec (length hd) 8) as [E8|_]; [lia|].
      cbn [app]. rewrite read_char_eq. cbn beta iota. rewrite read_char_eq. cbn beta iota.
      rewrite <- (app_nil_r (join 58 (map fmt_hex tl))).
      rewrite (read_groups_join' tl); try assumption; try lia; try reflexivity.
      2:{ left. reflexivity. }
      f_equal. f_equal. rewrite Hlh, Hlt. replace (8 - st - (8 - st - ln))%nat with ln by lia.
      symmetry. exact Hgs.
    + apply Nat.ltb_ge in L. unfold read_ipv6.
      rewrite <- (app_nil_r (join 58 (map fmt_hex gs))).
      rewrite (read_groups_join' gs); try assumption; try lia; try reflexivity.
      2:{ left. reflexivity. }
      rewrite HL. reflexivity.
Qed.

(* ---------- octets <-> groups ---------- *)
Lemma octets_groups : forall n o, length o = (2 * n)%nat -> wf_bytes o = true ->
  length (octets_to_groups o) = n /\ Forall (fun g => g < 65536) (octets_to_groups o) /\
  groups_to_octets (octets_to_groups o) = o.
Proof.
  induction n as [|n IH]; intros o HL HW.
  - destruct o; [|discriminate]. repeat split. constructor.
  - destruct o as [|h [|l r]]; cbn [length] in HL; try lia.
    rewrite !wf_bytes_cons in HW. apply andb_prop in HW as [Hh HW]. apply andb_prop in HW as [Hl HW].
    destruct (IH r) as (I1 & I2 & I3); [lia|assumption|].
    cbn [octets_to_groups groups_to_octets length]. rewrite I1, I3. repeat split.
    + constructor; [lia|assumption].
    + f_equal; [lia|]. f_equal. lia.
Qed.

Lemma octets_groups_16 o : lenN o = 16 -> wf_bytes o = true ->
  wf_groups (octets_to_groups o) /\ groups_to_octets (octets_to_groups o) = o.
Proof.
  intros HL HW. rewrite lenN_length in HL.
  destruct (octets_groups 8 o) as (I1 & I2 & I3); [lia|assumption|]. repeat split; assumption.
Qed.

(* 2 *)
Lemma parse_fmt_ipv6 : forall o, lenN o = 16 -> wf_bytes o = true -> parse_ipv6 (fmt_ipv6 o) = Some o.
Proof.
  intros o HL HW. destruct (octets_groups_16 o HL HW) as [Hwf Hgo].
  unfold parse_ipv6, fmt_ipv6. rewrite read_fmt_ipv6_groups by assumption. now rewrite Hgo.
Qed.

(* ---------- character set and length of the formatted text ---------- *)
Definition okch (ch : N) : bool := is_hex ch || (ch =? 58) || (ch =? 46).

Lemma okch_hex g : g < 65536 -> forallb okch (fmt_hex g) = true.
Proof.
  intros Hg. destruct (hex_facts g Hg) as (_ & H & _). revert H. apply forallb_imp.
  intros x. unfold hexch, okch. intros Hx. apply andb_prop in Hx as [Hx _]. apply andb_prop in Hx as [Hx _].
  now rewrite Hx.
Qed.

Lemma okch_dec n : n < 256 -> forallb okch (fmt_dec n) = true.
Proof.
  intros Hn. destruct (dec_facts n Hn) as [H _]. revert H. apply forallb_imp.
  intros x Hx. unfold okch, is_hex. now rewrite Hx.
Qed.

Lemma seps_facts gs : Forall (fun g => g < 65536) gs ->
  forallb okch (seps gs) = true /\ lenN (seps gs) <= 5 * N.of_nat (length gs).
Proof.
  intros HF. induction HF as [|g gs Hg HF [IH1 IH2]]; [split; [reflexivity|cbn [seps flat_map lenN length]; lia]|].
  rewrite seps_cons. cbn [forallb length]. rewrite forallb_app, lenN_cons, lenN_app, okch_hex, IH1 by assumption.
  split; [reflexivity|]. destruct (hex_facts g Hg) as (_ & _ & H4). lia.
Qed.

Lemma join_facts gs : Forall (fun g => g < 65536) gs ->
  forallb okch (join 58 (map fmt_hex gs)) = true /\
  lenN (join 58 (map fmt_hex gs)) <= 5 * N.of_nat (length gs) - 1.
Proof.
  intros HF. destruct gs as [|g gs]; [split; [reflexivity|cbn [map join lenN length]; lia]|].
  inversion HF as [|g' gs' Hg HF']; subst. destruct (seps_facts gs HF') as [S1 S2].
  rewrite join_seps, forallb_app, lenN_app, okch_hex, S1 by assumption.
  split; [reflexivity|]. destruct (hex_facts g Hg) as (_ & _ & H4). cbn [length]. lia.
Qed.

Lemma ipv4_facts a b c d : a < 256 -> b < 256 -> c < 256 -> d < 256 ->
  forallb okch (fmt_ipv4 [a; b; c; d]) = true /\ lenN (fmt_ipv4 [a; b; c; d]) <= 15.
Proof.
  intros Ha Hb Hc Hd. unfold fmt_ipv4. cbn [map join].
  destruct (dec_facts a Ha) as [_ La]. destruct (dec_facts b Hb) as [_ Lb].
  destruct (dec_facts c Hc) as [_ Lc]. destruct (dec_facts d Hd) as [_ Ld].
  split.
  - repeat (rewrite forallb_app; cbn [forallb]). rewrite !okch_dec by assumption. reflexivity.
  - repeat (rewrite lenN_app, lenN_cons). lia.
Qed.

Lemma fmt_groups_chars gs : wf_groups gs ->
  forallb okch (fmt_ipv6_groups gs) = true /\ lenN (fmt_ipv6_groups gs) <= 39.
Proof.
  intros [HL HF]. destruct (fmt_cases gs HL) as [(a & c & ->)|E].
  - change (fmt_ipv6_groups [0; 0; 0; 0; 0; 65535; a; c])
      with ([58; 58; 102; 102; 102; 102; 58] ++ fmt_ipv4 [a / 256; a mod 256; c / 256; c mod 256]).
    do 6 (apply Forall_inv_tail in HF). pose proof (Forall_inv HF) as Ha.
    apply Forall_inv_tail in HF. pose proof (Forall_inv HF) as Hc. cbv beta in Ha, Hc.
    destruct (ipv4_facts (a / 256) (a mod 256) (c / 256) (c mod 256)) as [I1 I2]; try lia.
    rewrite forallb_app, lenN_app, I1. split; [reflexivity|].
    change (lenN [58; 58; 102; 102; 102; 102; 58]) with 7. lia.
  - rewrite E. unfold fmt_gen. destruct (zrun gs 0 (0, 0)%nat (0, 0)%nat) as [st ln] eqn:Z.
    destruct (Nat.ltb 1 ln) eqn:L.
    + apply Nat.ltb_lt in L. destruct (zrun_zeros gs st ln Z L) as [Hle Hgs].
      assert (Hlh : length (firstn st gs) = st) by (rewrite firstn_length; lia).
      assert (Hlt : length (skipn (st + ln) gs) = (8 - st - ln)%nat) by (rewrite skipn_length; lia).
      remember (firstn st gs) as hd eqn:Ehd. remember (skipn (st + ln) gs) as tl eqn:Etl.
      assert (HF2 : Forall (fun g => g < 65536) hd /\ Forall (fun g => g < 65536) tl).
      { rewrite Hgs in HF. apply Forall_app in HF as [H1 H2]. apply Forall_app in H2 as [_ H2]. now split. }
      destruct HF2 as [HFh HFt].
      destruct (join_facts hd HFh) as [A1 A2]. destruct (join_facts tl HFt) as [B1 B2].
      rewrite !forallb_app, !lenN_app, A1, B1. split; [reflexivity|].
      change (lenN [58; 58]) with 2. lia.
    + destruct (join_facts gs HF) as [A1 A2]. split; [assumption|]. rewrite HL in A2. lia.
Qed.

(* 3 *)
Lemma fmt_ipv6_chars : forall o, lenN o = 16 -> wf_bytes o = true ->
  forallb (fun ch => is_hex ch || (ch =? 58) || (ch =? 46)) (fmt_ipv6 o) = true /\ lenN (fmt_ipv6 o) <= 39.
Proof.
  intros o HL HW. destruct (octets_groups_16 o HL HW) as [Hwf _].
  exact (fmt_groups_chars _ Hwf).
Qed.

(* ---------- shape of whatever parses ---------- *)
Lemma read_ipv4_inv l o r : read_ipv4 l = Some (o, r) ->
  exists a b c d, o = [a; b; c; d] /\ a <= 255 /\ b <= 255 /\ c <= 255 /\ d <= 255.
Proof.
  unfold read_ipv4, read_sep. intros H.
  destruct (read_octet l) as [[a l1]|] eqn:E1; [|discriminate].
  destruct (read_char 46 l1) as [l1'|]; [|discriminate].
  destruct (read_octet l1') as [[b l2]|] eqn:E2; [|discriminate].
  destruct (read_char 46 l2) as [l2'|]; [|discriminate].
  destruct (read_octet l2') as [[c l3]|] eqn:E3; [|discriminate].
  destruct (read_char 46 l3) as [l3'|]; [|discriminate].
  destruct (read_octet l3') as [[d l4]|] eqn:E4; [|discriminate].
  injection H as <- <-.
  apply read_number_inv in E1 as [B1 _]. apply read_number_inv in E2 as [B2 _].
  apply read_number_inv in E3 as [B3 _]. apply read_number_inv in E4 as [B4 _].
  exists a, b, c, d. repeat split; assumption.
Qed.

Lemma read_sep_inv {A} sep i (inner : bytes -> option (A * bytes)) l x :
  read_sep sep i inner l = Some x -> exists l', inner l' = Some x /\ (l' = l \/ l = sep :: l').
Proof.
  unfold read_sep, read_char. destruct i.
  - intros H. exists l. auto.
  - destruct l as [|y l]; [discriminate|]. destruct (N.eqb_spec y sep) as [->|]; [|discriminate].
    intros H. exists l. auto.
Qed.

Lemma read_groups_shape : forall fuel limit i acc l gs v4 r,
  read_groups fuel limit i acc l = (gs, v4, r) -> (i + fuel)%nat = limit ->
  Forall (fun g => g < 65536) acc ->
  Forall (fun g => g < 65536) gs /\ (length gs <= length acc + fuel)%nat.
Proof.
  induction fuel as [|f IH]; intros limit i acc l gs v4 r H HI HA.
  - cbn [read_groups] in H. injection H as <- <- <-. split; [assumption|lia].
  - cbn [read_groups] in H.
    destruct (if Nat.ltb (S i) limit then read_sep 58 i read_ipv4 l else None) as [[o r4]|] eqn:T.
    + destruct (Nat.ltb (S i) limit) eqn:LT; [|discriminate]. apply Nat.ltb_lt in LT.
      apply read_sep_inv in T as (l' & T & _).
      apply read_ipv4_inv in T as (a & b & c & d & -> & Ba & Bb & Bc & Bd).
      injection H as <- <- <-. split.
      * apply Forall_app. split; [assumption|]. repeat constructor; lia.
      * rewrite app_length. cbn [length]. lia.
    + destruct (read_sep 58 i (read_number 16 4 65535 true) l) as [[g r6]|] eqn:E6.
      * apply IH in H; [|lia|].
        -- rewrite app_length in H. cbn [length] in H. destruct H as [H1 H2]. split; [assumption|lia].
        -- apply Forall_app. split; [assumption|]. apply read_sep_inv in E6 as (l' & E6 & _).
           apply read_number_inv in E6 as [B _]. repeat constructor. lia.
      * injection H as <- <- <-. split; [assumption|lia].
Qed.

Lemma Forall_repeatN {A} (P : A -> Prop) x n : P x -> Forall P (repeatN x n).
Proof. intros H. induction n; cbn [repeatN]; constructor; assumption. Qed.

Lemma read_ipv6_shape s g r : read_ipv6 s = Some (g, r) -> wf_groups g.
Proof.
  unfold read_ipv6. destruct (read_groups 8 8 0 [] s) as [[hd v4] r1] eqn:G1.
  apply read_groups_shape in G1; [|reflexivity|constructor]. destruct G1 as [F1 L1]. cbn [length] in L1.
  destruct (Nat.eqb_spec (length hd) 8) as [E8|N8].
  - intros H. injection H as <- <-. split; assumption.
  - destruct v4; [discriminate|].
    destruct (read_char 58 r1) as [r2|]; [|discriminate].
    destruct (read_char 58 r2) as [r3|]; [|discriminate].
    destruct (read_groups (8 - (length hd + 1)) (8 - (length hd + 1)) 0 [] r3) as [[tl v4'] r4] eqn:G2.
    apply read_groups_shape in G2; [|reflexivity|constructor]. destruct G2 as [F2 L2]. cbn [length] in L2.
    remember (8 - length hd - length tl)%nat as k eqn:Ek.
    intros H. injection H as <- <-. split.
    + rewrite !app_length, repeatN_length. lia.
    + apply Forall_app. split; [assumption|]. apply Forall_app. split; [|assumption].
      apply Forall_repeatN. lia.
Qed.

Lemma groups_octets_shape g : Forall (fun x => x < 65536) g ->
  wf_bytes (groups_to_octets g) = true /\ length (groups_to_octets g) = (2 * length g)%nat.
Proof.
  intros HF. induction HF as [|x g Hx HF [IH1 IH2]]; [split; reflexivity|].
  cbn [groups_to_octets length]. rewrite !wf_bytes_cons, IH1, IH2. split; [|lia].
  assert (H1 : (x / 256 <? 256) = true) by lia. assert (H2 : (x mod 256 <? 256) = true) by lia.
  now rewrite H1, H2.
Qed.

(* 4 *)
Lemma parse_ipv6_shape : forall s o, parse_ipv6 s = Some o -> lenN o = 16 /\ wf_bytes o = true.
Proof.
  intros s o. unfold parse_ipv6. destruct (read_ipv6 s) as [[g r]|] eqn:E; [|discriminate].
  destruct r; [|discriminate]. intros H. injection H as <-.
  apply read_ipv6_shape in E as [HL HF]. destruct (groups_octets_shape g HF) as [H1 H2].
  split; [|assumption]. rewrite lenN_length, H2, HL. reflexivity.
Qed.

(* ================= 5: the parser accepts exactly the grammar ================= *)

(* ---------- digits ---------- *)
Lemma hex_val_lt c : is_hex c = true -> hex_val c < 16.
Proof.
  unfold is_hex, hex_val, is_digit.
  destruct (48 <=? c) eqn:E1, (c <=? 57) eqn:E2, (97 <=? c) eqn:E3, (c <=? 102) eqn:E4,
           (65 <=? c) eqn:E5, (c <=? 70) eqn:E6; cbn [andb orb]; intros H; try discriminate; lia.
Qed.

Lemma to_digit16 c : to_digit 16 c = if is_hex c then Some (hex_val c) else None.
Proof.
  pose proof (hex_val_lt c) as HV. unfold to_digit, is_hex, hex_val, is_digit in *.
  destruct (48 <=? c) eqn:E1, (c <=? 57) eqn:E2, (97 <=? c) eqn:E3, (c <=? 102) eqn:E4,
           (65 <=? c) eqn:E5, (c <=? 70) eqn:E6; cbn [andb orb] in *; try reflexivity;
  try (specialize (HV eq_refl)); try lia;
  match goal with |- (if ?b then _ else _) = _ => destruct b eqn:E7; [reflexivity|lia] end.
Qed.

Lemma to_digit10 c : to_digit 10 c = if is_digit c then Some (c - 48) else None.
Proof.
  unfold to_digit, is_digit.
  destruct (48 <=? c) eqn:E1, (c <=? 57) eqn:E2, (97 <=? c) eqn:E3, (c <=? 102) eqn:E4,
           (65 <=? c) eqn:E5, (c <=? 70) eqn:E6; cbn [andb orb] in *; try reflexivity; try lia;
  match goal with |- (if ?b then _ else _) = _ => destruct b eqn:E7; try reflexivity; lia end.
Qed.

Lemma fold_left_ext {A B} (f g : A -> B -> A) : (forall a b, f a b = g a b) ->
  forall l a, fold_left f l a = fold_left g l a.
Proof. intros H. induction l as [|x l IH]; intros a; cbn [fold_left]; [reflexivity|]. now rewrite H, IH. Qed.

Section Digits.
  Variables (radix : N) (isd : N -> bool) (dv : N -> N).
  Hypothesis Hd : forall c, to_digit radix c = if isd c then Some (dv c) else None.

  Definition stopsd (l : bytes) : bool := match l with [] => true | c :: _ => negb (isd c) end.

  Lemma stopsd_stops l : stops radix l = stopsd l.
  Proof. destruct l as [|c l]; [reflexivity|]. cbn [stops stopsd]. rewrite Hd. now destruct (isd c). Qed.

  Lemma read_digits_tok : forall t R acc cnt, forallb isd t = true -> stopsd R = true ->
    read_digits radix (t ++ R) acc cnt = (fold_left (fun a d => a * radix + dv d) t acc, cnt + lenN t, R).
  Proof.
    induction t as [|x t IH]; intros R acc cnt Ht HR.
    - cbn [app fold_left lenN]. rewrite read_digits_stop by now rewrite stopsd_stops. f_equal. f_equal. lia.
    - cbn [forallb] in Ht. apply andb_prop in Ht as [Hx Ht]. cbn [app read_digits]. rewrite Hd, Hx.
      rewrite IH by assumption. cbn [fold_left]. rewrite lenN_cons. f_equal. f_equal. lia.
  Qed.

  Lemma read_digits_inv : forall l acc cnt v c r, read_digits radix l acc cnt = (v, c, r) ->
    exists t, l = t ++ r /\ forallb isd t = true /\ stopsd r = true /\
              v = fold_left (fun a d => a * radix + dv d) t acc /\ c = cnt + lenN t.
  Proof.
    induction l as [|x l IH]; intros acc cnt v c r H.
    - cbn [read_digits] in H. injection H as <- <- <-. exists []. repeat split. cbn [lenN]. lia.
    - cbn [read_digits] in H. rewrite Hd in H. destruct (isd x) eqn:Hx.
      + apply IH in H as (t & -> & Ht & Hr & -> & ->). exists (x :: t). cbn [forallb]. rewrite Hx, Ht.
        repeat split; try assumption. rewrite lenN_cons. lia.
      + injection H as <- <- <-. exists []. cbn [stopsd]. rewrite Hx. repeat split. cbn [lenN]. lia.
  Qed.
End Digits.

(* ---------- hex groups: read_number 16 4 65535 true <-> spec_h16 ---------- *)
Lemma spec_h16_some t v : spec_h16 t = Some v <->
  (t <> [] /\ lenN t <= 4 /\ forallb is_hex t = true /\ v = hex_value t).
Proof.
  unfold spec_h16. destruct t as [|x t].
  - cbn [isnil orb]. split; [discriminate|]. intros [H _]. congruence.
  - cbn [isnil orb]. destruct (4 <? lenN (x :: t)) eqn:E1; cbn [orb].
    + split; [discriminate|]. intros (_ & H & _). lia.
    + destruct (forallb is_hex (x :: t)) eqn:E2; cbn [negb].
      * split; [intros H; injection H as <-; repeat split; try lia; discriminate|].
        intros (_ & _ & _ & ->). reflexivity.
      * split; [discriminate|]. intros (_ & _ & H & _). discriminate.
Qed.

Lemma hex_value_fold t acc :
  fold_left (fun a d => a * 16 + hex_val d) t acc = fold_left (fun a d => 16 * a + hex_val d) t acc.
Proof. apply fold_left_ext. intros a b. lia. Qed.

Lemma hex_value_bound t : lenN t <= 4 -> forallb is_hex t = true -> hex_value t <= 65535.
Proof.
  intros HL HH. unfold hex_value.
  destruct t as [|a [|b [|c [|d [|e t]]]]]; cbn [fold_left forallb] in *;
    repeat match goal with H : _ && _ = true |- _ => apply andb_prop in H; destruct H as [? H] end;
    repeat match goal with H : is_hex _ = true |- _ => apply hex_val_lt in H end; try lia.
  rewrite !lenN_cons in HL. lia.
Qed.

Lemma read_hex_tok t v R : spec_h16 t = Some v -> stops 16 R = true ->
  read_number 16 4 65535 true (t ++ R) = Some (v, R).
Proof.
  intros Ht HR. apply spec_h16_some in Ht as (Hne & HL & HH & ->).
  rewrite (stopsd_stops 16 is_hex hex_val to_digit16) in HR.
  unfold read_number. rewrite (read_digits_tok 16 is_hex hex_val to_digit16) by assumption.
  rewrite hex_value_fold. fold (hex_value t). pose proof (hex_value_bound t HL HH) as HB.
  cbn [negb andb]. assert (HL0 : lenN t <> 0) by (destruct t; [congruence|rewrite lenN_cons; lia]).
  destruct ((0 + lenN t =? 0) || (4 <? 0 + lenN t)) eqn:E1; [lia|].
  destruct (65535 <? hex_value t) eqn:E2; [lia|]. reflexivity.
Qed.

Lemma read_hex_inv l v r : read_number 16 4 65535 true l = Some (v, r) ->
  exists t, l = t ++ r /\ spec_h16 t = Some v /\ stops 16 r = true.
Proof.
  unfold read_number. destruct (read_digits 16 l 0 0) as [[v' c'] r'] eqn:E.
  apply (read_digits_inv 16 is_hex hex_val to_digit16) in E as (t & -> & Ht & Hr & -> & ->).
  destruct ((0 + lenN t =? 0) || (4 <? 0 + lenN t)) eqn:E1; [discriminate|]. cbn [negb andb].
  destruct (65535 <? _) eqn:E2; [discriminate|]. intros H. injection H as <- <-.
  exists t. split; [reflexivity|]. split.
  - apply spec_h16_some. repeat split; try lia.
    + intros ->. cbn [lenN] in E1. lia.
    + assumption.
    + rewrite hex_value_fold. reflexivity.
  - now rewrite (stopsd_stops 16 is_hex hex_val to_digit16).
Qed.

(* ---------- decimal octets: read_octet <-> spec_octet ---------- *)
Lemma dec_value_fold t acc :
  fold_left (fun a d => a * 10 + (d - 48)) t acc = fold_left (fun a d => 10 * a + (d - 48)) t acc.
Proof. apply fold_left_ext. intros a b. lia. Qed.

Lemma spec_octet_some t v : spec_octet t = Some v <->
  exists c r, t = c :: r /\ forallb is_digit t = true /\ (c =? 48) && negb (isnil r) = false /\
              lenN t <= 3 /\ dec_value t <= 255 /\ v = dec_value t.
Proof.
  unfold spec_octet, spec_dec. destruct t as [|c r].
  - split; [discriminate|]. intros (c & r & H & _). discriminate.
  - destruct (forallb is_digit (c :: r)) eqn:E1; cbn [negb].
    2:{ split; [discriminate|]. intros (c' & r' & H & H' & _). discriminate. }
    destruct ((c =? 48) && negb (isnil r)) eqn:E2.
    { split; [discriminate|]. intros (c' & r' & H & _ & H' & _). injection H as <- <-. congruence. }
    destruct (3 <? lenN (c :: r)) eqn:E3.
    { split; [discriminate|]. intros (c' & r' & H & _ & _ & H' & _). lia. }
    destruct (255 <? dec_value (c :: r)) eqn:E4.
    { split; [discriminate|]. intros (c' & r' & H & _ & _ & _ & H' & _). lia. }
    split.
    + intros H. injection H as <-. exists c, r. repeat split; try assumption; lia.
    + intros (c' & r' & H & _ & _ & _ & _ & ->). reflexivity.
Qed.

Lemma read_octet_tok t v R : spec_octet t = Some v -> stops 10 R = true -> read_octet (t ++ R) = Some (v, R).
Proof.
  intros Ht HR. apply spec_octet_some in Ht as (c & r & -> & HD & HZ & HL & HB & ->).
  rewrite (stopsd_stops 10 is_digit (fun d => d - 48) to_digit10) in HR.
  unfold read_octet, read_number.
  rewrite (read_digits_tok 10 is_digit (fun d => d - 48) to_digit10) by assumption.
  rewrite dec_value_fold. fold (dec_value (c :: r)).
  cbn [app]. rewrite (lead0_cons c (r ++ R)). cbn [negb andb].
  rewrite lenN_cons in *.
  destruct ((0 + (1 + lenN r) =? 0) || (3 <? 0 + (1 + lenN r))) eqn:E1; [lia|].
  assert (E2 : (c =? 48) && (1 <? 0 + (1 + lenN r)) = false).
  { destruct r as [|y r]; [cbn [lenN]; lia|]. cbn [isnil negb] in HZ. rewrite andb_true_r in HZ.
    rewrite HZ. reflexivity. }
  rewrite E2. destruct (255 <? dec_value (c :: r)) eqn:E3; [lia|]. reflexivity.
Qed.

Lemma read_octet_inv l v r : read_octet l = Some (v, r) ->
  exists t, l = t ++ r /\ spec_octet t = Some v /\ stops 10 r = true.
Proof.
  unfold read_octet, read_number. destruct (read_digits 10 l 0 0) as [[v' c'] r'] eqn:E.
  apply (read_digits_inv 10 is_digit (fun d => d - 48) to_digit10) in E as (t & -> & Ht & Hr & -> & ->).
  destruct ((0 + lenN t =? 0) || (3 <? 0 + lenN t)) eqn:E1; [discriminate|]. cbn [negb andb].
  destruct t as [|c t]; [cbn [lenN] in E1; lia|].
  cbn [app]. rewrite (lead0_cons c (t ++ r')). rewrite lenN_cons in *.
  destruct ((c =? 48) && (1 <? 0 + (1 + lenN t))) eqn:E2; [discriminate|].
  destruct (255 <? _) eqn:E3; [discriminate|]. intros H. injection H as <- <-.
  exists (c :: t). split; [reflexivity|]. split.
  - apply spec_octet_some. exists c, t. rewrite lenN_cons. unfold dec_value. rewrite <- dec_value_fold.
    repeat split; try assumption; try lia.
    destruct t as [|y t]; [cbn [isnil negb]; now rewrite andb_false_r|].
    rewrite lenN_cons in E2. cbn [isnil negb]. rewrite andb_true_r.
    destruct (c =? 48); [|reflexivity]. cbn [andb] in E2. lia.
  - now rewrite (stopsd_stops 10 is_digit (fun d => d - 48) to_digit10).
Qed.

(* ---------- split_on / join ---------- *)
Definition nosep (sep : N) (t : bytes) : bool := forallb (fun c => negb (c =? sep)) t.

Lemma split_on_nonnil sep l : split_on sep l <> [].
Proof.
  destruct l as [|c l]; cbn [split_on]; [discriminate|].
  destruct (c =? sep); [discriminate|]. destruct (split_on sep l); discriminate.
Qed.

Lemma split_on_nosep sep t : nosep sep t = true -> split_on sep t = [t].
Proof.
  induction t as [|c t IH]; [reflexivity|]. cbn [nosep forallb split_on]. intros H.
  apply andb_prop in H as [Hc Ht]. destruct (c =? sep); [discriminate|]. now rewrite (IH Ht).
Qed.

Lemma split_on_app sep t X : nosep sep t = true -> split_on sep (t ++ sep :: X) = t :: split_on sep X.
Proof.
  induction t as [|c t IH]; intros H.
  - cbn [app split_on]. now rewrite N.eqb_refl.
  - cbn [nosep forallb] in H. apply andb_prop in H as [Hc Ht]. cbn [app split_on].
    destruct (c =? sep); [discriminate|]. now rewrite (IH Ht).
Qed.

Lemma join_cons2 sep (p q : bytes) ps : join sep (p :: q :: ps) = p ++ sep :: join sep (q :: ps).
Proof. reflexivity. Qed.

Lemma split_on_join sep : forall ps, ps <> [] -> Forall (fun p => nosep sep p = true) ps ->
  split_on sep (join sep ps) = ps.
Proof.
  induction ps as [|p ps IH]; intros Hne HF; [congruence|].
  inversion HF as [|p' ps' Hp HF']; subst. destruct ps as [|q ps].
  - cbn [join]. now apply split_on_nosep.
  - rewrite join_cons2, split_on_app by assumption. rewrite IH; [reflexivity|discriminate|assumption].
Qed.

Lemma join_cons_cons sep c (p : bytes) ps : join sep ((c :: p) :: ps) = c :: join sep (p :: ps).
Proof. destruct ps; reflexivity. Qed.

Lemma join_split sep : forall l, join sep (split_on sep l) = l.
Proof.
  induction l as [|c l IH]; [reflexivity|]. cbn [split_on]. destruct (N.eqb_spec c sep) as [->|Hne].
  - pose proof (split_on_nonnil sep l) as Hn. destruct (split_on sep l) as [|q qs]; [congruence|].
    rewrite join_cons2, IH. reflexivity.
  - pose proof (split_on_nonnil sep l) as Hn. destruct (split_on sep l) as [|q qs]; [congruence|].
    rewrite join_cons_cons, IH. reflexivity.
Qed.

Lemma split_on_parts sep : forall l, Forall (fun p => nosep sep p = true) (split_on sep l).
Proof.
  induction l as [|c l IH]; [repeat constructor|]. cbn [split_on]. destruct (c =? sep) eqn:E.
  - constructor; [reflexivity|assumption].
  - destruct (split_on sep l) as [|q qs]; [repeat constructor; cbn [nosep forallb]; now rewrite E|].
    inversion IH as [|q' qs' Hq HF]; subst. constructor; [|assumption].
    cbn [nosep forallb]. rewrite E. exact Hq.
Qed.

(* ---------- IPv4: read_ipv4 <-> spec_ip4 ---------- *)
Lemma read_char_inv c l r : read_char c l = Some r -> l = c :: r.
Proof.
  unfold read_char. destruct l as [|x l]; [discriminate|]. destruct (N.eqb_spec x c) as [->|]; [|discriminate].
  intros H. now injection H as <-.
Qed.

Lemma spec_octet_nodot t v : spec_octet t = Some v -> nosep 46 t = true /\ t <> [].
Proof.
  intros H. apply spec_octet_some in H as (c & r & -> & HD & _). split; [|discriminate].
  revert HD. apply forallb_imp. intros x Hx. destruct (N.eqb_spec x 46) as [->|]; [discriminate|reflexivity].
Qed.

Lemma read_ipv4_tok t o : spec_ip4 t = Some o -> read_ipv4 t = Some (o, []).
Proof.
  unfold spec_ip4. pose proof (join_split 46 t) as HJ.
  destruct (split_on 46 t) as [|a [|b [|c [|d [|e ps]]]]]; try discriminate.
  destruct (spec_octet a) as [va|] eqn:Ea; [|discriminate].
  destruct (spec_octet b) as [vb|] eqn:Eb; [|discriminate].
  destruct (spec_octet c) as [vc|] eqn:Ec; [|discriminate].
  destruct (spec_octet d) as [vd|] eqn:Ed; [|discriminate].
  intros H. injection H as <-. rewrite <- HJ. rewrite !join_cons2. cbn [join].
  unfold read_ipv4, read_sep.
  rewrite (read_octet_tok a va) by (assumption || reflexivity). rewrite read_char_eq.
  rewrite (read_octet_tok b vb) by (assumption || reflexivity). rewrite read_char_eq.
  rewrite (read_octet_tok c vc) by (assumption || reflexivity). rewrite read_char_eq.
  rewrite <- (app_nil_r d). rewrite (read_octet_tok d vd) by (assumption || reflexivity). reflexivity.
Qed.

Definition v4ch (c : N) : bool := is_digit c || (c =? 46).

Lemma octet_v4ch t v : spec_octet t = Some v -> forallb v4ch t = true.
Proof.
  intros H. apply spec_octet_some in H as (c & r & -> & HD & _). revert HD. apply forallb_imp.
  intros x Hx. unfold v4ch. now rewrite Hx.
Qed.

Lemma read_ipv4_inv2 l o r : read_ipv4 l = Some (o, r) ->
  exists t, l = t ++ r /\ spec_ip4 t = Some o /\ t <> [] /\ forallb v4ch t = true.
Proof.
  unfold read_ipv4, read_sep. intros H.
  destruct (read_octet l) as [[a l1]|] eqn:E1; [|discriminate].
  destruct (read_char 46 l1) as [l1'|] eqn:C1; [|discriminate].
  destruct (read_octet l1') as [[b l2]|] eqn:E2; [|discriminate].
  destruct (read_char 46 l2) as [l2'|] eqn:C2; [|discriminate].
  destruct (read_octet l2') as [[c l3]|] eqn:E3; [|discriminate].
  destruct (read_char 46 l3) as [l3'|] eqn:C3; [|discriminate].
  destruct (read_octet l3') as [[d l4]|] eqn:E4; [|discriminate].
  injection H as <- <-.
  apply read_char_inv in C1, C2, C3. subst l1 l2 l3.
  apply read_octet_inv in E1 as (ta & -> & Sa & _). apply read_octet_inv in E2 as (tb & -> & Sb & _).
  apply read_octet_inv in E3 as (tc & -> & Sc & _). apply read_octet_inv in E4 as (td & -> & Sd & _).
  exists (ta ++ 46 :: tb ++ 46 :: tc ++ 46 :: td). split.
  { repeat (rewrite <- app_assoc; cbn [app]). reflexivity. }
  destruct (spec_octet_nodot _ _ Sa) as [Na Nea]. destruct (spec_octet_nodot _ _ Sb) as [Nb _].
  destruct (spec_octet_nodot _ _ Sc) as [Nc _]. destruct (spec_octet_nodot _ _ Sd) as [Nd _].
  split; [|split].
  - unfold spec_ip4. rewrite !split_on_app, split_on_nosep by assumption. now rewrite Sa, Sb, Sc, Sd.
  - destruct ta; [congruence|discriminate].
  - repeat (rewrite forallb_app; cbn [forallb]).
    rewrite (octet_v4ch _ _ Sa), (octet_v4ch _ _ Sb), (octet_v4ch _ _ Sc), (octet_v4ch _ _ Sd). reflexivity.
Qed.

Lemma spec_ip4_shape t o : spec_ip4 t = Some o -> exists a b c d, o = [a; b; c; d].
Proof.
  unfold spec_ip4. destruct (split_on 46 t) as [|a [|b [|c [|d [|e ps]]]]]; try discriminate.
  destruct (spec_octet a), (spec_octet b), (spec_octet c), (spec_octet d); try discriminate.
  intros H. injection H as <-. eauto.
Qed.

Lemma spec_ip4_not_h16 t o : spec_ip4 t = Some o -> spec_h16 t = None.
Proof.
  intros H. destruct (spec_h16 t) as [v|] eqn:E; [|reflexivity]. exfalso.
  apply spec_h16_some in E as (_ & _ & HH & _).
  assert (HN : nosep 46 t = true).
  { revert HH. apply forallb_imp. intros x Hx. destruct (N.eqb_spec x 46) as [->|]; [discriminate|reflexivity]. }
  unfold spec_ip4 in H. rewrite (split_on_nosep _ _ HN) in H. discriminate.
Qed.

(* a hex group followed by nothing or ':' is not the start of a dotted quad *)
Definition okR (R : bytes) : Prop := R = [] \/ exists X, R = 58 :: X.

Lemma read_digits10_hex : forall t R acc cnt v c r, read_digits 10 (t ++ R) acc cnt = (v, c, r) ->
  forallb is_hex t = true -> okR R -> read_char 46 r = None.
Proof.
  induction t as [|x t IH]; intros R acc cnt v c r H HH HR.
  - cbn [app] in H. destruct HR as [->|[X ->]].
    + cbn [read_digits] in H. injection H as <- <- <-. reflexivity.
    + rewrite read_digits_stop in H by reflexivity. injection H as <- <- <-. reflexivity.
  - cbn [forallb] in HH. apply andb_prop in HH as [Hx HH]. cbn [app read_digits] in H.
    destruct (to_digit 10 x) as [d|].
    + eapply IH; eassumption.
    + injection H as <- <- <-. unfold read_char.
      destruct (N.eqb_spec x 46) as [->|]; [discriminate|reflexivity].
  Qed.

Lemma read_ipv4_hex t R : forallb is_hex t = true -> okR R -> read_ipv4 (t ++ R) = None.
Proof.
  intros HH HR. unfold read_ipv4. unfold read_sep at 1.
  destruct (read_octet (t ++ R)) as [[a r]|] eqn:E; [|reflexivity].
  unfold read_octet, read_number in E. destruct (read_digits 10 (t ++ R) 0 0) as [[v c] r'] eqn:D.
  destruct (_ || _) in E; [discriminate|]. destruct (_ && _) in E; [discriminate|].
  destruct (255 <? v) in E; [discriminate|]. injection E as <- <-.
  unfold read_sep. now rewrite (read_digits10_hex _ _ _ _ _ _ _ D HH HR).
Qed.

(* ---------- token lists ---------- *)
Lemma all_some_cons {A B} (f : A -> option B) x xs ys :
  all_some (map f (x :: xs)) = Some ys <->
  exists y ys', f x = Some y /\ all_some (map f xs) = Some ys' /\ ys = y :: ys'.
Proof.
  cbn [map all_some]. destruct (f x) as [y|].
  - destruct (all_some (map f xs)) as [ys'|].
    + split; [intros H; injection H as <-; eauto|]. intros (y0 & ys0 & H1 & H2 & ->). congruence.
    + split; [discriminate|]. intros (y0 & ys0 & _ & H2 & _). discriminate.
  - split; [discriminate|]. intros (y0 & ys0 & H1 & _). discriminate.
Qed.

Lemma all_some_length {A B} (f : A -> option B) : forall xs ys,
  all_some (map f xs) = Some ys -> length ys = length xs.
Proof.
  induction xs as [|x xs IH]; intros ys H.
  - cbn [map all_some] in H. injection H as <-. reflexivity.
  - apply all_some_cons in H as (y & ys' & _ & H & ->). cbn [length]. now rewrite (IH ys').
Qed.

Lemma all_some_app {A B} (f : A -> option B) : forall xs xs' ys ys',
  all_some (map f xs) = Some ys -> all_some (map f xs') = Some ys' ->
  all_some (map f (xs ++ xs')) = Some (ys ++ ys').
Proof.
  induction xs as [|x xs IH]; intros xs' ys ys' H H'.
  - cbn [map all_some] in H. injection H as <-. exact H'.
  - apply all_some_cons in H as (y & ys0 & H1 & H2 & ->). cbn [app]. apply all_some_cons.
    exists y, (ys0 ++ ys'). repeat split; try assumption. now apply IH.
Qed.

Lemma all_some_app_inv {A B} (f : A -> option B) : forall xs xs' zs,
  all_some (map f (xs ++ xs')) = Some zs ->
  exists ys ys', all_some (map f xs) = Some ys /\ all_some (map f xs') = Some ys' /\ zs = ys ++ ys'.
Proof.
  induction xs as [|x xs IH]; intros xs' zs H.
  - exists [], zs. repeat split. exact H.
  - cbn [app] in H. apply all_some_cons in H as (y & zs' & H1 & H2 & ->).
    apply IH in H2 as (ys & ys' & H2 & H3 & ->). exists (y :: ys), ys'. repeat split; try assumption.
    apply all_some_cons. eauto.
Qed.

Definition seps' (ts : list bytes) : bytes := flat_map (fun t => 58 :: t) ts.
Definition textat (i : nat) (ts : list bytes) : bytes := match i with O => join 58 ts | S _ => seps' ts end.

Lemma seps'_cons t ts : seps' (t :: ts) = 58 :: t ++ seps' ts.
Proof. reflexivity. Qed.

Lemma join_seps' : forall ts t, join 58 (t :: ts) = t ++ seps' ts.
Proof.
  induction ts as [|u ts IH]; intros t.
  - cbn [join seps' flat_map]. now rewrite app_nil_r.
  - rewrite join_cons2, IH. reflexivity.
Qed.

Lemma textat_nil i : textat i [] = [].
Proof. destruct i; reflexivity. Qed.

Lemma textat_cons i t ts : textat i (t :: ts) = sepi i ++ t ++ seps' ts.
Proof. destruct i; [apply join_seps'|reflexivity]. Qed.

Lemma seps'_app ts us : seps' (ts ++ us) = seps' ts ++ seps' us.
Proof. apply flat_map_app. Qed.

Lemma textat_snoc i ts p : textat i (ts ++ [p]) = textat i ts ++ sepi (i + length ts) ++ p.
Proof.
  destruct ts as [|t ts].
  - cbn [app length]. rewrite textat_nil, Nat.add_0_r, textat_cons. cbn [seps' flat_map app].
    now rewrite !app_nil_r.
  - cbn [app]. rewrite !textat_cons, seps'_app. cbn [seps' flat_map]. rewrite app_nil_r.
    replace (i + length (t :: ts))%nat with (S (i + length ts)) by (cbn [length]; lia).
    cbn [sepi]. now rewrite <- !app_assoc.
Qed.

(* ---------- grammar structure -> parser ---------- *)
Lemma okR_stops16 R : okR R -> stops 16 R = true.
Proof. intros [->|[X ->]]; reflexivity. Qed.

Lemma spec_h16_hex t g : spec_h16 t = Some g -> forallb is_hex t = true.
Proof. intros H. now apply spec_h16_some in H as (_ & _ & H & _). Qed.

Lemma rg_step_tok f limit i acc t g R : spec_h16 t = Some g -> okR R ->
  read_groups (S f) limit i acc (sepi i ++ t ++ R) = read_groups f limit (S i) (acc ++ [g]) R.
Proof.
  intros Ht HR. cbn [read_groups]. rewrite !read_sep_sepi.
  rewrite read_ipv4_hex by eauto using spec_h16_hex.
  rewrite (read_hex_tok t g) by auto using okR_stops16.
  destruct (Nat.ltb (S i) limit); reflexivity.
Qed.

Lemma okR_seps' ts R : okR R -> okR (seps' ts ++ R).
Proof. intros HR. destruct ts as [|t ts]; [exact HR|]. right. rewrite seps'_cons. cbn [app]. eauto. Qed.

Lemma rg_seps_tok : forall ts gs f limit i acc R,
  all_some (map spec_h16 ts) = Some gs -> okR R ->
  read_groups (length ts + f) limit (S i) acc (seps' ts ++ R)
  = read_groups f limit (S i + length ts) (acc ++ gs) R.
Proof.
  induction ts as [|t ts IH]; intros gs f limit i acc R HA HR.
  - cbn [map all_some] in HA. injection HA as <-. cbn [length seps' flat_map app Nat.add].
    rewrite app_nil_r, Nat.add_0_r. reflexivity.
  - apply all_some_cons in HA as (g & gs' & Hg & HA & ->).
    rewrite seps'_cons. cbn [app length Nat.add]. rewrite <- app_assoc.
    change (58 :: t ++ seps' ts ++ R) with (sepi (S i) ++ t ++ seps' ts ++ R).
    rewrite (rg_step_tok _ _ _ _ t g) by auto using okR_seps'.
    rewrite (IH gs') by assumption. rewrite <- app_assoc. cbn [app]. f_equal. lia.
Qed.

Lemma rg_text_tok ts gs f limit i acc R :
  all_some (map spec_h16 ts) = Some gs -> okR R ->
  read_groups (length ts + f) limit i acc (textat i ts ++ R)
  = read_groups f limit (i + length ts) (acc ++ gs) R.
Proof.
  intros HA HR. destruct ts as [|t ts].
  - cbn [map all_some] in HA. injection HA as <-. rewrite textat_nil. cbn [length app Nat.add].
    rewrite app_nil_r, Nat.add_0_r. reflexivity.
  - apply all_some_cons in HA as (g & gs' & Hg & HA & ->).
    rewrite textat_cons. cbn [length Nat.add]. rewrite <- !app_assoc.
    rewrite (rg_step_tok _ _ _ _ t g) by auto using okR_seps'.
    rewrite (rg_seps_tok ts gs') by assumption. rewrite <- app_assoc. cbn [app length]. f_equal. lia.
Qed.

Lemma rg_v4_end f limit i acc t a b c d : spec_ip4 t = Some [a; b; c; d] -> (S i < limit)%nat ->
  read_groups (S f) limit i acc (sepi i ++ t) = (acc ++ [a * 256 + b; c * 256 + d], true, []).
Proof.
  intros Ht HI. cbn [read_groups]. apply Nat.ltb_lt in HI. rewrite HI.
  rewrite read_sep_sepi, (read_ipv4_tok t _ Ht). reflexivity.
Qed.

Lemma endR_okR R : endR R -> okR R.
Proof. intros [->|[X ->]]; [left; reflexivity|right; eauto]. Qed.

Lemma PJ_plain ts gs fuel limit R :
  all_some (map spec_h16 ts) = Some gs -> endR R -> (length ts <= fuel)%nat ->
  read_groups fuel limit 0 [] (join 58 ts ++ R) = (gs, false, R).
Proof.
  intros HA HR HL. replace fuel with (length ts + (fuel - length ts))%nat by lia.
  change (join 58 ts) with (textat 0 ts). rewrite (rg_text_tok ts gs) by auto using endR_okR.
  cbn [app]. now apply read_groups_end.
Qed.

Lemma PJ_v4 init gi last a b c d fuel limit :
  all_some (map spec_h16 init) = Some gi -> spec_ip4 last = Some [a; b; c; d] ->
  (length init + 1 < limit)%nat -> (length init + 1 <= fuel)%nat ->
  read_groups fuel limit 0 [] (join 58 (init ++ [last])) = (gi ++ [a * 256 + b; c * 256 + d], true, []).
Proof.
  intros HA HL H1 H2. replace fuel with (length init + S (fuel - length init - 1))%nat by lia.
  change (join 58 (init ++ [last])) with (textat 0 (init ++ [last])). rewrite textat_snoc.
  destruct init as [|t init].
  - cbn [map all_some] in HA. injection HA as <-. rewrite textat_nil. cbn [app length Nat.add].
    change last with (sepi 0 ++ last) at 1. apply (rg_v4_end _ _ 0 [] last); [assumption|cbn [length] in H1; lia].
  - rewrite (rg_text_tok (t :: init) gi).
    + cbn [app Nat.add]. apply rg_v4_end; [assumption|lia].
    + assumption.
    + right. cbn [length Nat.add sepi app]. eauto.
Qed.

(* ---------- parser -> grammar structure ---------- *)
Definition gstruct (v4 : bool) (ts : list bytes) (gs : list N) : Prop :=
  if v4 then exists init last gi a b c d,
      ts = init ++ [last] /\ all_some (map spec_h16 init) = Some gi /\
      spec_ip4 last = Some [a; b; c; d] /\ gs = gi ++ [256 * a + b; 256 * c + d]
  else all_some (map spec_h16 ts) = Some gs.

Lemma gstruct_cons v4 t g ts gs : spec_h16 t = Some g -> gstruct v4 ts gs -> gstruct v4 (t :: ts) (g :: gs).
Proof.
  intros Ht. destruct v4; cbn [gstruct].
  - intros (init & last & gi & a & b & c & d & -> & HA & HL & ->).
    exists (t :: init), last, (g :: gi), a, b, c, d. repeat split; try assumption.
    apply all_some_cons. eauto.
  - intros HA. apply all_some_cons. eauto.
Qed.

Lemma read_sep_inv2 {A} i (inner : bytes -> option (A * bytes)) l x :
  read_sep 58 i inner l = Some x -> exists l', l = sepi i ++ l' /\ inner l' = Some x.
Proof.
  unfold read_sep. destruct i.
  - intros H. exists l. auto.
  - destruct (read_char 58 l) as [l'|] eqn:E; [|discriminate]. apply read_char_inv in E. subst.
    intros H. exists l'. auto.
Qed.

Lemma rg_inv : forall fuel limit i acc l gs v4 r,
  read_groups fuel limit i acc l = (gs, v4, r) ->
  exists ts gs', gs = acc ++ gs' /\ l = textat i ts ++ r /\ gstruct v4 ts gs'.
Proof.
  induction fuel as [|f IH]; intros limit i acc l gs v4 r H.
  - cbn [read_groups] in H. injection H as <- <- <-. exists [], []. rewrite app_nil_r, textat_nil.
    repeat split.
  - cbn [read_groups] in H.
    destruct (if Nat.ltb (S i) limit then read_sep 58 i read_ipv4 l else None) as [[o r4]|] eqn:T.
    + destruct (Nat.ltb (S i) limit) eqn:LT; [|discriminate].
      apply read_sep_inv2 in T as (l' & -> & T).
      apply read_ipv4_inv2 in T as (t & -> & T & _).
      destruct (spec_ip4_shape _ _ T) as (a & b & c & d & ->).
      injection H as <- <- <-. exists [t], [256 * a + b; 256 * c + d]. split; [|split].
      * f_equal. f_equal; [lia|]. f_equal. lia.
      * rewrite textat_cons. cbn [seps' flat_map]. now rewrite app_nil_r, <- app_assoc.
      * exists [], t, [], a, b, c, d. repeat split. assumption.
    + destruct (read_sep 58 i (read_number 16 4 65535 true) l) as [[g r6]|] eqn:E6.
      * apply read_sep_inv2 in E6 as (l' & -> & E6). apply read_hex_inv in E6 as (t & -> & Ht & _).
        apply IH in H as (ts & gs' & -> & -> & HS). exists (t :: ts), (g :: gs'). split; [|split].
        -- now rewrite <- app_assoc.
        -- rewrite textat_cons. cbn [textat]. now rewrite <- !app_assoc.
        -- now apply gstruct_cons.
      * injection H as <- <- <-. exists [], []. rewrite app_nil_r, textat_nil. repeat split.
Qed.

(* ---------- spec_groups ---------- *)
Lemma spec_groups_nil allow4 : spec_groups allow4 [] = Some [].
Proof. reflexivity. Qed.

Lemma spec_groups_snoc allow4 init last : spec_groups allow4 (init ++ [last]) =
  match all_some (map spec_h16 init) with
  | None => None
  | Some gs =>
    match spec_h16 last with
    | Some g => Some (gs ++ [g])
    | None => if allow4 then match spec_ip4 last with
                             | Some [a; b; c; d] => Some (gs ++ [256 * a + b; 256 * c + d])
                             | _ => None
                             end
              else None
    end
  end.
Proof. unfold spec_groups. rewrite rev_app_distr. cbn [rev app]. rewrite rev_involutive. reflexivity. Qed.

Lemma list_snoc {A} (l : list A) : l = [] \/ exists init last, l = init ++ [last].
Proof.
  induction l as [|x l IH]; [left; reflexivity|right]. destruct IH as [->|(init & last & ->)].
  - exists [], x. reflexivity.
  - exists (x :: init), last. reflexivity.
Qed.

Lemma spec_groups_of_struct v4 ts gs : gstruct v4 ts gs -> spec_groups true ts = Some gs /\
  (v4 = false -> spec_groups false ts = Some gs).
Proof.
  destruct v4; cbn [gstruct orb].
  - intros (init & last & gi & a & b & c & d & -> & HA & HL & ->). split; [|discriminate].
    rewrite spec_groups_snoc, HA, (spec_ip4_not_h16 _ _ HL), HL. reflexivity.
  - intros HA. assert (H : forall allow4, spec_groups allow4 ts = Some gs); [|split; auto].
    intros allow4. destruct (list_snoc ts) as [->|(init & last & ->)].
    + cbn [map all_some] in HA. injection HA as <-. reflexivity.
    + apply all_some_app_inv in HA as (gi & gl & HA & HL & ->).
      apply all_some_cons in HL as (g & gl' & Hg & HL & ->). cbn [map all_some] in HL. injection HL as <-.
      rewrite spec_groups_snoc, HA, Hg. reflexivity.
Qed.

Lemma spec_groups_inv allow4 ts gs : spec_groups allow4 ts = Some gs ->
  gstruct false ts gs \/ (allow4 = true /\ gstruct true ts gs).
Proof.
  destruct (list_snoc ts) as [->|(init & last & ->)].
  - rewrite spec_groups_nil. intros H. injection H as <-. left. reflexivity.
  - rewrite spec_groups_snoc. destruct (all_some (map spec_h16 init)) as [gi|] eqn:HA; [|discriminate].
    destruct (spec_h16 last) as [g|] eqn:Hg.
    + intros H. injection H as <-. left. cbn [gstruct]. apply all_some_app; [assumption|].
      apply all_some_cons. exists g, []. repeat split. assumption.
    + destruct allow4; [|discriminate]. destruct (spec_ip4 last) as [o|] eqn:HL; [|discriminate].
      destruct (spec_ip4_shape _ _ HL) as (a & b & c & d & ->). intros H. injection H as <-.
      right. split; [reflexivity|]. exists init, last, gi, a, b, c, d. repeat split; assumption.
Qed.

Lemma gstruct_length v4 ts gs : gstruct v4 ts gs -> length gs = (length ts + if v4 then 1 else 0)%nat.
Proof.
  destruct v4; cbn [gstruct].
  - intros (init & last & gi & a & b & c & d & -> & HA & HL & ->). apply all_some_length in HA.
    rewrite !app_length, HA. cbn [length]. lia.
  - intros HA. apply all_some_length in HA. lia.
Qed.

(* ---------- find_dcolon ---------- *)
Definition hd58 (r : bytes) : bool := match r with x :: _ => x =? 58 | [] => false end.

Lemma fd_cons c r : find_dcolon (c :: r) =
  if (c =? 58) && hd58 r then Some ([], tl r)
  else match find_dcolon r with Some (a, b) => Some (c :: a, b) | None => None end.
Proof.
  destruct (N.eqb_spec c 58) as [->|Hc]; cbn [andb].
  - destruct r as [|x r']; [reflexivity|]. cbn [hd58 tl].
    destruct (N.eqb_spec x 58) as [->|Hx]; [reflexivity|].
    destruct x as [|p]; [reflexivity|].
    do 6 (destruct p as [p|p|]; try reflexivity). congruence.
  - destruct c as [|p]; [reflexivity|].
    do 6 (destruct p as [p|p|]; try reflexivity). congruence.
Qed.

Lemma fd_inv : forall s a b, find_dcolon s = Some (a, b) -> s = a ++ 58 :: 58 :: b.
Proof.
  induction s as [|c s IH]; intros a b H; [discriminate|]. rewrite fd_cons in H.
  destruct ((c =? 58) && hd58 s) eqn:E.
  - apply andb_prop in E as [E1 E2]. apply N.eqb_eq in E1. subst c. injection H as <- <-.
    destruct s as [|x s]; [discriminate|]. cbn [hd58] in E2. apply N.eqb_eq in E2. subst x. reflexivity.
  - destruct (find_dcolon s) as [[a' b']|]; [|discriminate]. injection H as <- <-.
    cbn [app]. f_equal. now apply IH.
Qed.

Definition tokP (t : bytes) : Prop := t <> [] /\ nosep 58 t = true.

Lemma fd_nosep : forall t Y, nosep 58 t = true ->
  find_dcolon (t ++ Y) = match find_dcolon Y with Some (a, b) => Some (t ++ a, b) | None => None end.
Proof.
  induction t as [|c t IH]; intros Y H.
  - cbn [app]. destruct (find_dcolon Y) as [[a b]|]; reflexivity.
  - cbn [nosep forallb] in H. apply andb_prop in H as [Hc Ht]. cbn [app]. rewrite fd_cons.
    destruct (c =? 58); [discriminate|]. cbn [andb]. rewrite (IH Y Ht).
    destruct (find_dcolon Y) as [[a b]|]; reflexivity.
Qed.

Lemma fd_seps : forall ts X, Forall tokP ts ->
  find_dcolon (seps' ts ++ 58 :: 58 :: X) = Some (seps' ts, X).
Proof.
  induction ts as [|t ts IH]; intros X HF; [reflexivity|].
  inversion HF as [|t' ts' [Hne Hns] HF']; subst. rewrite seps'_cons. cbn [app].
  rewrite fd_cons. destruct t as [|x t]; [congruence|]. cbn [app hd58].
  pose proof Hns as Hx. cbn [nosep forallb] in Hx. apply andb_prop in Hx as [Hx _].
  destruct (x =? 58); [discriminate|]. rewrite andb_false_r.
  change (x :: t ++ seps' ts) with ((x :: t) ++ seps' ts). rewrite <- app_assoc.
  change (x :: (t ++ seps' ts ++ 58 :: 58 :: X)) with ((x :: t) ++ seps' ts ++ 58 :: 58 :: X).
  rewrite fd_nosep by assumption. rewrite (IH X HF'). reflexivity.
Qed.

Lemma fd_join ts X : Forall tokP ts -> find_dcolon (join 58 ts ++ 58 :: 58 :: X) = Some (join 58 ts, X).
Proof.
  intros HF. destruct ts as [|t ts]; [reflexivity|].
  inversion HF as [|t' ts' [Hne Hns] HF']; subst. rewrite join_seps', <- app_assoc.
  rewrite fd_nosep by assumption. now rewrite fd_seps.
Qed.

Lemma fd_seps_none : forall ts, Forall tokP ts -> find_dcolon (seps' ts) = None.
Proof.
  induction ts as [|t ts IH]; intros HF; [reflexivity|].
  inversion HF as [|t' ts' [Hne Hns] HF']; subst. rewrite seps'_cons.
  rewrite fd_cons. destruct t as [|x t]; [congruence|]. cbn [app hd58].
  pose proof Hns as Hx. cbn [nosep forallb] in Hx. apply andb_prop in Hx as [Hx _].
  destruct (x =? 58); [discriminate|]. rewrite andb_false_r.
  change (x :: t ++ seps' ts) with ((x :: t) ++ seps' ts).
  rewrite fd_nosep by assumption. now rewrite (IH HF').
Qed.

Lemma fd_join_none ts : Forall tokP ts -> find_dcolon (join 58 ts) = None.
Proof.
  intros HF. destruct ts as [|t ts]; [reflexivity|].
  inversion HF as [|t' ts' [Hne Hns] HF']; subst. rewrite join_seps'.
  rewrite fd_nosep by assumption. now rewrite fd_seps_none.
Qed.

Lemma tokP_nosep ts : Forall tokP ts -> Forall (fun p => nosep 58 p = true) ts.
Proof. apply Forall_impl. intros t [_ H]. exact H. Qed.

Lemma parts_of_join ts : Forall tokP ts -> parts_of (join 58 ts) = ts.
Proof.
  intros HF. destruct ts as [|t ts]; [reflexivity|]. unfold parts_of.
  inversion HF as [|t' ts' [Hne Hns] HF']; subst.
  destruct (join 58 (t :: ts)) as [|y l] eqn:E.
  - rewrite join_seps' in E. destruct t; [congruence|discriminate].
  - cbn [isnil]. rewrite <- E. apply split_on_join; [discriminate|now apply tokP_nosep].
Qed.

Lemma join_parts_of l : join 58 (parts_of l) = l.
Proof. unfold parts_of. destruct l as [|c l]; [reflexivity|]. cbn [isnil]. apply join_split. Qed.

(* tokens of the grammar contain no ':' *)
Lemma h16_tokP t g : spec_h16 t = Some g -> tokP t.
Proof.
  intros H. apply spec_h16_some in H as (Hne & _ & HH & _). split; [assumption|].
  revert HH. apply forallb_imp. intros x Hx. destruct (N.eqb_spec x 58) as [->|]; [discriminate|reflexivity].
Qed.

Lemma ip4_tokP t o : spec_ip4 t = Some o -> tokP t.
Proof.
  intros H. apply read_ipv4_tok in H. apply read_ipv4_inv2 in H as (t' & E & _ & Hne & HC).
  rewrite app_nil_r in E. subst t'. split; [assumption|].
  revert HC. apply forallb_imp. intros x Hx. destruct (N.eqb_spec x 58) as [->|]; [discriminate|reflexivity].
Qed.

Lemma all_h16_tokP : forall ts gs, all_some (map spec_h16 ts) = Some gs -> Forall tokP ts.
Proof.
  induction ts as [|t ts IH]; intros gs H; [constructor|].
  apply all_some_cons in H as (g & gs' & Hg & H & _). constructor; [eapply h16_tokP; eassumption|eauto].
Qed.

Lemma gstruct_tokP v4 ts gs : gstruct v4 ts gs -> Forall tokP ts.
Proof.
  destruct v4; cbn [gstruct].
  - intros (init & last & gi & a & b & c & d & -> & HA & HL & _). apply Forall_app. split.
    + eapply all_h16_tokP; eassumption.
    + constructor; [eapply ip4_tokP; eassumption|constructor].
  - apply all_h16_tokP.
Qed.

(* ---------- parser -> grammar ---------- *)
Lemma parse_to_spec s g : read_ipv6 s = Some (g, []) -> spec_ip6_groups s = Some g.
Proof.
  unfold read_ipv6. destruct (read_groups 8 8 0 [] s) as [[hd v4] r1] eqn:G1.
  destruct (read_groups_shape _ _ _ _ _ _ _ _ G1 eq_refl (Forall_nil _)) as [_ L1]. cbn [length] in L1.
  apply rg_inv in G1 as (ts & gs' & E1 & -> & S1). cbn [app] in E1. subst gs'. cbn [textat].
  pose proof (gstruct_tokP _ _ _ S1) as T1. pose proof (gstruct_length _ _ _ S1) as LS1.
  destruct (spec_groups_of_struct _ _ _ S1) as [SG1 SG1'].
  destruct (Nat.eqb_spec (length hd) 8) as [E8|N8].
  - intros H. injection H as <- ->. rewrite app_nil_r. unfold spec_ip6_groups.
    rewrite fd_join_none by assumption.
    rewrite split_on_join; [|intros ->; destruct v4; cbn [length] in LS1; lia|now apply tokP_nosep].
    rewrite SG1, E8. reflexivity.
  - destruct v4; [discriminate|]. specialize (SG1' eq_refl).
    destruct (read_char 58 r1) as [r2|] eqn:C1; [|discriminate]. apply read_char_inv in C1. subst r1.
    destruct (read_char 58 r2) as [r3|] eqn:C2; [|discriminate]. apply read_char_inv in C2. subst r2.
    remember (8 - (length hd + 1))%nat as lim eqn:Elim.
    destruct (read_groups lim lim 0 [] r3) as [[tl v4'] r4] eqn:G2.
    destruct (read_groups_shape _ _ _ _ _ _ _ _ G2 eq_refl (Forall_nil _)) as [_ L2]. cbn [length] in L2.
    apply rg_inv in G2 as (ts2 & gs2 & E2 & -> & S2). cbn [app] in E2. subst gs2. cbn [textat].
    remember (8 - length hd - length tl)%nat as k eqn:Ek.
    intros H. injection H as <- ->. rewrite app_nil_r.
    pose proof (gstruct_tokP _ _ _ S2) as T2. destruct (spec_groups_of_struct _ _ _ S2) as [SG2 _].
    unfold spec_ip6_groups. rewrite fd_join by assumption. rewrite !parts_of_join by assumption.
    rewrite SG1', SG2. destruct (Nat.leb_spec (length hd + length tl) 7) as [_|HB]; [|lia].
    subst k. reflexivity.
Qed.

(* ---------- grammar -> parser ---------- *)
Lemma read_ipv6_of_groups_plain ts gs : all_some (map spec_h16 ts) = Some gs -> length gs = 8%nat ->
  read_ipv6 (join 58 ts) = Some (gs, []).
Proof.
  intros HA HL. unfold read_ipv6. rewrite <- (app_nil_r (join 58 ts)).
  rewrite (PJ_plain ts gs); [|assumption|left; reflexivity|apply all_some_length in HA; lia].
  cbn beta iota. rewrite HL. reflexivity.
Qed.

Lemma spec_to_parse s g : spec_ip6_groups s = Some g -> read_ipv6 s = Some (g, []).
Proof.
  unfold spec_ip6_groups. destruct (find_dcolon s) as [[lft rgt]|] eqn:FD.
  - apply fd_inv in FD. subst s.
    destruct (spec_groups false (parts_of lft)) as [hs|] eqn:SH; [|discriminate].
    destruct (spec_groups true (parts_of rgt)) as [ts|] eqn:ST; [|discriminate].
    destruct (Nat.leb_spec (length hs + length ts) 7) as [HB|_]; [|discriminate].
    intros H. injection H as <-.
    rewrite <- (join_parts_of lft), <- (join_parts_of rgt).
    remember (parts_of lft) as hp eqn:Ehp. remember (parts_of rgt) as tp eqn:Etp. clear Ehp Etp lft rgt.
    apply spec_groups_inv in SH as [SH|[SH _]]; [|discriminate]. cbn [gstruct] in SH.
    pose proof (all_some_length _ _ _ SH) as LH.
    unfold read_ipv6.
    rewrite (PJ_plain hp hs); [|assumption|right; eauto|lia]. cbn beta iota.
    destruct (Nat.eqb_spec (length hs) 8) as [E8|_]; [lia|].
    rewrite read_char_eq. cbn beta iota. rewrite read_char_eq. cbn beta iota.
    remember (8 - (length hs + 1))%nat as lim eqn:Elim.
    apply spec_groups_inv in ST as [ST|[_ ST]]; cbn [gstruct] in ST.
    + pose proof (all_some_length _ _ _ ST) as LT. rewrite <- (app_nil_r (join 58 tp)).
      rewrite (PJ_plain tp ts); [|assumption|left; reflexivity|lia]. reflexivity.
    + destruct ST as (init & last & gi & a & b & c & d & -> & HA & HL & ->).
      pose proof (all_some_length _ _ _ HA) as LI. rewrite app_length in HB. cbn [length] in HB.
      rewrite (PJ_v4 init gi last a b c d); [|assumption|assumption|lia|lia].
      rewrite !app_length. cbn [length]. f_equal. f_equal. f_equal. f_equal. f_equal.
      f_equal; [lia|]. f_equal. lia.
  - destruct (spec_groups true (split_on 58 s)) as [gs|] eqn:SG; [|discriminate].
    destruct (Nat.eqb_spec (length gs) 8) as [E8|_]; [|discriminate].
    intros H. injection H as <-. rewrite <- (join_split 58 s).
    remember (split_on 58 s) as ps eqn:Eps. clear Eps FD s.
    apply spec_groups_inv in SG as [SG|[_ SG]]; cbn [gstruct] in SG.
    + now apply read_ipv6_of_groups_plain.
    + destruct SG as (init & last & gi & a & b & c & d & -> & HA & HL & ->).
      pose proof (all_some_length _ _ _ HA) as LI. rewrite app_length in E8. cbn [length] in E8.
      unfold read_ipv6. rewrite (PJ_v4 init gi last a b c d); [|assumption|assumption|lia|lia].
      cbn beta iota.
      replace (gi ++ [a * 256 + b; c * 256 + d]) with (gi ++ [256 * a + b; 256 * c + d])
        by (f_equal; f_equal; [lia|]; f_equal; lia).
      rewrite app_length. cbn [length]. rewrite E8. reflexivity.
Qed.

(* 5 *)
Lemma parse_ipv6_spec : forall s, parse_ipv6 s = spec_ip6 s.
Proof.
  intros s. unfold parse_ipv6, spec_ip6. destruct (read_ipv6 s) as [[g r]|] eqn:E.
  - destruct r as [|x r].
    + now rewrite (parse_to_spec _ _ E).
    + destruct (spec_ip6_groups s) as [g'|] eqn:E2; [|reflexivity].
      apply spec_to_parse in E2. congruence.
  - destruct (spec_ip6_groups s) as [g'|] eqn:E2; [|reflexivity].
    apply spec_to_parse in E2. congruence.
Qed.
