(* Facts about the text primitives of the v1 model: first_cr, cut, splitn, terminated, the window. *)
From PPP Require Import Base.Bytes Std.Utf8 Std.Text Model.V1 Proofs.BytesFacts.

Definition no_cr (l : bytes) : bool := forallb (fun c => negb (c =? CR)) l.
Definition no_sep (l : bytes) : bool := forallb (fun c => negb (is_sep c)) l.

Lemma first_cr_none l : first_cr l = None <-> no_cr l = true.
Proof.
  induction l as [|c r IH]; cbn [first_cr no_cr forallb]; [tauto|].
  destruct (c =? CR) eqn:E; cbn [negb andb].
  - split; discriminate.
  - fold (no_cr r). rewrite <- IH. destruct (first_cr r); cbn; split; congruence.
Qed.

Lemma first_cr_some l i : first_cr l = Some i ->
  exists a b, l = a ++ CR :: b /\ lenN a = i /\ no_cr a = true.
Proof.
  revert i; induction l as [|c r IH]; intros i H; cbn [first_cr] in H; [discriminate|].
  destruct (c =? CR) eqn:E.
  - injection H as <-. apply N.eqb_eq in E. subst c. exists (@nil N), r. repeat split.
  - destruct (first_cr r) as [j|] eqn:Er; [|discriminate]. cbn in H. injection H as <-.
    destruct (IH j eq_refl) as (a & b & -> & Hl & Hn). exists (c :: a), b. repeat split.
    + rewrite lenN_cons. lia.
    + cbn [no_cr forallb]. rewrite E. exact Hn.
Qed.

Lemma first_cr_app l t : no_cr l = true -> first_cr (l ++ CR :: t) = Some (lenN l).
Proof.
  induction l as [|c r IH]; intros H; cbn [app first_cr no_cr forallb] in *.
  - reflexivity.
  - apply andb_prop in H as [Hc Hr]. destruct (c =? CR); [discriminate|].
    rewrite (IH Hr). reflexivity.
Qed.

Lemma first_cr_app_some l t i : first_cr l = Some i -> first_cr (l ++ t) = Some i.
Proof.
  intros H. destruct (first_cr_some l i H) as (a & b & -> & <- & Hn).
  rewrite <- app_assoc. cbn [app]. now apply first_cr_app.
Qed.

Lemma first_cr_lt l i : first_cr l = Some i -> i < lenN l.
Proof.
  intros H. destruct (first_cr_some l i H) as (a & b & -> & <- & _). rewrite lenN_app, lenN_cons. lia.
Qed.

Lemma no_cr_app a b : no_cr (a ++ b) = no_cr a && no_cr b.
Proof. apply forallb_app. Qed.
Lemma no_sep_app a b : no_sep (a ++ b) = no_sep a && no_sep b.
Proof. apply forallb_app. Qed.
Lemma no_sep_no_cr l : no_sep l = true -> no_cr l = true.
Proof.
  induction l as [|c r IH]; [reflexivity|]. cbn [no_sep no_cr forallb]. intros H. apply andb_prop in H as [Hc Hr].
  fold (no_cr r). rewrite (IH Hr). unfold is_sep in Hc. destruct (c =? CR); [now rewrite orb_true_r in Hc|reflexivity].
Qed.

(* ---- cut ---- *)
Lemma cut_none l a : cut l = (a, None) -> a = l /\ no_sep l = true.
Proof.
  revert a; induction l as [|c r IH]; intros a H; cbn [cut] in H.
  - injection H as <-. now split.
  - destruct (is_sep c) eqn:E; [discriminate|]. destruct (cut r) as [a' t] eqn:Ec. injection H as <- ->.
    destruct (IH a' eq_refl) as [-> Hn]. split; [reflexivity|]. cbn [no_sep forallb]. now rewrite E.
Qed.

Lemma cut_some l a r : cut l = (a, Some r) -> exists c, l = a ++ c :: r /\ is_sep c = true /\ no_sep a = true.
Proof.
  revert a; induction l as [|c l IH]; intros a H; cbn [cut] in H; [discriminate|].
  destruct (is_sep c) eqn:E.
  - injection H as <- <-. exists c. repeat split. exact E.
  - destruct (cut l) as [a' t] eqn:Ec. injection H as <- ->.
    destruct (IH a' eq_refl) as (c' & -> & Hs & Hn). exists c'. repeat split; [exact Hs|].
    cbn [no_sep forallb]. now rewrite E.
Qed.

Lemma cut_app a c r : no_sep a = true -> is_sep c = true -> cut (a ++ c :: r) = (a, Some r).
Proof.
  induction a as [|x a IH]; intros Hn Hc; cbn [app cut].
  - now rewrite Hc.
  - cbn [no_sep forallb] in Hn. apply andb_prop in Hn as [Hx Ha]. destruct (is_sep x); [discriminate|].
    now rewrite (IH Ha Hc).
Qed.

Lemma cut_nosep a : no_sep a = true -> cut a = (a, None).
Proof.
  induction a as [|x a IH]; intros Hn; cbn [cut]; [reflexivity|].
  cbn [no_sep forallb] in Hn. apply andb_prop in Hn as [Hx Ha]. destruct (is_sep x); [discriminate|].
  now rewrite (IH Ha).
Qed.

(* ---- splitn ---- *)
Lemma splitn_SS n l : splitn (S (S n)) l =
  match cut l with (a, None) => [a] | (a, Some r) => a :: splitn (S n) r end.
Proof. reflexivity. Qed.

Lemma splitn_nonnil n l : isnil (splitn (S n) l) = false.
Proof. destruct n; [reflexivity|]. rewrite splitn_SS. destruct (cut l) as [a [r|]]; reflexivity. Qed.

Lemma splitn_sep n a c r : no_sep a = true -> is_sep c = true ->
  splitn (S (S n)) (a ++ c :: r) = a :: splitn (S n) r.
Proof. intros Hn Hc. now rewrite splitn_SS, cut_app. Qed.

Lemma splitn_last n a : no_sep a = true -> splitn (S n) a = [a].
Proof. intros Hn. destruct n; [reflexivity|]. now rewrite splitn_SS, cut_nosep. Qed.

(* ---- terminated and the window ---- *)
Lemma terminated_true h : terminated h = true <->
  exists a b t, h = a ++ CR :: b :: t /\ no_cr a = true.
Proof.
  unfold terminated. split.
  - destruct (first_cr h) as [i|] eqn:E; [|discriminate]. intros H.
    destruct (first_cr_some h i E) as (a & r & -> & <- & Hn).
    rewrite lenN_app, lenN_cons in H. destruct r as [|b t]; [rewrite lenN_nil in H; lia|]. now exists a, b, t.
  - intros (a & b & t & -> & Hn). rewrite first_cr_app by assumption.
    rewrite lenN_app, !lenN_cons. lia.
Qed.

(* the window of an input whose first CR is followed by at least one byte *)
Lemma window_cr x i : first_cr x = Some i -> i + 1 < lenN x ->
  exists a b t, x = a ++ CR :: b :: t /\ lenN a = i /\ no_cr a = true /\ takeN (i + 2) x = a ++ [CR; b]
  /\ window_len x = Ok (i + 2).
Proof.
  intros H Hl. destruct (first_cr_some x i H) as (a & r & -> & <- & Hn).
  rewrite lenN_app, lenN_cons in Hl. destruct r as [|b t]; [rewrite lenN_nil in Hl; lia|].
  exists a, b, t. repeat split; try assumption.
  - replace (a ++ CR :: b :: t) with ((a ++ [CR; b]) ++ t) by (rewrite <- app_assoc; reflexivity).
    apply takeN_app_exact. rewrite lenN_app, !lenN_cons, lenN_nil. lia.
  - unfold window_len. rewrite H. f_equal. rewrite lenN_app, !lenN_cons. lia.
Qed.

Lemma terminated_window a b : no_cr a = true -> terminated (a ++ [CR; b]) = true.
Proof. intros Hn. apply terminated_true. now exists a, b, []. Qed.
