(* C05 for v1: every proper prefix of an accepted line is reported incomplete. *)
From PPP Require Import Base.Bytes Std.Utf8 Std.Text Std.Num Std.Ip Model.V1 Model.V2 Model.Auto
  Proofs.BytesFacts Proofs.StdUtf8 Proofs.StdNum Proofs.V1Text Proofs.V1Final Proofs.V1Lines Proofs.V1Shape Proofs.V1Props
  Proofs.AutoProps.

(* ---- prefixes of a run of SP-joined fields ---- *)
Lemma join_sp_cons' f l : l <> [] -> join_sp (f :: l) = f ++ SP :: join_sp l.
Proof. destruct l; [congruence|reflexivity]. Qed.

Lemma prefix_of_join fs : fs <> [] -> forall k, k <= lenN (join_sp fs) ->
  exists j q q', (j < length fs)%nat /\ takeN k (join_sp fs) = join_sp (firstn j fs ++ [q]) /\ nth j fs [] = q ++ q'.
Proof.
  induction fs as [|f fs IH]; intros Hne k Hk; [congruence|].
  destruct fs as [|g r].
  - exists 0%nat, (takeN k f), (dropN k f). cbn [length firstn app join_sp nth]. repeat split; [lia|].
    now rewrite takeN_dropN.
  - rewrite join_sp_cons in *. destruct (k <=? lenN f) eqn:E.
    + exists 0%nat, (takeN k f), (dropN k f). cbn [length firstn app join_sp nth]. repeat split; [lia| |].
      * apply takeN_app_le. lia.
      * now rewrite takeN_dropN.
    + rewrite lenN_app, lenN_cons in Hk.
      destruct (IH ltac:(discriminate) (k - lenN f - 1) ltac:(lia)) as (j & q & q' & Hj & Ht & Hq).
      exists (S j), q, q'. cbn [length firstn nth] in *. repeat split; [lia| |exact Hq].
      rewrite takeN_app_ge by lia. rewrite takeN_cons by lia.
      replace (k - lenN f - 1) with (k - lenN f - 1) in Ht by reflexivity. rewrite Ht.
      cbn [app]. rewrite join_sp_cons'; [reflexivity|]. destruct (firstn j (g :: r)); discriminate.
Qed.

Lemma no_sep_prefix q q' : no_sep (q ++ q') = true -> no_sep q = true.
Proof. rewrite no_sep_app. intros H. now apply andb_prop in H. Qed.

Lemma all_nosep_firstn j fs : all_nosep fs = true -> all_nosep (firstn j fs) = true.
Proof.
  revert fs; induction j as [|j IH]; intros [|f fs] H; try reflexivity. cbn [firstn all_nosep forallb] in *.
  apply andb_prop in H as [Hf Hr]. rewrite Hf. now apply IH.
Qed.

Lemma all_nosep_app a b : all_nosep (a ++ b) = all_nosep a && all_nosep b.
Proof. apply forallb_app. Qed.

Lemma all_nosep_nth j fs : all_nosep fs = true -> no_sep (nth j fs []) = true.
Proof.
  revert fs; induction j as [|j IH]; intros [|f fs] H; try reflexivity; cbn [nth all_nosep forallb] in *;
    apply andb_prop in H as [Hf Hr]; [exact Hf|now apply IH].
Qed.

(* ---- ports: a non-empty prefix of a valid port spelling is a valid port spelling ---- *)
Lemma port_value_prefix q q' n : port_value (q ++ q') = Some n -> q <> [] -> exists n', port_value q = Some n'.
Proof.
  unfold port_value. intros H Hq. destruct q as [|c q]; [congruence|]. cbn [app] in H.
  destruct ((is_prefix [48] (c :: q ++ q') && negb (beq (c :: q ++ q') [48])) || is_prefix [43] (c :: q ++ q')) eqn:Eb; [discriminate|].
  apply orb_false_iff in Eb as [E0 Ep]. cbn [is_prefix] in E0, Ep. rewrite andb_true_r in *.
  assert (Ep' : is_prefix [43] (c :: q) = false) by (cbn [is_prefix]; now rewrite andb_true_r).
  assert (E0' : (is_prefix [48] (c :: q) && negb (beq (c :: q) [48])) = false).
  { cbn [is_prefix]. rewrite andb_true_r. destruct (48 =? c) eqn:E48; [|reflexivity]. cbn [andb] in *.
    apply negb_false_iff, beq_eq in E0. injection E0 as _ E0. apply app_eq_nil in E0 as [-> _].
    apply N.eqb_eq in E48. subst c. reflexivity. }
  rewrite E0', Ep'. cbn [orb].
  assert (Hne : 43 =? c = false) by exact Ep.
  (* parse_u16 on something not starting with '+' is the digit loop *)
  assert (P : forall l, parse_u16 (c :: l) = u16_digits (c :: l) 0).
  { intros l. unfold parse_u16. destruct c as [|p]; [reflexivity|].
    do 6 (try (destruct p as [p|p|]; try reflexivity)). discriminate Hne. }
  rewrite P in H |- *. change (c :: q ++ q') with ((c :: q) ++ q') in H.
  apply u16_digits_prefix in H. exact H.
Qed.

(* ---- a proper prefix of a line [a ++ CRLF] is unterminated and does not end in CRLF ---- *)
Lemma proper_prefix_cases a k : k < lenN a + 2 ->
  (k <= lenN a /\ takeN k (a ++ CRLF) = takeN k a) \/ (k = lenN a + 1 /\ takeN k (a ++ CRLF) = a ++ [CR]).
Proof.
  intros Hk. destruct (k <=? lenN a) eqn:E.
  - left. split; [lia|]. apply takeN_app_le. lia.
  - right. split; [lia|]. rewrite takeN_app_ge by lia. replace (k - lenN a) with 1 by lia. reflexivity.
Qed.

Lemma no_cr_takeN a k : no_cr a = true -> no_cr (takeN k a) = true.
Proof. intros H. rewrite <- (takeN_dropN k a), no_cr_app in H. now apply andb_prop in H. Qed.

Lemma not_crlf_nocr l : no_cr l = true -> is_suffix CRLF l = false.
Proof.
  intros H. destruct (is_suffix CRLF l) eqn:E; [|reflexivity]. apply is_suffix_app in E as [r ->].
  rewrite no_cr_app in H. apply andb_prop in H as [_ H]. discriminate.
Qed.

Lemma not_crlf_cr_end l : is_suffix CRLF (l ++ [CR]) = false.
Proof.
  destruct (is_suffix CRLF (l ++ [CR])) eqn:E; [|reflexivity]. apply is_suffix_app in E as [r Hr].
  change CRLF with ([CR] ++ [LF]) in Hr. rewrite app_assoc in Hr. apply app_inj_tail in Hr as [_ Hr]. discriminate.
Qed.

(* ---- the result on an unterminated run of fields, keyed on what comes after PROXY ---- *)
Definition inc (r : result header1 err1) : bool := is_incomplete1s r.

(* common frame: an unterminated non-empty header of at most 107 bytes whose parts are known *)
Lemma parse_header_parts h parts : isnil h = false -> lenN h <= MAX_LENGTH -> terminated h = false ->
  splitn PARTS h = parts ->
  parse_header h =
  match parts with
  | [] => Err MissingPrefix
  | prefix :: rest =>
    if negb (isnil prefix) && is_prefix prefix PROXY && is_suffix prefix h then Err Partial1
    else if negb (beq prefix PROXY) then Err InvalidPrefix
    else match rest with
    | [] => Err MissingProtocol
    | proto :: fields =>
      if beq proto TCP4 then
        match parse_addresses1 parse_ipv4 false fields with
        | Err e => Err e | Ok (sa, da, sp, dp) => finish1 h false fields (Tcp4 sa da sp dp) end
      else if beq proto TCP6 then
        match parse_addresses1 parse_ipv6 false fields with
        | Err e => Err e | Ok (sa, da, sp, dp) => finish1 h false fields (Tcp6 sa da sp dp) end
      else if beq proto UNKNOWN then
        if is_suffix CRLF h then Ok {| text := h; addr := Unknown |} else Err MissingNewLine
      else if isnil proto && isnil fields then Err MissingProtocol
      else if negb (isnil proto) && is_suffix proto h && (is_prefix proto TCP4 || is_prefix proto UNKNOWN) then Err Partial1
      else Err InvalidProtocol
    end
  end.
Proof.
  intros Hne Hl Ht Hs. unfold parse_header. rewrite Hne, Ht, Hs. replace (MAX_LENGTH <? lenN h) with false by lia.
  cbn [negb andb]. reflexivity.
Qed.

(* the address part of an unterminated TCP line: fewer than four complete fields, or four and a partial port *)
Lemma addresses_incomplete parse (A : list bytes) sa da sp dp a c n m j q q' h mk :
  A = [sa; da; sp; dp] -> parse sa = Some a -> parse da = Some c -> port_value sp = Some n -> port_value dp = Some m ->
  (j < 4)%nat -> nth j A [] = q ++ q' ->
  inc (match parse_addresses1 parse false (firstn j A ++ [q]) with
       | Err e => Err e
       | Ok (x, y, z, w) => finish1 h false (firstn j A ++ [q]) (mk x y z w)
       end) = true.
Proof.
  intros -> Ha Hc Hn Hm Hj Hq.
  destruct j as [|[|[|[|j]]]]; try lia; cbn [firstn app nth] in *.
  - reflexivity.
  - reflexivity.
  - reflexivity.
  - destruct q as [|q0 q].
    + reflexivity.
    + rewrite parse_addresses1_four by reflexivity.
      destruct (port_value_prefix (q0 :: q) q' m) as [m' Hm']; [now rewrite <- Hq|discriminate|].
      assert (V : validate parse sa da sp (q0 :: q) = Ok (a, c, n, m')) by (apply validate_ok; tauto).
      rewrite V. reflexivity.
Qed.

Lemma prefix_TCP q q' : (TCP4 = q ++ q' \/ TCP6 = q ++ q' \/ UNKNOWN = q ++ q') ->
  beq q TCP4 = true \/ beq q TCP6 = true \/ beq q UNKNOWN = true \/ q = []
  \/ (beq q TCP4 = false /\ beq q TCP6 = false /\ beq q UNKNOWN = false /\ isnil q = false
      /\ (is_prefix q TCP4 || is_prefix q UNKNOWN) = true).
Proof.
  intros [H|[H|H]].
  - destruct q as [|x0 [|x1 [|x2 [|x3 [|x4 q]]]]]; cbn [app] in H; inversion H; subst; cbn; tauto.
  - destruct q as [|x0 [|x1 [|x2 [|x3 [|x4 q]]]]]; cbn [app] in H; inversion H; subst; cbn; tauto.
  - destruct q as [|x0 [|x1 [|x2 [|x3 [|x4 [|x5 [|x6 [|x7 q]]]]]]]]; cbn [app] in H; inversion H; subst; cbn; tauto.
Qed.

(* inside "PROXY <protocol>": the first field or a prefix of the second *)
Lemma head_prefix_incomplete P j q q' :
  (P = TCP4 \/ P = TCP6 \/ P = UNKNOWN) -> (j < 2)%nat -> nth j [PROXY; P] [] = q ++ q' ->
  let h := join_sp (firstn j [PROXY; P] ++ [q]) in
  lenN h <= MAX_LENGTH -> inc (parse_header h) = true.
Proof.
  intros K Hj Hq h Hl.
  assert (HP : no_sep P = true) by (destruct K as [->|[->| ->]]; reflexivity).
  assert (Hall : all_nosep [PROXY; P] = true) by (cbn [all_nosep forallb]; now rewrite HP).
  assert (Hq' : no_sep q = true).
  { apply (no_sep_prefix q q'). rewrite <- Hq. now apply all_nosep_nth. }
  assert (Hfs : all_nosep (firstn j [PROXY; P] ++ [q]) = true).
  { rewrite all_nosep_app, all_nosep_firstn by assumption. cbn [all_nosep forallb andb]. now rewrite Hq'. }
  destruct (isnil h) eqn:Hne.
  { unfold parse_header. now rewrite Hne. }
  assert (Hnt : terminated h = false) by (apply not_terminated_nocr; unfold h; now apply no_cr_join_sp).
  assert (Hsp : splitn PARTS h = firstn j [PROXY; P] ++ [q]).
  { unfold h, PARTS. apply splitn_join; [exact Hfs|]. rewrite app_length, firstn_length. cbn [length]. lia. }
  rewrite (parse_header_parts h _ Hne Hl Hnt Hsp).
  destruct j as [|[|j]]; [| |lia].
  - cbn [firstn app nth] in *. unfold h in *. cbn [firstn app join_sp] in *.
    rewrite Hne. cbn [negb andb]. rewrite is_suffix_self, andb_true_r.
    replace (is_prefix q PROXY) with true; [reflexivity|]. symmetry. apply is_prefix_app. eauto.
  - cbn [firstn app nth] in *.
    destruct (negb (isnil PROXY) && is_prefix PROXY PROXY && is_suffix PROXY h); [reflexivity|].
    cbn [beq PROXY negb]. rewrite !N.eqb_refl. cbn [andb negb].
    assert (Hsuf : is_suffix q h = true) by (unfold h; cbn [firstn app join_sp]; apply is_suffix_app; now exists (PROXY ++ [SP])).
    destruct (prefix_TCP q q') as [E|[E|[E|[E|(E4 & E6 & EU & En & Ep)]]]].
    { destruct K as [->|[->| ->]]; tauto. }
    + rewrite E. reflexivity.
    + destruct (beq q TCP4); [reflexivity|]. rewrite E. reflexivity.
    + destruct (beq q TCP4); [reflexivity|]. destruct (beq q TCP6); [reflexivity|]. rewrite E.
      rewrite not_crlf_nocr by (unfold h; now apply no_cr_join_sp). reflexivity.
    + subst q. reflexivity.
    + rewrite E4, E6, EU, En, Hsuf, Ep. reflexivity.
Qed.

(* an unterminated header made of the first j fields of a valid TCP line and a prefix of the next one *)
Lemma tcp_fields_prefix_incomplete P parse sa da sp dp a c n m j q q' :
  tcp_kind P parse -> all_nosep [sa; da; sp; dp] = true ->
  parse sa = Some a -> parse da = Some c -> port_value sp = Some n -> port_value dp = Some m ->
  (j < 6)%nat -> nth j [PROXY; P; sa; da; sp; dp] [] = q ++ q' ->
  let h := join_sp (firstn j [PROXY; P; sa; da; sp; dp] ++ [q]) in
  lenN h <= MAX_LENGTH -> inc (parse_header h) = true.
Proof.
  intros K Hns Ha Hc Hn Hm Hj Hq h Hl.
  destruct j as [|[|j]].
  - apply (head_prefix_incomplete P 0 q q'); [destruct K as [[-> _]|[-> _]]; tauto|lia|exact Hq|exact Hl].
  - apply (head_prefix_incomplete P 1 q q'); [destruct K as [[-> _]|[-> _]]; tauto|lia|exact Hq|exact Hl].
  - assert (HP : no_sep P = true) by (destruct K as [[-> _]|[-> _]]; reflexivity).
    assert (Hall : all_nosep [PROXY; P; sa; da; sp; dp] = true) by (cbn [all_nosep forallb] in *; now rewrite HP).
    assert (Hq' : no_sep q = true).
    { apply (no_sep_prefix q q'). rewrite <- Hq. now apply all_nosep_nth. }
    assert (Hfs : all_nosep (firstn (S (S j)) [PROXY; P; sa; da; sp; dp] ++ [q]) = true).
    { rewrite all_nosep_app, all_nosep_firstn by assumption. cbn [all_nosep forallb andb]. now rewrite Hq'. }
    assert (Hne : isnil h = false) by reflexivity.
    assert (Hnt : terminated h = false) by (apply not_terminated_nocr; unfold h; now apply no_cr_join_sp).
    assert (Hsp : splitn PARTS h = firstn (S (S j)) [PROXY; P; sa; da; sp; dp] ++ [q]).
    { unfold h, PARTS. apply splitn_join; [exact Hfs|]. rewrite app_length, firstn_length. cbn [length]. lia. }
    rewrite (parse_header_parts h _ Hne Hl Hnt Hsp).
    assert (Hj' : (j < 4)%nat) by lia.
    change (firstn (S (S j)) [PROXY; P; sa; da; sp; dp]) with (PROXY :: P :: firstn j [sa; da; sp; dp]) in *.
    change (nth (S (S j)) [PROXY; P; sa; da; sp; dp] []) with (nth j [sa; da; sp; dp] []) in Hq.
    cbn [app].
    destruct (negb (isnil PROXY) && is_prefix PROXY PROXY && is_suffix PROXY h); [reflexivity|].
    cbn [beq PROXY negb]. rewrite !N.eqb_refl. cbn [andb negb].
    destruct K as [[-> ->]|[-> ->]].
    + rewrite beq_refl. now apply (addresses_incomplete parse_ipv4 [sa; da; sp; dp] sa da sp dp a c n m j q q').
    + change (beq TCP6 TCP4) with false. cbv iota. rewrite beq_refl.
      now apply (addresses_incomplete parse_ipv6 [sa; da; sp; dp] sa da sp dp a c n m j q q').
Qed.

(* the whole line without its LF *)
Lemma tcp_line_cr_incomplete P parse sa da sp dp a c n m :
  tcp_kind P parse -> all_nosep [sa; da; sp; dp] = true ->
  parse sa = Some a -> parse da = Some c -> port_value sp = Some n -> port_value dp = Some m ->
  let h := six PROXY P sa da sp dp ++ [CR] in
  lenN h <= MAX_LENGTH -> inc (parse_header h) = true.
Proof.
  intros K Hns Ha Hc Hn Hm h Hl.
  assert (HP : no_sep P = true) by (destruct K as [[-> _]|[-> _]]; reflexivity).
  assert (Hall : all_nosep [PROXY; P; sa; da; sp; dp] = true) by (cbn [all_nosep forallb] in *; now rewrite HP).
  assert (Hne : isnil h = false) by reflexivity.
  assert (Hnt : terminated h = false) by (apply not_terminated_cr_end; unfold six; now apply no_cr_join_sp).
  assert (Hsp : splitn PARTS h = [PROXY; P; sa; da; sp; dp; []]).
  { unfold h, six, PARTS. rewrite splitn_join_cr by (assumption || (cbn; lia)). reflexivity. }
  rewrite (parse_header_parts h _ Hne Hl Hnt Hsp).
  destruct (negb (isnil PROXY) && is_prefix PROXY PROXY && is_suffix PROXY h); [reflexivity|].
  cbn [beq PROXY negb]. rewrite !N.eqb_refl. cbn [andb negb].
  assert (V : forall parse', parse' = parse -> validate parse' sa da sp dp = Ok (a, c, n, m)) by (intros ? ->; apply validate_ok; tauto).
  destruct K as [[-> ->]|[-> ->]].
  - rewrite beq_refl, parse_addresses1_four by (cbn [negb isnil]; now rewrite andb_false_r). rewrite (V _ eq_refl). reflexivity.
  - change (beq TCP6 TCP4) with false. cbv iota.
    rewrite beq_refl, parse_addresses1_four by (cbn [negb isnil]; now rewrite andb_false_r).
    rewrite (V _ eq_refl). reflexivity.
Qed.

(* UNKNOWN: anything that extends "PROXY UNKNOWN" by a separator and more, unterminated, not ending in CRLF *)
Lemma unknown_more_incomplete c tl : is_sep c = true ->
  let h := unknown_head ++ c :: tl in
  lenN h <= MAX_LENGTH -> terminated h = false -> is_suffix CRLF h = false -> inc (parse_header h) = true.
Proof.
  intros Hc h Hl Hnt Hsuf.
  assert (Hne : isnil h = false) by reflexivity.
  assert (Hs : exists fields, splitn PARTS h = PROXY :: UNKNOWN :: fields).
  { unfold h, unknown_head, PARTS. rewrite <- app_assoc. cbn [app].
    rewrite splitn_sep by reflexivity. rewrite splitn_sep by (reflexivity || assumption). eauto. }
  destruct Hs as [fields Hs]. rewrite (parse_header_parts h _ Hne Hl Hnt Hs).
  destruct (negb (isnil PROXY) && is_prefix PROXY PROXY && is_suffix PROXY h); [reflexivity|].
  cbn [beq PROXY negb]. rewrite !N.eqb_refl. cbn [andb negb].
  change (beq UNKNOWN TCP4) with false. change (beq UNKNOWN TCP6) with false. cbv iota.
  rewrite beq_refl, Hsuf. reflexivity.
Qed.

(* ---- every proper prefix of every accepted line ---- *)
Lemma tcp_line_prefix_incomplete P parse sa da sp dp x y n m k :
  tcp_kind P parse -> all_nosep [sa; da; sp; dp] = true ->
  parse sa = Some x -> parse da = Some y -> port_value sp = Some n -> port_value dp = Some m ->
  lenN (six PROXY P sa da sp dp) + 2 <= MAX_LENGTH -> k < lenN (six PROXY P sa da sp dp) + 2 ->
  inc (parse_header (takeN k (six PROXY P sa da sp dp ++ CRLF))) = true.
Proof.
  intros K Hns V1 V2 V3 V4 Hl Hk.
  destruct (proper_prefix_cases _ k Hk) as [[Hk' ->]|[Hk' ->]].
  - destruct (prefix_of_join [PROXY; P; sa; da; sp; dp] ltac:(discriminate) k Hk') as (j & q & q' & Hj & Ht & Hq).
    unfold six. rewrite Ht.
    apply (tcp_fields_prefix_incomplete P parse sa da sp dp x y n m j q q'); try assumption.
    cbv zeta. unfold bytes in *. rewrite <- Ht, lenN_takeN. unfold six in *. lia.
  - apply (tcp_line_cr_incomplete P parse sa da sp dp x y n m); try assumption.
    rewrite lenN_app, lenN_cons, lenN_nil. lia.
Qed.

Lemma unknown_line_prefix_incomplete rest k :
  (rest = [] \/ exists t, rest = SP :: t) -> no_cr rest = true ->
  lenN (unknown_head ++ rest) + 2 <= MAX_LENGTH -> k < lenN (unknown_head ++ rest) + 2 ->
  inc (parse_header (takeN k ((unknown_head ++ rest) ++ CRLF))) = true.
Proof.
  intros Hr Hn Hl Hk.
  assert (Hna : no_cr (unknown_head ++ rest) = true) by (rewrite no_cr_app, Hn; reflexivity).
  destruct (proper_prefix_cases _ k Hk) as [[Hk' ->]|[Hk' ->]].
  - destruct (k <=? 13) eqn:E13.
    + (* inside "PROXY UNKNOWN" *)
      rewrite takeN_app_le by (change (lenN unknown_head) with 13; lia).
      change unknown_head with (join_sp [PROXY; UNKNOWN]).
      destruct (prefix_of_join [PROXY; UNKNOWN] ltac:(discriminate) k ltac:(change (lenN (join_sp [PROXY; UNKNOWN])) with 13; lia))
        as (j & q & q' & Hj & Ht & Hq).
      rewrite Ht. apply (head_prefix_incomplete UNKNOWN j q q'); [tauto|exact Hj|exact Hq|].
      cbv zeta. unfold bytes in *. rewrite <- Ht, lenN_takeN. unfold MAX_LENGTH. lia.
    + (* beyond it: the rest is SP :: t and we are inside it *)
      rewrite lenN_app in Hk'. change (lenN unknown_head) with 13 in *.
      destruct Hr as [->|[t ->]]; [rewrite lenN_nil in Hk'; lia|].
      rewrite takeN_app_ge by (change (lenN unknown_head) with 13; lia). change (lenN unknown_head) with 13.
      rewrite takeN_cons by lia.
      assert (Hnc : no_cr (unknown_head ++ SP :: takeN (k - 13 - 1) t) = true).
      { rewrite no_cr_app. cbn [no_cr forallb] in Hn |- *. apply andb_prop in Hn as [_ Hn].
        change (negb (SP =? CR)) with true. cbn [andb]. fold (no_cr (takeN (k - 13 - 1) t)). now apply no_cr_takeN. }
      apply unknown_more_incomplete; [reflexivity| | |].
      * rewrite lenN_app, lenN_cons, lenN_takeN. change (lenN unknown_head) with 13. unfold MAX_LENGTH in *. lia.
      * now apply not_terminated_nocr.
      * now apply not_crlf_nocr.
  - (* the whole line without its LF *)
    destruct Hr as [->|[t ->]].
    + rewrite app_nil_r. apply unknown_more_incomplete; [reflexivity| | |].
      * rewrite lenN_app in *. cbn in *. lia.
      * now apply (not_terminated_cr_end unknown_head).
      * apply not_crlf_cr_end.
    + rewrite <- app_assoc. cbn [app]. apply unknown_more_incomplete; [reflexivity| | |].
      * rewrite !lenN_app, !lenN_cons in *. rewrite lenN_app, lenN_cons, lenN_nil. unfold MAX_LENGTH in *. lia.
      * change (unknown_head ++ SP :: t ++ [CR]) with ((unknown_head ++ SP :: t)%list ++ [CR])%list.
        replace (unknown_head ++ SP :: t ++ [CR]) with ((unknown_head ++ SP :: t) ++ [CR]) by (rewrite <- app_assoc; reflexivity).
        now apply not_terminated_cr_end.
      * replace (unknown_head ++ SP :: t ++ [CR]) with ((unknown_head ++ SP :: t) ++ [CR]) by (rewrite <- app_assoc; reflexivity).
        apply not_crlf_cr_end.
Qed.

Theorem line_prefix_incomplete a ad k : shape (a ++ CRLF) ad -> lenN (a ++ CRLF) <= MAX_LENGTH ->
  k < lenN a + 2 -> inc (parse_header (takeN k (a ++ CRLF))) = true.
Proof.
  intros S Hl Hk. rewrite lenN_app in Hl. change (lenN CRLF) with 2 in Hl.
  remember (a ++ CRLF) as l eqn:El. revert El.
  destruct S as [sa da sp dp x y n m Hns V1 V2 V3 V4|sa da sp dp x y n m Hns V1 V2 V3 V4|rest Hr Hnr]; intros El.
  - apply app_inv_tail in El. subst a.
    apply (tcp_line_prefix_incomplete TCP4 parse_ipv4 sa da sp dp x y n m k); try assumption. now left.
  - apply app_inv_tail in El. subst a.
    apply (tcp_line_prefix_incomplete TCP6 parse_ipv6 sa da sp dp x y n m k); try assumption. now right.
  - rewrite app_assoc in El. apply app_inv_tail in El. subst a.
    now apply unknown_line_prefix_incomplete.
Qed.

(* ---- C05 at the entry points ---- *)
Definition ascii (l : bytes) : bool := forallb (fun c => c <? 128) l.

Lemma ascii_takeN l k : ascii l = true -> ascii (takeN k l) = true.
Proof. intros H. unfold ascii in *. rewrite <- (takeN_dropN k l), forallb_app in H. now apply andb_prop in H. Qed.

Lemma prefix_window a k : no_cr a = true -> k < lenN a + 2 -> lenN a + 2 <= MAX_LENGTH ->
  window_len (takeN k (a ++ CRLF)) = Ok (lenN (takeN k (a ++ CRLF))).
Proof.
  intros Hn Hk Hl. unfold window_len.
  destruct (proper_prefix_cases a k Hk) as [[Hk' ->]|[Hk' ->]].
  - assert (F : first_cr (takeN k a) = None) by (apply first_cr_none; now apply no_cr_takeN).
    rewrite F, lenN_takeN. replace (MAX_LENGTH <=? N.min k (lenN a)) with false by (unfold MAX_LENGTH in *; lia). reflexivity.
  - rewrite first_cr_app by assumption. rewrite lenN_app, lenN_cons, lenN_nil. f_equal. lia.
Qed.

Theorem p1_prefix_incomplete x hd k : p1 x = Ok hd -> ascii (text hd) = true -> k < lenN (text hd) ->
  is_incomplete1 (p1 (takeN k x)) = true /\ is_incomplete1s (p1s (takeN k x)) = true
  /\ is_incomplete_a (pa (takeN k x)) = true.
Proof.
  intros H Ha Hk. apply p1_accepts_iff in H as (a & rest & -> & Hn & Hl & Hu & Sh & Et).
  rewrite Et in *. rewrite lenN_app in Hk, Hl. change (lenN CRLF) with 2 in *.
  assert (Ex : takeN k (a ++ CRLF ++ rest) = takeN k (a ++ CRLF)).
  { rewrite app_assoc. apply takeN_app_le. rewrite lenN_app. cbn. lia. }
  rewrite Ex. set (h := takeN k (a ++ CRLF)).
  assert (Hw : window_len h = Ok (lenN h)) by now apply prefix_window.
  assert (Hv : utf8_valid h = true) by (apply utf8_valid_ascii; now apply ascii_takeN).
  assert (Hi : inc (parse_header h) = true).
  { apply (line_prefix_incomplete a (addr hd) k); [exact Sh|rewrite lenN_app; cbn; lia|exact Hk]. }
  assert (P1 : is_incomplete1 (p1 h) = true).
  { unfold p1. rewrite Hw, takeN_all by lia. rewrite Hv. unfold inc in Hi. destruct (parse_header h); [discriminate|exact Hi]. }
  assert (P1s : is_incomplete1s (p1s h) = true).
  { unfold p1s. rewrite Hw. unfold str_get_to, is_char_boundary.
    destruct (lenN h =? 0) eqn:E0.
    - rewrite takeN_all by lia. exact Hi.
    - replace (lenN h <=? lenN h) with true by lia. rewrite N.eqb_refl, takeN_all by lia. exact Hi. }
  repeat split; try assumption.
  rewrite pa_incomplete, P1. destruct (p2 h) as [h2|e] eqn:E2; cbn [is_err is_ok is_incomplete2 negb andb orb].
  - (* the v2 parser cannot accept a prefix of a text line: it starts with 'P' or is empty *)
    exfalso. destruct (shape_starts_P _ _ Sh) as [r Hr]. unfold h in E2. rewrite Hr in E2.
    destruct (k =? 0) eqn:Ek.
    + apply N.eqb_eq in Ek. subst k. discriminate E2.
    + rewrite takeN_cons in E2 by lia. rewrite (p2_text _ _ eq_refl) in E2. discriminate.
  - destruct (err2_is_incomplete e); reflexivity.
Qed.
