(* C03, model side: no partial primitive of the panic-aware mirror (Model/Panic.v) ever fails; the
   mirror computes exactly the plain model.  Inputs are byte strings shorter than 2^63 (a Rust guarantee). *)
From PPP Require Import Base.Bytes Std.Utf8 Std.Text Model.V1 Model.V2 Model.Auto Model.Panic Spec.V2Wire
  Proofs.BytesFacts Proofs.StdUtf8 Proofs.Tlv Proofs.V2Parse Proofs.V2Spec Proofs.V2Views
  Proofs.V1Text Proofs.V1Final Proofs.V1Lines Proofs.V1Shape Proofs.V1Props.

Definition SLICE_MAX : N := 9223372036854775808.     (* 2^63: no Rust slice is longer than isize::MAX *)

Lemma add_p_ok a b : a + b <= USIZE_MAX -> add_p a b = Done (a + b).
Proof. intros H. unfold add_p. replace (a + b <=? USIZE_MAX) with true by lia. reflexivity. Qed.
Lemma sub_p_ok a b : b <= a -> sub_p a b = Done (a - b).
Proof. intros H. unfold sub_p. replace (b <=? a) with true by lia. reflexivity. Qed.
Lemma idx_p_ok l i : i < lenN l -> idx_p l i = Done (nthN i l).
Proof. intros H. unfold idx_p. replace (i <? lenN l) with true by lia. reflexivity. Qed.
Lemma slice_to_p_ok {A} (l : list A) n : n <= lenN l -> slice_to_p l n = Done (takeN n l).
Proof. intros H. unfold slice_to_p. replace (n <=? lenN l) with true by lia. reflexivity. Qed.
Lemma slice_from_p_ok {A} (l : list A) n : n <= lenN l -> slice_from_p l n = Done (dropN n l).
Proof. intros H. unfold slice_from_p. replace (n <=? lenN l) with true by lia. reflexivity. Qed.
Lemma slice_p_ok {A} (l : list A) a b : a <= b -> b <= lenN l -> slice_p l a b = Done (sliceN a b l).
Proof. intros H1 H2. unfold slice_p. replace ((a <=? b) && (b <=? lenN l)) with true by lia. reflexivity. Qed.
Lemma copy_ok n src : lenN src = n -> copy_from_slice_p n src = Done src.
Proof. intros H. unfold copy_from_slice_p. replace (lenN src =? n) with true by lia. reflexivity. Qed.

(* ---- v1 entry points ---- *)
Lemma window_len_p_ok x : lenN x < SLICE_MAX -> window_len_p x = Done (window_len x).
Proof.
  intros H. unfold window_len_p, window_len. destruct (first_cr x) as [i|] eqn:E; [|reflexivity].
  pose proof (first_cr_lt _ _ E). rewrite add_p_ok by (unfold USIZE_MAX, SLICE_MAX in *; lia). reflexivity.
Qed.

Theorem p1_no_panic x : lenN x < SLICE_MAX -> p1_p x = Done (p1 x).
Proof.
  intros H. unfold p1_p, p1. rewrite window_len_p_ok by assumption. cbn [bind].
  destruct (window_len x) as [n|e] eqn:E; [|reflexivity].
  rewrite slice_to_p_ok by now apply window_len_le. reflexivity.
Qed.

Theorem p1s_no_panic s : lenN s < SLICE_MAX -> p1s_p s = Done (p1s s).
Proof.
  intros H. unfold p1s_p, p1s. rewrite window_len_p_ok by assumption. cbn [bind].
  destruct (window_len s); reflexivity.
Qed.

Theorem from_str_no_panic s : lenN s < SLICE_MAX ->
  header_from_str_p s = Done (header_from_str s) /\ addresses_from_str_p s = Done (addresses_from_str s).
Proof. intros H. unfold header_from_str_p, addresses_from_str_p. rewrite p1s_no_panic by assumption. split; reflexivity. Qed.

(* ---- v2 entry point ---- *)
Lemma parse_addresses2_p_ok fam b : lenN b = fam_size fam -> parse_addresses2_p fam b = Done (parse_addresses2 fam b).
Proof.
  intros H. destruct fam; cbn [fam_size] in H; unfold parse_addresses2_p, parse_addresses2.
  - reflexivity.
  - rewrite !idx_p_ok by lia. reflexivity.
  - rewrite slice_to_p_ok by lia. cbn [bind]. rewrite copy_ok by (rewrite lenN_takeN; lia). cbn [bind].
    rewrite slice_p_ok by lia. cbn [bind]. rewrite copy_ok by (unfold sliceN; rewrite lenN_takeN, lenN_dropN; lia). cbn [bind].
    rewrite !idx_p_ok by lia. reflexivity.
  - rewrite slice_to_p_ok by lia. cbn [bind]. rewrite copy_ok by (rewrite lenN_takeN; lia). cbn [bind].
    rewrite slice_from_p_ok by lia. cbn [bind]. rewrite copy_ok by (rewrite lenN_dropN; lia). reflexivity.
Qed.

Theorem p2_no_panic x : wf_bytes x = true -> lenN x < SLICE_MAX -> p2_p x = Done (p2 x).
Proof.
  intros Hwf Hl. unfold p2_p, p2. destruct (lenN x <? 12) eqn:E12; [reflexivity|].
  rewrite slice_to_p_ok by lia. cbn [bind]. destruct (negb (beq (takeN 12 x) SIG)); [reflexivity|].
  unfold MINIMUM_LENGTH. destruct (lenN x <? 16) eqn:E16; [reflexivity|].
  rewrite idx_p_ok by lia. cbn [bind]. destruct (negb (N.land (nthN 12 x) 240 =? 32)); [reflexivity|].
  destruct (if N.land (nthN 12 x) 15 =? 0 then Some Local else if N.land (nthN 12 x) 15 =? 1 then Some Proxy else None) as [cmd|]; [|reflexivity].
  rewrite idx_p_ok by lia. cbn [bind].
  destruct (if N.land (nthN 13 x) 240 =? 0 then Some FUnspec else if N.land (nthN 13 x) 240 =? 16 then Some FIPv4
            else if N.land (nthN 13 x) 240 =? 32 then Some FIPv6 else if N.land (nthN 13 x) 240 =? 48 then Some FUnix else None) as [fam|]; [|reflexivity].
  destruct (if N.land (nthN 13 x) 15 =? 0 then Some PUnspec else if N.land (nthN 13 x) 15 =? 1 then Some PStream
            else if N.land (nthN 13 x) 15 =? 2 then Some PDatagram else None) as [proto|]; [|reflexivity].
  rewrite !idx_p_ok by lia. cbn [bind]. cbv zeta.
  pose proof (wf_bytes_nthN x 14 Hwf) as B14. pose proof (wf_bytes_nthN x 15 Hwf) as B15.
  set (length := from_be16 (nthN 14 x) (nthN 15 x)). assert (Hlen : length < 65536) by (unfold length, from_be16; lia).
  rewrite byte_length_fam_size.
  destruct (length <? fam_size fam) eqn:Ea; [reflexivity|].
  rewrite add_p_ok by (unfold USIZE_MAX; lia). cbn [bind].
  destruct (lenN x <? 16 + length) eqn:Ef.
  { rewrite sub_p_ok by lia. reflexivity. }
  rewrite slice_to_p_ok by lia. cbn [bind].
  rewrite add_p_ok by (unfold USIZE_MAX; destruct fam; cbn; lia). cbn [bind].
  rewrite slice_p_ok by (rewrite ?lenN_takeN; lia). cbn [bind].
  rewrite parse_addresses2_p_ok; [reflexivity|].
  unfold sliceN. rewrite lenN_takeN, lenN_dropN, lenN_takeN. lia.
Qed.

(* ---- accessors of an accepted v2 header ---- *)
Theorem v2_views_no_panic x h : wf_bytes x = true -> p2 x = Ok h ->
  h_length_p h = Done (h_length h)
  /\ h_address_bytes_p h = Done (h_address_bytes h)
  /\ h_tlv_bytes_p h = Done (h_tlv_bytes h).
Proof.
  intros Hwf H.
  destruct (p2_ok_form x h Hwf H) as (vc & fp & hi & lo & rest & cmd & fam & proto & -> & Hvc & Hfp & Hhi & Hlo & Hr
                                       & Hv & Hc & Hf & Hp & H1 & H2 & ->).
  remember (256 * hi + lo) as n eqn:En.
  set (h := {| hbytes := SIG ++ vc :: fp :: hi :: lo :: takeN n rest; hcommand := cmd; hprotocol := proto;
               haddresses := decode_addrs fam rest |}).
  assert (HL : lenN (hbytes h) = 16 + n).
  { cbn [hbytes h]. rewrite lenN_app, !lenN_cons, lenN_SIG, lenN_takeN. lia. }
  assert (E1 : h_length_p h = Done (h_length h)).
  { unfold h_length_p, h_length, MINIMUM_LENGTH. rewrite slice_from_p_ok by lia. reflexivity. }
  assert (Hlen : h_length h = n) by (unfold h_length, MINIMUM_LENGTH; rewrite lenN_dropN; lia).
  assert (Hfam : h_address_family h = fam) by apply family_of_decode.
  assert (E2 : h_address_bytes_end_p h = Done (h_address_bytes_end h)).
  { unfold h_address_bytes_end_p, h_address_bytes_end. rewrite E1. cbn [bind]. rewrite Hlen, Hfam.
    apply add_p_ok. unfold USIZE_MAX, MINIMUM_LENGTH. destruct fam; cbn; lia. }
  assert (Hend : h_address_bytes_end h <= 16 + n /\ 16 <= h_address_bytes_end h).
  { unfold h_address_bytes_end, MINIMUM_LENGTH. rewrite Hlen. lia. }
  repeat split; [exact E1| |].
  - unfold h_address_bytes_p, h_address_bytes. rewrite E2. cbn [bind]. apply slice_p_ok; unfold MINIMUM_LENGTH; lia.
  - unfold h_tlv_bytes_p, h_tlv_bytes. rewrite E2. cbn [bind]. apply slice_from_p_ok. lia.
Qed.

(* ---- TLV iteration ---- *)
Lemma tlv_next_no_panic s off : wf_bytes s = true -> lenN s < SLICE_MAX -> tlv_next_p s off = Done (tlv_next s off).
Proof.
  intros Hwf Hl. unfold tlv_next_p, tlv_next. destruct (lenN s <=? off) eqn:E; [reflexivity|].
  rewrite slice_from_p_ok by lia. cbn [bind]. unfold MINIMUM_TLV_LENGTH.
  pose proof (lenN_dropN off s) as Hd. set (rem := dropN off s) in *.
  destruct (lenN rem <? 3) eqn:E3; [reflexivity|].
  rewrite !idx_p_ok by lia. cbn [bind]. cbv zeta.
  assert (Hw : wf_bytes rem = true) by (unfold rem; now apply wf_bytes_dropN).
  pose proof (wf_bytes_nthN rem 1 Hw). pose proof (wf_bytes_nthN rem 2 Hw).
  set (length := from_be16 (nthN 1 rem) (nthN 2 rem)). assert (length < 65536) by (unfold length, from_be16; lia).
  rewrite add_p_ok by (unfold USIZE_MAX; lia). cbn [bind].
  destruct (lenN rem <? 3 + length) eqn:El; [reflexivity|].
  rewrite add_p_ok by (unfold USIZE_MAX, SLICE_MAX in *; lia). cbn [bind].
  rewrite slice_p_ok by lia. reflexivity.
Qed.

Lemma collect_from_no_panic fuel : forall s off, wf_bytes s = true -> lenN s < SLICE_MAX ->
  collect_from_p fuel s off = Done (collect_from fuel s off).
Proof.
  induction fuel as [|f IH]; intros s off Hwf Hl; [reflexivity|].
  cbn [collect_from_p collect_from]. rewrite tlv_next_no_panic by assumption. cbn [bind].
  destruct (tlv_next s off) as [[it|] off']; [|reflexivity].
  rewrite IH by assumption. reflexivity.
Qed.

(* iteration neither panics nor runs out of fuel, and ends after at most n/3 + 1 items *)
Theorem tlv_no_panic s : wf_bytes s = true -> lenN s < SLICE_MAX ->
  exists items, collect_p s = Done (Some items) /\ N.of_nat (length items) <= lenN s / 3 + 1.
Proof.
  intros Hwf Hl. unfold collect_p. rewrite collect_from_no_panic by assumption.
  destruct (collect_total s) as [items Hc]. unfold collect in Hc. rewrite Hc. exists items. split; [reflexivity|].
  now apply collect_bound.
Qed.

(* ---- auto-detection ---- *)
Theorem pa_no_panic x : wf_bytes x = true -> lenN x < SLICE_MAX -> pa_p x = Done (pa x).
Proof.
  intros Hwf Hl. unfold pa_p, pa. rewrite p2_no_panic by assumption. cbn [bind].
  destruct (is_complete2 (p2 x) && is_err (p2 x)); [|reflexivity]. rewrite p1_no_panic by assumption. reflexivity.
Qed.

(* ---- Header::addresses_str on an accepted v1 header ---- *)
Lemma boundary_at_ascii s n : n < lenN s -> nthN n s < 128 -> is_char_boundary s n = true.
Proof.
  intros Hn Hb. unfold is_char_boundary. destruct (n =? 0); [reflexivity|].
  replace (lenN s <=? n) with false by lia. unfold is_cont, in_range. lia.
Qed.

(* the text is  pre ++ mid ++ CRLF  with |pre| = 6 + |protocol| and mid empty or SP :: t *)
Lemma addresses_str_frame (pre mid : bytes) proto ad :
  let h := {| text := pre ++ mid ++ CRLF; addr := ad |} in
  h1_protocol h = proto -> lenN pre = lenN PROXY + 1 + lenN proto ->
  (mid = [] \/ exists t, mid = SP :: t) -> utf8_valid (text h) = true -> lenN (text h) < SLICE_MAX ->
  h1_addresses_str_p h = Done (h1_addresses_str h).
Proof.
  intros h Hp Hpre Hmid Hu Hl. unfold h1_addresses_str_p, h1_addresses_str. rewrite Hp.
  assert (HL : lenN (text h) = lenN pre + lenN mid + 2) by (cbn [text h]; rewrite !lenN_app; cbn; lia).
  rewrite add_p_ok by (unfold USIZE_MAX, SLICE_MAX in *; lia). cbn [bind].
  rewrite sub_p_ok by (change (lenN CRLF) with 2; lia). cbn [bind].
  change (lenN CRLF) with 2. rewrite <- Hpre.
  assert (Hs : sliceN (lenN pre) (lenN (text h) - 2) (text h) = mid).
  { replace (lenN (text h) - 2) with (lenN pre + lenN mid) by lia. cbn [text h]. apply sliceN_mid. }
  assert (Bend : is_char_boundary (text h) (lenN (text h) - 2) = true).
  { apply boundary_at_ascii; [lia|]. cbn [text h]. rewrite app_assoc, nthN_app_r by (rewrite !lenN_app in *; change (lenN CRLF) with 2 in *; lia).
    replace (lenN ((pre ++ mid) ++ CRLF) - 2 - lenN (pre ++ mid)) with 0 by (rewrite !lenN_app; change (lenN CRLF) with 2; lia). vm_compute. reflexivity. }
  assert (Bstart : is_char_boundary (text h) (lenN pre) = true).
  { apply boundary_at_ascii; [lia|]. cbn [text h]. rewrite nthN_app_r by lia. replace (lenN pre - lenN pre) with 0 by lia.
    destruct Hmid as [->|[t ->]]; [vm_compute; reflexivity|].
    change (nthN 0 ((SP :: t) ++ CRLF)) with SP. vm_compute. reflexivity. }
  unfold str_slice_p. rewrite Bstart, Bend.
  replace ((lenN pre <=? lenN (text h) - 2) && (lenN (text h) - 2 <=? lenN (text h))) with true by lia. cbn [andb bind].
  rewrite Hs. destruct Hmid as [->|[t ->]]; [reflexivity|].
  cbn [is_prefix]. rewrite N.eqb_refl. cbn [andb]. unfold str_slice_from_p.
  rewrite lenN_cons. replace (1 <=? 1 + lenN t) with true by lia. cbn [andb].
  assert (B1 : is_char_boundary (SP :: t) 1 = true).
  { unfold is_char_boundary. change (1 =? 0) with false. cbv iota. rewrite lenN_cons.
    destruct (1 + lenN t <=? 1) eqn:E1; [lia|].
    (* the byte after the SP starts a character: SP is ASCII inside valid UTF-8 *)
    destruct (utf8_ascii_boundary (text h) (lenN pre) Hu) as [_ B]; [lia| |].
    { cbn [text h]. rewrite nthN_app_r by lia. replace (lenN pre - lenN pre) with 0 by lia.
      change (nthN 0 ((SP :: t) ++ CRLF)) with SP. vm_compute. reflexivity. }
    unfold is_char_boundary in B. replace (lenN pre + 1 =? 0) with false in B by lia.
    replace (lenN (text h) <=? lenN pre + 1) with false in B by (rewrite HL, lenN_cons; lia).
    cbn [text h] in B. rewrite nthN_app_r in B by lia. replace (lenN pre + 1 - lenN pre) with 1 in B by lia.
    rewrite nthN_app_l in B by (rewrite lenN_cons; lia). exact B. }
  rewrite B1. reflexivity.
Qed.

Theorem addresses_str_no_panic x hd : p1 x = Ok hd -> lenN x < SLICE_MAX ->
  h1_addresses_str_p hd = Done (h1_addresses_str hd).
Proof.
  intros H Hl. apply p1_accepts_iff in H as (a & rest & -> & Hn & Hlen & Hu & Sh & Et).
  destruct hd as [t ad]. cbn [text addr] in *. subst t.
  assert (Hsmall : lenN (a ++ CRLF) < SLICE_MAX) by (rewrite !lenN_app in *; lia).
  remember (a ++ CRLF) as l eqn:El. revert El.
  destruct Sh as [sa da sp dp x y n m Hns V1 V2 V3 V4|sa da sp dp x y n m Hns V1 V2 V3 V4|r Hr Hnr]; intros El.
  - replace (six PROXY TCP4 sa da sp dp ++ CRLF) with ((PROXY ++ SP :: TCP4) ++ (SP :: join_sp [sa; da; sp; dp]) ++ CRLF) in *
      by (unfold six; cbn [join_sp]; repeat (rewrite <- app_assoc; cbn [app]); reflexivity).
    apply (addresses_str_frame (PROXY ++ SP :: TCP4) (SP :: join_sp [sa; da; sp; dp]) TCP4); try assumption; try reflexivity.
    right. eauto.
  - replace (six PROXY TCP6 sa da sp dp ++ CRLF) with ((PROXY ++ SP :: TCP6) ++ (SP :: join_sp [sa; da; sp; dp]) ++ CRLF) in *
      by (unfold six; cbn [join_sp]; repeat (rewrite <- app_assoc; cbn [app]); reflexivity).
    apply (addresses_str_frame (PROXY ++ SP :: TCP6) (SP :: join_sp [sa; da; sp; dp]) TCP6); try assumption; try reflexivity.
    right. eauto.
  - apply (addresses_str_frame unknown_head r UNKNOWN); try assumption; reflexivity.
Qed.
