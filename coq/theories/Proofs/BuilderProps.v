(* C09 and C10 as corollaries of the closed form of [brun] (Proofs/BuilderRun.v). *)
From Coq Require Import ZArith.
From PPP Require Import Base.Bytes Model.V2 Model.Builder Spec.Encoder Proofs.BytesFacts Proofs.Writer Proofs.BuilderRun.

Definition bout (r : bresult) : option bytes := match r with BOk o => Some o | _ => None end.

Definition start (c : ctor) : N := 16 + lenN (enc_addrs (ctor_addrs c)).

(* the outcome of a history as a function of three things only: do the payloads fit, the explicit
   length in force, the reference encoding *)
Lemma brun_bout c ops : wf_ctor c = true -> wf_ops ops = true ->
  bout (brun c ops) =
  if items_fit (start c) (payloads ops)
     && (match in_force ops with Some _ => true | None => lenN (body c ops) <=? U16_MAX end)
  then Some (expected_output c ops) else None.
Proof.
  intros Hc Ho. pose proof (brun_closed c ops Hc Ho) as H. cbv zeta in H. unfold start.
  destruct (brun c ops) as [out|i|]; cbn [bout].
  - destruct H as (-> & Hl & ->). cbn [andb]. destruct (in_force ops); [reflexivity|].
    replace (lenN (body c ops) <=? U16_MAX) with true by (specialize (Hl eq_refl); lia). reflexivity.
  - now rewrite H.
  - destruct H as (-> & -> & Hl). cbn [andb]. replace (lenN (body c ops) <=? U16_MAX) with false by lia. reflexivity.
Qed.

(* ---- C10 ---- *)
Theorem build_is_concatenation c ops out : wf_ctor c = true -> wf_ops ops = true ->
  brun c ops = BOk out -> out = expected_output c ops.
Proof.
  intros Hc Ho H. pose proof (brun_closed c ops Hc Ho) as C. rewrite H in C. cbv zeta in C. tauto.
Qed.

Lemma payloads_app a b : payloads (a ++ b) = payloads a ++ payloads b.
Proof.
  induction a as [|o a IH]; [reflexivity|]. cbn [app]. rewrite (payloads_cons o (a ++ b)), (payloads_cons o a), IH.
  now rewrite app_assoc.
Qed.

Lemma in_force_from_app a : forall cur b, in_force_from cur (a ++ b) = in_force_from (in_force_from cur a) b.
Proof. induction a as [|o a IH]; intros cur b; [reflexivity|]. destruct o; cbn [app in_force_from]; apply IH. Qed.

Definition is_reserve (o : bop) : bool := match o with Reserve _ => true | _ => false end.
Definition erase_reserve (ops : list bop) : list bop := filter (fun o => negb (is_reserve o)) ops.

Lemma payloads_erase ops : payloads (erase_reserve ops) = payloads ops.
Proof.
  induction ops as [|o ops IH]; [reflexivity|]. unfold erase_reserve in *. cbn [filter].
  destruct o; cbn [is_reserve negb]; rewrite ?(payloads_cons _ (filter _ ops)), ?(payloads_cons _ ops), ?IH; reflexivity.
Qed.

Lemma in_force_from_erase ops : forall cur, in_force_from cur (erase_reserve ops) = in_force_from cur ops.
Proof.
  induction ops as [|o ops IH]; intros cur; [reflexivity|]. unfold erase_reserve in *. cbn [filter].
  destruct o; cbn [is_reserve negb in_force_from]; apply IH.
Qed.

Lemma bout_determined c ops ops' : wf_ctor c = true -> wf_ops ops = true ->
  payloads ops' = payloads ops -> in_force ops' = in_force ops -> bout (brun c ops') = bout (brun c ops).
Proof.
  intros Hc Ho Hp Hf. assert (Ho' : wf_ops ops' = true) by (unfold wf_ops; now rewrite Hp).
  rewrite !brun_bout by assumption. unfold expected_output, length_field, body. now rewrite Hp, Hf.
Qed.

Theorem reserve_irrelevant c ops ops' : wf_ctor c = true -> wf_ops ops = true ->
  erase_reserve ops = erase_reserve ops' -> bout (brun c ops) = bout (brun c ops').
Proof.
  intros Hc Ho He. symmetry. apply bout_determined; try assumption.
  - now rewrite <- (payloads_erase ops'), <- He, payloads_erase.
  - unfold in_force. now rewrite <- (in_force_from_erase ops'), <- He, in_force_from_erase.
Qed.

Lemma payloads_singles ps : payloads (map WritePayload ps) = ps.
Proof. induction ps as [|p ps IH]; [reflexivity|]. cbn [map payloads]. now rewrite IH. Qed.
Lemma in_force_from_singles ps cur : in_force_from cur (map WritePayload ps) = cur.
Proof. induction ps as [|p ps IH]; [reflexivity|]. exact IH. Qed.

Theorem batch_irrelevant c ops ps ops' : wf_ctor c = true -> wf_ops (ops ++ [WritePayloads ps] ++ ops') = true ->
  bout (brun c (ops ++ map WritePayload ps ++ ops')) = bout (brun c (ops ++ [WritePayloads ps] ++ ops')).
Proof.
  intros Hc Ho. apply bout_determined; try assumption.
  - rewrite !payloads_app, payloads_singles. cbn [payloads]. now rewrite app_nil_r.
  - unfold in_force. rewrite !in_force_from_app, in_force_from_singles. reflexivity.
Qed.

(* ---- C09 ---- *)
Definition lengths_ok (ops : list bop) : bool :=
  forallb (fun o => match o with SetLength (Some l) => l <? 65536 | _ => true end) ops.

Lemma in_force_from_ok ops : forall cur l, lengths_ok ops = true -> (forall x, cur = Some x -> x < 65536) ->
  in_force_from cur ops = Some l -> l < 65536.
Proof.
  induction ops as [|o ops IH]; intros cur l Hok Hcur H; cbn [in_force_from] in H; [now apply Hcur|].
  cbn [lengths_ok forallb] in Hok. apply andb_prop in Hok as [Ho Hok].
  destruct o as [n|[x|]|p|ps|k v]; try (eapply IH; eassumption).
  - eapply IH; [exact Hok| |exact H]. intros y Hy. injection Hy as <-. lia.
  - eapply IH; [exact Hok| |exact H]. discriminate.
Qed.

Theorem length_field_exact c ops out : wf_ctor c = true -> wf_ops ops = true -> lengths_ok ops = true ->
  brun c ops = BOk out ->
  16 <= lenN out
  /\ from_be16 (nthN 14 out) (nthN 15 out) = (match in_force ops with Some l => l | None => lenN out - 16 end).
Proof.
  intros Hc Ho Hl H. pose proof (brun_closed c ops Hc Ho) as C. rewrite H in C. cbv zeta in C.
  destruct C as (_ & Hfit & ->). unfold expected_output.
  set (L := length_field c ops).
  assert (HL : L < 65536).
  { unfold L, length_field. destruct (in_force ops) as [l|] eqn:E.
    - eapply in_force_from_ok; [exact Hl| |exact E]. discriminate.
    - specialize (Hfit eq_refl). unfold U16_MAX in Hfit. lia. }
  change (nthN 14 (SIG ++ [ctor_vc c; ctor_afp c] ++ [L / 256; L mod 256] ++ body c ops)) with (L / 256).
  change (nthN 15 (SIG ++ [ctor_vc c; ctor_afp c] ++ [L / 256; L mod 256] ++ body c ops)) with (L mod 256).
  rewrite !lenN_app, !lenN_cons, lenN_nil. unfold from_be16. split; [cbn; lia|].
  replace (256 * (L / 256) + L mod 256) with L by lia.
  unfold L, length_field. destruct (in_force ops); [reflexivity|]. cbn. lia.
Qed.

Theorem length_overflow_fails c ops : wf_ctor c = true -> wf_ops ops = true ->
  in_force ops = None -> 65535 < lenN (body c ops) -> bout (brun c ops) = None.
Proof.
  intros Hc Ho Hf Hb. rewrite brun_bout by assumption. rewrite Hf.
  replace (lenN (body c ops) <=? U16_MAX) with false by (unfold U16_MAX; lia). now rewrite andb_false_r.
Qed.

Lemma items_fit_no_oversize ps : forall n p, items_fit n ps = true -> In p ps -> oversize p = false.
Proof.
  induction ps as [|q ps IH]; intros n p H Hin; [destruct Hin|]. cbn [items_fit] in H.
  apply andb_prop in H as [Hq H]. destruct Hin as [->|Hin]; [|eapply IH; eassumption].
  unfold payload_fits in Hq. apply andb_prop in Hq as [Hq _]. now destruct (oversize p).
Qed.

Theorem oversize_value_fails c ops p : wf_ctor c = true -> wf_ops ops = true ->
  In p (payloads ops) -> oversize p = true -> bout (brun c ops) = None.
Proof.
  intros Hc Ho Hin Hbig. rewrite brun_bout by assumption.
  destruct (items_fit (start c) (payloads ops)) eqn:E; [|reflexivity].
  rewrite (items_fit_no_oversize _ _ _ E Hin) in Hbig. discriminate.
Qed.
