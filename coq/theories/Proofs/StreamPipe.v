(* Streaming and pipelining together (C05 + C04 over histories): a receiver that appends every read to its
   buffer and then removes as many complete headers as the buffer holds ends, for EVERY way the byte
   stream is cut into reads (empty reads included), with exactly the frames a one-shot drain of the
   whole stream yields, in order, and with the same unconsumed bytes. *)
From Coq Require Import ZArith List Lia Bool Arith.
From PPP Require Import Base.Bytes Model.V1 Model.V2 Model.Auto Proofs.BytesFacts Proofs.V1Final Proofs.AutoProps Proofs.Consume.
Import ListNotations.
Local Open Scope N_scope.

Definition stuck (b : bytes) : Prop := frame_of (pa b) = None.

(* the receiver (drain_full, on_read) is in Model/Auto.v: state = (frames delivered so far, buffered bytes) *)

Lemma drain_S f buf : drain (S f) buf =
  match frame_of (pa buf) with
  | Some fr => let '(fs, r) := drain f (dropN (lenN (frame_bytes fr)) buf) in (fr :: fs, r)
  | None => ([], buf)
  end.
Proof. reflexivity. Qed.

Lemma pa_nil_stuck : stuck [].
Proof. vm_compute. reflexivity. Qed.

Lemma frame_nonempty x fr : wf_bytes x = true -> frame_of (pa x) = Some fr -> frame_bytes fr <> [].
Proof.
  intros Hw H E. destruct (accepted_is_self_parsing x fr Hw H) as [Hs _].
  unfold self_parsing in Hs. rewrite E in Hs. rewrite pa_nil_stuck in Hs. discriminate Hs.
Qed.

(* once the loop has stopped on a buffer that is not a header, more fuel changes nothing *)
Lemma drain_stuck_fuel f : forall buf fs b k, drain f buf = (fs, b) -> stuck b -> drain (f + k) buf = (fs, b).
Proof.
  induction f as [|f IH]; intros buf fs b k H Hs.
  - cbn in H. injection H as <- <-. destruct k as [|k]; [reflexivity|]. cbn [plus]. rewrite drain_S, Hs. reflexivity.
  - cbn [plus]. rewrite drain_S in *. destruct (frame_of (pa buf)) as [fr|]; [|exact H].
    destruct (drain f (dropN (lenN (frame_bytes fr)) buf)) as [fs' b'] eqn:E. injection H as <- <-.
    rewrite (IH _ _ _ k E Hs). reflexivity.
Qed.

Lemma drain_stuck_unique f1 f2 buf fs1 b1 fs2 b2 :
  drain f1 buf = (fs1, b1) -> stuck b1 -> drain f2 buf = (fs2, b2) -> stuck b2 -> (fs1, b1) = (fs2, b2).
Proof.
  intros H1 S1 H2 S2. rewrite <- (drain_stuck_fuel f1 buf fs1 b1 f2 H1 S1), <- (drain_stuck_fuel f2 buf fs2 b2 f1 H2 S2).
  f_equal. apply Nat.add_comm.
Qed.

(* fuel = length + 1 always reaches a stopping point *)
Lemma drain_enough n : forall buf, wf_bytes buf = true -> (length buf <= n)%nat ->
  exists fs b, drain (S n) buf = (fs, b) /\ stuck b /\ wf_bytes b = true.
Proof.
  induction n as [|n IH]; intros buf Hw Hn.
  - destruct buf; [|cbn in Hn; lia]. exists [], []. rewrite drain_S, pa_nil_stuck. repeat split.
  - rewrite drain_S. destruct (frame_of (pa buf)) as [fr|] eqn:E.
    + destruct (accepted_is_self_parsing buf fr Hw E) as [_ Hx].
      pose proof (frame_nonempty buf fr Hw E) as Hne.
      set (buf' := dropN (lenN (frame_bytes fr)) buf) in *.
      assert (Hw' : wf_bytes buf' = true).
      { rewrite Hx, wf_bytes_app in Hw. apply andb_prop in Hw. apply Hw. }
      assert (Hl : (length buf' <= n)%nat).
      { assert (length buf = length (frame_bytes fr) + length buf')%nat by (rewrite Hx at 1; apply app_length).
        destruct (frame_bytes fr); [congruence|]. cbn [length] in *. lia. }
      destruct (IH buf' Hw' Hl) as (fs & b & Hd & Hs & Hwb). rewrite Hd. exists (fr :: fs), b. repeat split; assumption.
    + exists [], buf. repeat split; assumption.
Qed.

Lemma drain_full_stuck buf : wf_bytes buf = true -> exists fs b, drain_full buf = (fs, b) /\ stuck b /\ wf_bytes b = true.
Proof. intros Hw. apply drain_enough; [exact Hw|apply Nat.le_refl]. Qed.

(* the loop is compositional: draining a, then draining what is left together with the next read, is
   draining a followed by that read *)
Lemma drain_app f : forall a r fs1 b f2 fs2 c, wf_bytes (a ++ r) = true ->
  drain f a = (fs1, b) -> stuck b -> drain f2 (b ++ r) = (fs2, c) -> stuck c ->
  drain (f + f2) (a ++ r) = (fs1 ++ fs2, c).
Proof.
  induction f as [|f IH]; intros a r fs1 b f2 fs2 c Hw H1 Sb H2 Sc.
  - cbn in H1. injection H1 as <- <-. exact H2.
  - assert (Hwa : wf_bytes a = true) by (rewrite wf_bytes_app in Hw; apply andb_prop in Hw; apply Hw).
    rewrite drain_S in H1. destruct (frame_of (pa a)) as [fr|] eqn:E.
    + destruct (drain f (dropN (lenN (frame_bytes fr)) a)) as [fs' b'] eqn:Ed. injection H1 as <- <-.
      destruct (accepted_is_self_parsing a fr Hwa E) as [Hsp Hx].
      set (a' := dropN (lenN (frame_bytes fr)) a) in *.
      assert (Ear : a ++ r = frame_bytes fr ++ (a' ++ r)) by (rewrite Hx at 1; rewrite <- app_assoc; reflexivity).
      assert (Hw2 : wf_bytes (frame_bytes fr ++ (a' ++ r)) = true) by (rewrite <- Ear; exact Hw).
      destruct (drain_step fr (a' ++ r) Hsp Hw2) as [P1 P2].
      cbn [plus]. rewrite drain_S, Ear, P1, P2.
      assert (Hw3 : wf_bytes (a' ++ r) = true) by (rewrite wf_bytes_app in Hw2; apply andb_prop in Hw2; apply Hw2).
      rewrite (IH a' r fs' b' f2 fs2 c Hw3 Ed Sb H2 Sc). reflexivity.
    + injection H1 as <- <-. cbn [app].
      replace (S f + f2)%nat with (f2 + S f)%nat by apply Nat.add_comm.
      apply drain_stuck_fuel; assumption.
Qed.

(* every way of cutting the stream into reads delivers what a one-shot drain of the whole stream delivers *)
Theorem reads_equal_one_shot : forall reads, wf_bytes (concat reads) = true ->
  fold_left on_read reads ([], []) = drain_full (concat reads).
Proof.
  assert (G : forall reads a got buf, wf_bytes (a ++ concat reads) = true ->
            drain_full a = (got, buf) -> stuck buf ->
            fold_left on_read reads (got, buf) = drain_full (a ++ concat reads)).
  { induction reads as [|r reads IH]; intros a got buf Hw Ha Sb.
    - cbn [concat fold_left]. rewrite app_nil_r. symmetry. exact Ha.
    - cbn [concat fold_left] in *. rewrite app_assoc in *.
      assert (Hwar : wf_bytes (a ++ r) = true) by (rewrite wf_bytes_app in Hw; apply andb_prop in Hw; apply Hw).
      assert (Hwa : wf_bytes a = true) by (rewrite wf_bytes_app in Hwar; apply andb_prop in Hwar; apply Hwar).
      assert (Hwb : wf_bytes (buf ++ r) = true).
      { destruct (drain_full_stuck a Hwa) as (fs0 & b0 & E0 & _ & Wb0). rewrite Ha in E0. injection E0 as <- <-.
        rewrite wf_bytes_app, Wb0. rewrite wf_bytes_app in Hwar. apply andb_prop in Hwar. apply Hwar. }
      destruct (drain_full_stuck (buf ++ r) Hwb) as (fs2 & c & E2 & Sc & _).
      unfold on_read at 2. rewrite E2.
      apply IH; [exact Hw| |exact Sc].
      destruct (drain_full_stuck (a ++ r) Hwar) as (fs' & b' & E' & S' & _). rewrite E'.
      unfold drain_full in *.
      symmetry. exact (drain_stuck_unique _ _ _ _ _ _ _ (drain_app _ a r got buf _ fs2 c Hwar Ha Sb E2 Sc) Sc E' S'). }
  intros reads Hw. apply (G reads [] [] []); [exact Hw|reflexivity|exact pa_nil_stuck].
Qed.

(* so: any pipeline of self-parsing frames, cut into reads in any way, is delivered frame by frame *)
Theorem stream_pipeline fs rest reads :
  Forall self_parsing fs -> stuck rest -> concat reads = concat (map frame_bytes fs) ++ rest ->
  wf_bytes (concat reads) = true ->
  fold_left on_read reads ([], []) = (fs, rest).
Proof.
  intros Hf Hr Hc Hw. rewrite (reads_equal_one_shot reads Hw).
  destruct (drain_full_stuck (concat reads) Hw) as (fs' & b' & E' & S' & _). rewrite E'.
  unfold drain_full in E'. rewrite Hc in *.
  exact (drain_stuck_unique _ _ _ _ _ _ _ E' S' (drain_sequence fs rest Hf Hw Hr) Hr).
Qed.

(* no proper prefix of a frame delivers anything: a header is never reported early, and never a different one *)
Theorem prefix_not_frame fr k : self_parsing fr -> wf_bytes (frame_bytes fr) = true -> k < lenN (frame_bytes fr) ->
  stuck (takeN k (frame_bytes fr)).
Proof.
  intros Hs Hw Hk. unfold stuck. destruct (frame_of (pa (takeN k (frame_bytes fr)))) as [fr'|] eqn:E; [exfalso|reflexivity].
  set (fb := frame_bytes fr) in *. set (p := takeN k fb) in *.
  assert (Hfb : fb = p ++ dropN k fb) by (symmetry; apply takeN_dropN).
  assert (Hwp : wf_bytes p = true) by (rewrite Hfb, wf_bytes_app in Hw; apply andb_prop in Hw; apply Hw).
  destruct (accepted_is_self_parsing p fr' Hwp E) as [Hs' Hp].
  set (q := dropN (lenN (frame_bytes fr')) p) in *.
  assert (Hfb2 : fb = frame_bytes fr' ++ (q ++ dropN k fb)) by (rewrite Hfb at 1; rewrite Hp at 1; rewrite <- app_assoc; reflexivity).
  assert (Hw2 : wf_bytes (frame_bytes fr' ++ (q ++ dropN k fb)) = true) by (rewrite <- Hfb2; exact Hw).
  destruct (drain_step fr' _ Hs' Hw2) as [P1 _]. rewrite <- Hfb2 in P1.
  unfold self_parsing in Hs. fold fb in Hs. rewrite Hs in P1. injection P1 as <-.
  assert (L1 : lenN p = k) by (unfold p; rewrite lenN_takeN; lia).
  assert (L2 : lenN p = lenN fb + lenN q) by (rewrite Hp at 1; rewrite lenN_app; reflexivity).
  lia.
Qed.

(* framing is unambiguous: a byte stream has at most one reading as frames followed by a non-header remainder *)
Theorem framing_unique fs1 rest1 fs2 rest2 :
  Forall self_parsing fs1 -> stuck rest1 -> Forall self_parsing fs2 -> stuck rest2 ->
  concat (map frame_bytes fs1) ++ rest1 = concat (map frame_bytes fs2) ++ rest2 ->
  wf_bytes (concat (map frame_bytes fs1) ++ rest1) = true ->
  fs1 = fs2 /\ rest1 = rest2.
Proof.
  intros F1 S1 F2 S2 E Hw.
  pose proof (drain_sequence fs1 rest1 F1 Hw S1) as D1.
  assert (Hw2 : wf_bytes (concat (map frame_bytes fs2) ++ rest2) = true) by (rewrite <- E; exact Hw).
  pose proof (drain_sequence fs2 rest2 F2 Hw2 S2) as D2. rewrite <- E in D2.
  pose proof (drain_stuck_unique _ _ _ _ _ _ _ D1 S1 D2 S2) as U. injection U as -> ->. split; reflexivity.
Qed.
