(* C08: formatting an address value gives a canonical line that every text entry point parses back
   to the same value. *)
From PPP Require Import Base.Bytes Std.Utf8 Std.Text Std.Num Std.Ip Model.V1 Spec.V1Grammar
  Proofs.BytesFacts Proofs.StdUtf8 Proofs.StdNum Proofs.StdIp6 Proofs.V1Text Proofs.V1Final Proofs.V1Lines
  Proofs.V1Shape Proofs.V1Props Proofs.V1Prefix Proofs.V1Spec.

(* values the Rust types can hold *)
Definition wf_addrs1 (a : addrs1) : bool :=
  match a with
  | Unknown => true
  | Tcp4 sa da sp dp => (lenN sa =? 4) && wf_bytes sa && (lenN da =? 4) && wf_bytes da && (sp <? 65536) && (dp <? 65536)
  | Tcp6 sa da sp dp => (lenN sa =? 16) && wf_bytes sa && (lenN da =? 16) && wf_bytes da && (sp <? 65536) && (dp <? 65536)
  end.

(* a field made of "text" characters only: ASCII, no SP, no CR *)
Definition field_chars (s : bytes) : bool := forallb (fun c => is_hex c || (c =? 58) || (c =? 46)) s.

Lemma field_chars_facts s : field_chars s = true -> no_sep s = true /\ ascii s = true.
Proof.
  unfold field_chars, no_sep, ascii. induction s as [|c s IH]; cbn [forallb]; [tauto|].
  intros H. apply andb_prop in H as [Hc Hs]. destruct (IH Hs) as [-> ->].
  unfold is_hex, is_digit, is_sep, SP, CR in *. split.
  - replace (negb ((c =? 32) || (c =? 13))) with true by lia. reflexivity.
  - replace (c <? 128) with true by lia. reflexivity.
Qed.

Lemma digits_field s : forallb is_digit s = true -> field_chars s = true.
Proof.
  unfold field_chars. induction s as [|c s IH]; cbn [forallb]; [tauto|]. intros H. apply andb_prop in H as [Hc Hs].
  rewrite (IH Hs). unfold is_hex. rewrite Hc. reflexivity.
Qed.

Lemma ipv4_field o : lenN o = 4 -> wf_bytes o = true ->
  field_chars (fmt_ipv4 o) = true /\ lenN (fmt_ipv4 o) <= 15 /\ parse_ipv4 (fmt_ipv4 o) = Some o.
Proof.
  intros Hl Hw. destruct o as [|a [|b [|c [|d [|? ?]]]]]; rewrite ?lenN_cons, ?lenN_nil in Hl; try lia.
  rewrite !wf_bytes_cons in Hw. repeat (apply andb_prop in Hw as [? Hw]).
  destruct (fmt_ipv4_chars a b c d) as [Hc Hlen]; try lia. repeat split; [|exact Hlen|apply parse_fmt_ipv4; lia].
  unfold field_chars. revert Hc. generalize (fmt_ipv4 [a; b; c; d]). intros s. induction s as [|x s IH]; cbn [forallb]; [tauto|].
  intros H'. apply andb_prop in H' as [Hx Hs]. rewrite (IH Hs). unfold is_hex. 
  destruct (is_digit x); cbn [orb] in *; [reflexivity|]. rewrite Hx. now rewrite !orb_true_r.
Qed.

Lemma ipv6_field o : lenN o = 16 -> wf_bytes o = true ->
  field_chars (fmt_ipv6 o) = true /\ lenN (fmt_ipv6 o) <= 39 /\ parse_ipv6 (fmt_ipv6 o) = Some o.
Proof.
  intros Hl Hw. destruct (fmt_ipv6_chars o Hl Hw) as [Hc Hlen]. repeat split; [exact Hc|exact Hlen|now apply parse_fmt_ipv6].
Qed.

Lemma port_field n : n < 65536 ->
  field_chars (fmt_dec n) = true /\ lenN (fmt_dec n) <= 5 /\ port_value (fmt_dec n) = Some n.
Proof.
  intros H. destruct (fmt_dec_facts n H) as (Hd & _ & Hl & Hp & Hz & Hplus). repeat split; [now apply digits_field|exact Hl|].
  unfold port_value. now rewrite Hz, Hplus.
Qed.

Lemma ascii_app a b : ascii (a ++ b) = ascii a && ascii b.
Proof. apply forallb_app. Qed.

(* the formatted line has one of the three accepted shapes *)
Theorem fmt1_shape a : wf_addrs1 a = true ->
  exists body, fmt1 a = body ++ CRLF /\ V1Text.no_cr body = true /\ shape (body ++ CRLF) a
               /\ lenN (fmt1 a) <= MAX_LENGTH /\ ascii (fmt1 a) = true.
Proof.
  destruct a as [|sa da sp dp|sa da sp dp]; cbn [wf_addrs1]; intros H.
  - exists unknown_head. split; [reflexivity|]. split; [reflexivity|]. split; [|split; [vm_compute; discriminate|reflexivity]].
    change (unknown_head ++ CRLF) with (unknown_head ++ [] ++ CRLF). constructor; [now left|reflexivity].
  - repeat (apply andb_prop in H as [H ?]).
    destruct (ipv4_field sa) as (C1 & L1 & P1); [lia|assumption|].
    destruct (ipv4_field da) as (C2 & L2 & P2); [lia|assumption|].
    destruct (port_field sp) as (C3 & L3 & P3); [lia|]. destruct (port_field dp) as (C4 & L4 & P4); [lia|].
    destruct (field_chars_facts _ C1) as [N1 A1]. destruct (field_chars_facts _ C2) as [N2 A2].
    destruct (field_chars_facts _ C3) as [N3 A3]. destruct (field_chars_facts _ C4) as [N4 A4].
    assert (Hall : all_nosep [fmt_ipv4 sa; fmt_ipv4 da; fmt_dec sp; fmt_dec dp] = true)
      by (cbn [all_nosep forallb]; now rewrite N1, N2, N3, N4).
    assert (Ef : fmt1 (Tcp4 sa da sp dp) = six PROXY TCP4 (fmt_ipv4 sa) (fmt_ipv4 da) (fmt_dec sp) (fmt_dec dp) ++ CRLF).
    { unfold fmt1, six. cbn [join_sp]. repeat (rewrite <- app_assoc; cbn [app]). reflexivity. }
    exists (six PROXY TCP4 (fmt_ipv4 sa) (fmt_ipv4 da) (fmt_dec sp) (fmt_dec dp)). repeat split.
    + exact Ef.
    + unfold six. apply no_cr_join_sp. cbn [all_nosep forallb] in *. exact Hall.
    + now constructor.
    + rewrite Ef. unfold six. cbn [join_sp]. repeat (rewrite lenN_app || rewrite lenN_cons).
      change (lenN PROXY) with 5. change (lenN TCP4) with 4. change (lenN CRLF) with 2. unfold MAX_LENGTH. lia.
    + rewrite Ef. unfold six. cbn [join_sp]. rewrite !ascii_app. cbn [ascii forallb].
      repeat (rewrite ?ascii_app; cbn [ascii forallb]). fold (ascii (fmt_ipv4 sa)) (ascii (fmt_ipv4 da)) (ascii (fmt_dec sp)) (ascii (fmt_dec dp)).
      rewrite ?A1, ?A2, ?A3, ?A4. reflexivity.
  - repeat (apply andb_prop in H as [H ?]).
    destruct (ipv6_field sa) as (C1 & L1 & P1); [lia|assumption|].
    destruct (ipv6_field da) as (C2 & L2 & P2); [lia|assumption|].
    destruct (port_field sp) as (C3 & L3 & P3); [lia|]. destruct (port_field dp) as (C4 & L4 & P4); [lia|].
    destruct (field_chars_facts _ C1) as [N1 A1]. destruct (field_chars_facts _ C2) as [N2 A2].
    destruct (field_chars_facts _ C3) as [N3 A3]. destruct (field_chars_facts _ C4) as [N4 A4].
    assert (Hall : all_nosep [fmt_ipv6 sa; fmt_ipv6 da; fmt_dec sp; fmt_dec dp] = true)
      by (cbn [all_nosep forallb]; now rewrite N1, N2, N3, N4).
    assert (Ef : fmt1 (Tcp6 sa da sp dp) = six PROXY TCP6 (fmt_ipv6 sa) (fmt_ipv6 da) (fmt_dec sp) (fmt_dec dp) ++ CRLF).
    { unfold fmt1, six. cbn [join_sp]. repeat (rewrite <- app_assoc; cbn [app]). reflexivity. }
    exists (six PROXY TCP6 (fmt_ipv6 sa) (fmt_ipv6 da) (fmt_dec sp) (fmt_dec dp)). repeat split.
    + exact Ef.
    + unfold six. apply no_cr_join_sp. cbn [all_nosep forallb] in *. exact Hall.
    + now constructor.
    + rewrite Ef. unfold six. cbn [join_sp]. repeat (rewrite lenN_app || rewrite lenN_cons).
      change (lenN PROXY) with 5. change (lenN TCP6) with 4. change (lenN CRLF) with 2. unfold MAX_LENGTH. lia.
    + rewrite Ef. unfold six. cbn [join_sp]. rewrite !ascii_app. cbn [ascii forallb].
      repeat (rewrite ?ascii_app; cbn [ascii forallb]). fold (ascii (fmt_ipv6 sa)) (ascii (fmt_ipv6 da)) (ascii (fmt_dec sp)) (ascii (fmt_dec dp)).
      rewrite ?A1, ?A2, ?A3, ?A4. reflexivity.
Qed.

(* ... and every text entry point parses it back to the identical value *)
Theorem fmt1_round_trip a : wf_addrs1 a = true ->
  let l := fmt1 a in
  lenN l <= MAX_LENGTH
  /\ spec_v1 l = Some {| text := l; addr := a |}
  /\ p1 l = Ok {| text := l; addr := a |}
  /\ p1s l = Ok {| text := l; addr := a |}
  /\ header_from_str l = Ok {| text := l; addr := a |}
  /\ addresses_from_str l = Ok a.
Proof.
  intros H l. destruct (fmt1_shape a H) as (body & Ef & Hn & Sh & Hl & Ha). fold l in Ef, Hl, Ha.
  assert (Hu : utf8_valid l = true) by now apply utf8_valid_ascii.
  assert (P1 : p1 l = Ok {| text := l; addr := a |}).
  { apply p1_accepts_iff. exists body, []. rewrite app_nil_r. cbn [text addr].
    repeat split; try assumption; rewrite <- Ef; assumption. }
  assert (Hb : is_char_boundary l (window_end l) = true).
  { unfold window_end, window_len. rewrite Ef. change (body ++ CRLF) with (body ++ CR :: [LF]).
    rewrite first_cr_app by assumption.
    assert (HL : lenN (body ++ CR :: [LF]) = lenN body + 2) by (rewrite lenN_app, !lenN_cons, lenN_nil; lia).
    unfold is_char_boundary. rewrite HL.
    replace (N.min (lenN body + 2) (lenN body + 2)) with (lenN body + 2) by lia.
    replace (lenN body + 2 =? 0) with false by lia. replace (lenN body + 2 <=? lenN body + 2) with true by lia.
    apply N.eqb_refl. }
  destruct (entry_points_agree l Hu Hb) as (Eb & Eh & Eaddr & _).
  assert (P1s : p1s l = Ok {| text := l; addr := a |}).
  { rewrite P1 in Eb. destruct (p1s l) as [h|e]; cbn [map_err] in Eb; [now injection Eb as <-|discriminate]. }
  repeat split; try assumption.
  - now apply p1_spec.
  - rewrite Eh, P1s. reflexivity.
  - rewrite Eaddr, P1s. reflexivity.
Qed.

(* distinct address values never share a line *)
Corollary fmt1_injective a b : wf_addrs1 a = true -> wf_addrs1 b = true -> fmt1 a = fmt1 b -> a = b.
Proof.
  intros Ha Hb E. destruct (fmt1_round_trip a Ha) as (_ & _ & Pa & _). destruct (fmt1_round_trip b Hb) as (_ & _ & Pb & _).
  cbv zeta in *. rewrite E in Pa. rewrite Pa in Pb. now injection Pb.
Qed.

(* a parsed header formats back to exactly the text it was parsed from *)
Theorem header_to_string x hd : p1 x = Ok hd -> h1_to_string hd = text hd /\ text hd = takeN (lenN (text hd)) x.
Proof. intros H. split; [reflexivity|]. now destruct (p1_trailer_independent x hd [] H) as (_ & _ & E & _). Qed.
