(* Facts about the UTF-8 validity model (Std/Utf8.v): decomposition of valid strings into
   well-formed characters, prefixes/suffixes at character boundaries, ASCII bytes. *)
From PPP Require Import Base.Bytes Std.Utf8 Std.Text Proofs.BytesFacts.

(* ---------- well-formed characters (Unicode table 3-7) ---------- *)

Definition wf_char (c : bytes) : bool :=
  match c with
  | [b0] => b0 <? 128
  | [b0; b1] => in_range 194 223 b0 && is_cont b1
  | [b0; b1; b2] =>
      ((b0 =? 224) && in_range 160 191 b1
       || (in_range 225 236 b0 || in_range 238 239 b0) && is_cont b1
       || (b0 =? 237) && in_range 128 159 b1) && is_cont b2
  | [b0; b1; b2; b3] =>
      ((b0 =? 240) && in_range 144 191 b1
       || in_range 241 243 b0 && is_cont b1
       || (b0 =? 244) && in_range 128 143 b1) && is_cont b2 && is_cont b3
  | _ => false
  end.

(* the length of a character is determined by its first byte *)
Definition char_len (h : N) : N :=
  if h <? 128 then 1 else if h <=? 223 then 2 else if h <=? 239 then 3 else 4.

Inductive chars : bytes -> Prop :=
| chars_nil : chars []
| chars_cons c r : wf_char c = true -> chars r -> chars (c ++ r).

Ltac ranges := unfold is_cont, in_range in *.

Ltac fin_step :=
  split; [reflexivity | split; [cbn [wf_char]; ranges; lia | assumption]].

Lemma utf8_valid_step b0 r0 : utf8_valid (b0 :: r0) = true ->
  exists c r, b0 :: r0 = c ++ r /\ wf_char c = true /\ utf8_valid r = true.
Proof.
  intros H. cbn [utf8_valid] in H.
  destruct (b0 <? 128) eqn:E0.
  { exists [b0], r0. fin_step. }
  destruct r0 as [|b1 r1]; [discriminate|].
  destruct (in_range 194 223 b0) eqn:E1.
  { apply andb_prop in H as [H1 H2]. exists [b0; b1], r1. fin_step. }
  destruct r1 as [|b2 r2]; [discriminate|].
  destruct (b0 =? 224) eqn:E2.
  { apply andb_prop in H as [H1 H2]. exists [b0; b1; b2], r2. fin_step. }
  destruct (in_range 225 236 b0 || in_range 238 239 b0) eqn:E3.
  { apply andb_prop in H as [H1 H2]. exists [b0; b1; b2], r2. fin_step. }
  destruct (b0 =? 237) eqn:E4.
  { apply andb_prop in H as [H1 H2]. exists [b0; b1; b2], r2. fin_step. }
  destruct r2 as [|b3 r3]; [discriminate|].
  destruct (b0 =? 240) eqn:E5.
  { apply andb_prop in H as [H1 H2]. exists [b0; b1; b2; b3], r3. fin_step. }
  destruct (in_range 241 243 b0) eqn:E6.
  { apply andb_prop in H as [H1 H2]. exists [b0; b1; b2; b3], r3. fin_step. }
  destruct (b0 =? 244) eqn:E7; [|discriminate].
  apply andb_prop in H as [H1 H2]. exists [b0; b1; b2; b3], r3. fin_step.
Qed.

Ltac outer_if :=
  match goal with
  | |- (if ?c then _ else _) = _ => destruct c eqn:?
  end.

Ltac fin_app r :=
  try reflexivity; try (exfalso; ranges; lia);
  try (destruct (utf8_valid r); ranges; lia).

Lemma wf_char_valid_app c r : wf_char c = true -> utf8_valid (c ++ r) = utf8_valid r.
Proof.
  intros H.
  destruct c as [|b0 [|b1 [|b2 [|b3 [|b4 t]]]]]; cbn [wf_char] in H; try discriminate;
    cbn [app utf8_valid].
  - outer_if; fin_app r.
  - outer_if; fin_app r. outer_if; fin_app r.
  - outer_if; fin_app r. outer_if; fin_app r. outer_if; fin_app r.
    outer_if; fin_app r. outer_if; fin_app r.
  - outer_if; fin_app r. outer_if; fin_app r. outer_if; fin_app r.
    outer_if; fin_app r. outer_if; fin_app r. outer_if; fin_app r.
    outer_if; fin_app r. outer_if; fin_app r.
Qed.

Lemma wf_char_shape c : wf_char c = true ->
  exists h t, c = h :: t /\ is_cont h = false /\ forallb is_cont t = true /\
              wf_bytes c = true /\ lenN c = char_len h.
Proof.
  intros H.
  destruct c as [|b0 [|b1 [|b2 [|b3 [|b4 t]]]]]; cbn [wf_char] in H; try discriminate;
    eexists; eexists; (split; [reflexivity|]);
    unfold wf_bytes, is_byte, char_len; cbn [forallb lenN]; ranges;
    (destruct (b0 <? 128) eqn:?; [|destruct (b0 <=? 223) eqn:?; [|destruct (b0 <=? 239) eqn:?]]);
    repeat split; lia.
Qed.

Lemma chars_valid s : chars s -> utf8_valid s = true.
Proof.
  induction 1 as [|c r Hc Hr IH]; [reflexivity|].
  now rewrite wf_char_valid_app.
Qed.

Lemma valid_chars_aux k : forall s, (length s <= k)%nat -> utf8_valid s = true -> chars s.
Proof.
  induction k as [|k IH]; intros s Hl Hv.
  - destruct s; [constructor|cbn [length] in Hl; lia].
  - destruct s as [|b0 r0]; [constructor|].
    apply utf8_valid_step in Hv as (c & r & E & Hc & Hr).
    rewrite E. constructor; [exact Hc|]. apply IH; [|exact Hr].
    apply wf_char_shape in Hc as (h & t & -> & _).
    apply (f_equal (@length N)) in E. rewrite app_length in E. cbn [length] in *. lia.
Qed.

Lemma valid_chars s : utf8_valid s = true <-> chars s.
Proof. split; [apply (valid_chars_aux (length s)); lia|apply chars_valid]. Qed.

Lemma utf8_valid_len b0 r : utf8_valid (b0 :: r) = true -> char_len b0 <= lenN (b0 :: r).
Proof.
  intros H. apply utf8_valid_step in H as (c & r' & E & Hc & _).
  apply wf_char_shape in Hc as (h & t & -> & _ & _ & _ & Hl).
  rewrite E, lenN_app. injection E as -> _. lia.
Qed.

Lemma forallb_nthN (P : N -> bool) t n : forallb P t = true -> n < lenN t -> P (nthN n t) = true.
Proof.
  revert n; induction t as [|x t IH]; intros n H Hn.
  - rewrite lenN_nil in Hn. lia.
  - cbn [forallb] in H. apply andb_prop in H as [H1 H2]. rewrite lenN_cons in Hn.
    destruct (n =? 0) eqn:E.
    + apply N.eqb_eq in E. subst. rewrite nthN_0. exact H1.
    + rewrite nthN_cons by lia. apply IH; [exact H2|lia].
Qed.

(* ---------- the requested lemmas ---------- *)

(* 1 *)
Lemma utf8_valid_ascii : forall s, forallb (fun c => c <? 128) s = true -> utf8_valid s = true.
Proof.
  induction s as [|c s IH]; intros H; [reflexivity|].
  cbn [forallb] in H. apply andb_prop in H as [H1 H2].
  cbn [utf8_valid]. rewrite H1. now apply IH.
Qed.

(* 2 *)
Lemma utf8_valid_app : forall a b, utf8_valid a = true -> utf8_valid (a ++ b) = utf8_valid b.
Proof.
  intros a b H. apply valid_chars in H.
  induction H as [|c r Hc Hr IH]; [reflexivity|].
  rewrite <- app_assoc, wf_char_valid_app by exact Hc. exact IH.
Qed.

(* 3 *)
Lemma utf8_valid_wf : forall s, utf8_valid s = true -> wf_bytes s = true.
Proof.
  intros s H. apply valid_chars in H.
  induction H as [|c r Hc Hr IH]; [reflexivity|].
  rewrite wf_bytes_app, IH.
  apply wf_char_shape in Hc as (h & t & _ & _ & _ & Hw & _). now rewrite Hw.
Qed.

(* 8 *)
Lemma utf8_valid_not_cont : forall c r, utf8_valid (c :: r) = true -> is_cont c = false.
Proof.
  intros c r H. apply utf8_valid_step in H as (ch & r' & E & Hc & _).
  apply wf_char_shape in Hc as (h & t & -> & Hh & _).
  injection E as -> _. exact Hh.
Qed.

Lemma chars_prefix_boundary s : chars s -> forall n, n <= lenN s ->
  (utf8_valid (takeN n s) = true <-> is_char_boundary s n = true).
Proof.
  induction 1 as [|c r Hc Hr IH]; intros n Hn.
  - rewrite lenN_nil in Hn. assert (n = 0) as -> by lia. split; reflexivity.
  - pose proof (wf_char_shape c Hc) as (h & t & Ec & Hh & Ht & _ & Hl).
    rewrite lenN_app in Hn.
    destruct (n =? 0) eqn:E0.
    { apply N.eqb_eq in E0. subst n. rewrite takeN_0. split; reflexivity. }
    destruct (n <? lenN c) eqn:E1.
    + (* strictly inside the first character: neither holds *)
      assert (Hv : utf8_valid (takeN n (c ++ r)) = false).
      { rewrite takeN_app_le by lia.
        destruct (utf8_valid (takeN n c)) eqn:Hv; [|reflexivity]. exfalso.
        pose proof (lenN_takeN n c) as Hlt.
        rewrite Ec in Hv, Hlt. rewrite takeN_cons in Hv, Hlt by lia.
        apply utf8_valid_len in Hv. rewrite <- Ec in Hlt. lia. }
      assert (Hb : is_char_boundary (c ++ r) n = false).
      { unfold is_char_boundary. rewrite E0, lenN_app.
        destruct (lenN c + lenN r <=? n) eqn:E2; [lia|].
        rewrite nthN_app_l by lia. rewrite Ec, nthN_cons by lia.
        rewrite (forallb_nthN is_cont t (n - 1) Ht); [reflexivity|].
        rewrite Ec, lenN_cons in E1. lia. }
      rewrite Hv, Hb. split; discriminate.
    + (* at or after the end of the first character *)
      rewrite takeN_app_ge by lia. rewrite wf_char_valid_app by exact Hc.
      rewrite IH by lia.
      assert (Eb : is_char_boundary r (n - lenN c) = is_char_boundary (c ++ r) n).
      { unfold is_char_boundary. rewrite E0, lenN_app.
        rewrite nthN_app_r by lia.
        destruct (n - lenN c =? 0) eqn:E2.
        - destruct (lenN c + lenN r <=? n) eqn:E3; [lia|].
          replace (n - lenN c) with 0 by lia.
          destruct r as [|x r']; [rewrite lenN_nil in E3; lia|].
          rewrite nthN_0. apply chars_valid in Hr.
          now rewrite (utf8_valid_not_cont x r' Hr).
        - destruct (lenN r <=? n - lenN c) eqn:E3;
            destruct (lenN c + lenN r <=? n) eqn:E4; try lia. reflexivity. }
      rewrite Eb. reflexivity.
Qed.

(* 4 *)
Lemma utf8_prefix_boundary : forall s n, utf8_valid s = true -> n <= lenN s ->
  (utf8_valid (takeN n s) = true <-> is_char_boundary s n = true).
Proof. intros s n H Hn. apply chars_prefix_boundary; [now apply valid_chars|exact Hn]. Qed.

(* 5 *)
Lemma utf8_suffix_boundary : forall s n, utf8_valid s = true -> is_char_boundary s n = true ->
  utf8_valid (dropN n s) = true.
Proof.
  intros s n H Hb.
  destruct (n <=? lenN s) eqn:E.
  - assert (Hn : n <= lenN s) by lia.
    apply (utf8_prefix_boundary s n H Hn) in Hb.
    rewrite <- (takeN_dropN n s) in H. now rewrite utf8_valid_app in H.
  - rewrite dropN_all by lia. reflexivity.
Qed.

(* 6 *)
Lemma utf8_ascii_boundary : forall s i, utf8_valid s = true -> i < lenN s -> nthN i s < 128 ->
  is_char_boundary s i = true /\ is_char_boundary s (i + 1) = true.
Proof.
  intros s i H Hi Ha.
  assert (B1 : is_char_boundary s i = true).
  { unfold is_char_boundary. destruct (i =? 0) eqn:E0; [reflexivity|].
    destruct (lenN s <=? i) eqn:E1; [lia|]. ranges. lia. }
  split; [exact B1|].
  unfold is_char_boundary. destruct (i + 1 =? 0) eqn:E0; [reflexivity|].
  destruct (lenN s <=? i + 1) eqn:E1; [lia|].
  pose proof (utf8_suffix_boundary s i H B1) as Hd.
  rewrite dropN_nthN in Hd by lia. cbn [utf8_valid] in Hd.
  destruct (nthN i s <? 128) eqn:E2; [|lia].
  rewrite dropN_nthN in Hd by lia.
  now rewrite (utf8_valid_not_cont _ _ Hd).
Qed.

(* 7 *)
Lemma utf8_take_after_ascii : forall s i, utf8_valid s = true -> i < lenN s -> nthN i s < 128 ->
  utf8_valid (takeN (i + 1) s) = true /\ utf8_valid (takeN i s) = true.
Proof.
  intros s i H Hi Ha.
  destruct (utf8_ascii_boundary s i H Hi Ha) as [B1 B2].
  split; apply utf8_prefix_boundary; try assumption; lia.
Qed.
