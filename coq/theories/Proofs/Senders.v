(* What the crate's own encoders emit is a self-parsing frame (C07/C08 + C04): so any pipeline of built v2
   headers and formatted v1 lines, in any order and number, is read back one by one by the receive loop. *)
From Coq Require Import ZArith List Lia Bool.
From PPP Require Import Base.Bytes Model.V1 Model.V2 Model.Auto Spec.V2Wire Spec.Encoder
  Proofs.BytesFacts Proofs.V1Final Proofs.AutoProps Proofs.RoundTrip Proofs.V1Format Proofs.Consume Proofs.StreamPipe.
Import ListNotations.
Local Open Scope N_scope.

(* a frame as a sender produces it *)
Inductive sent :=
| SentV1 (a : addrs1)
| SentV2 (cmd : command) (tr : protocol) (a : addresses) (tlvs : list (N * bytes)).

Definition wf_sent (m : sent) : bool :=
  match m with
  | SentV1 a => wf_addrs1 a
  | SentV2 cmd tr a tlvs =>
    wf_addresses a && wf_addr_bytes a && wf_bytes (tlvs_payload tlvs) && (lenN (enc_addrs a ++ tlvs_payload tlvs) <=? 65535)
  end.

Definition sent_frame (m : sent) : frame :=
  match m with
  | SentV1 a => F1 {| text := fmt1 a; addr := a |}
  | SentV2 cmd tr a tlvs => F2 {| hbytes := wire cmd tr a tlvs; hcommand := cmd; hprotocol := tr; haddresses := a |}
  end.

Definition sent_bytes (m : sent) : bytes :=
  match m with SentV1 a => fmt1 a | SentV2 cmd tr a tlvs => wire cmd tr a tlvs end.

Lemma sent_frame_bytes m : frame_bytes (sent_frame m) = sent_bytes m.
Proof. destruct m; reflexivity. Qed.

Lemma sent_self_parsing m : wf_sent m = true -> self_parsing (sent_frame m).
Proof.
  destruct m as [a|cmd tr a tlvs]; cbn [wf_sent sent_frame]; intros H; unfold self_parsing; cbn [frame_bytes text hbytes].
  - pose proof (fmt1_round_trip a H) as R. cbv zeta in R. destruct R as (_ & _ & R1 & _).
    destruct (p1_ok_starts_P _ _ R1) as [r Er]. rewrite (pa_text_line _ r Er), R1. reflexivity.
  - repeat (apply andb_true_iff in H; destruct H as [H ?]).
    match goal with L : (_ <=? _) = true |- _ => apply N.leb_le in L; rename L into Hl end.
    rewrite pa_spec, (wire_parses cmd tr a tlvs) by assumption. reflexivity.
Qed.

(* every pipeline of sent frames is received as sent *)
Theorem senders_pipeline ms rest k :
  forallb wf_sent ms = true -> wf_bytes (concat (map sent_bytes ms) ++ rest) = true -> frame_of (pa rest) = None ->
  drain (S (length ms) + k) (concat (map sent_bytes ms) ++ rest) = (map sent_frame ms, rest).
Proof.
  intros Hwf Hb Hr.
  assert (E : map sent_bytes ms = map frame_bytes (map sent_frame ms)).
  { rewrite map_map. apply map_ext. intros m. symmetry. apply sent_frame_bytes. }
  rewrite E in *. rewrite <- (map_length sent_frame ms).
  apply drain_sequence_fuel; try assumption.
  apply Forall_forall. intros fr Hin. apply in_map_iff in Hin. destruct Hin as (m & <- & Hm).
  apply sent_self_parsing. rewrite forallb_forall in Hwf. apply Hwf, Hm.
Qed.

(* and however the bytes of such a pipeline are cut into reads *)
Theorem senders_stream ms rest reads :
  forallb wf_sent ms = true -> stuck rest -> concat reads = concat (map sent_bytes ms) ++ rest ->
  wf_bytes (concat reads) = true ->
  fold_left on_read reads ([], []) = (map sent_frame ms, rest).
Proof.
  intros Hwf Hr Hc Hw.
  assert (E : map sent_bytes ms = map frame_bytes (map sent_frame ms)).
  { rewrite map_map. apply map_ext. intros m. symmetry. apply sent_frame_bytes. }
  apply stream_pipeline; [|exact Hr|rewrite <- E; exact Hc|exact Hw].
  apply Forall_forall. intros fr Hin. apply in_map_iff in Hin. destruct Hin as (m & <- & Hm).
  apply sent_self_parsing. rewrite forallb_forall in Hwf. apply Hwf, Hm.
Qed.
