(* C02: the v2 parser model accepts exactly the well-formed headers of Spec/V2Wire.v and decodes
   them to the specified value; the executable oracle decides the same relation. *)
From PPP Require Import Base.Bytes Model.V2 Spec.V2Wire Proofs.BytesFacts Proofs.V2Parse.

Lemma p2_ref_ok vc fp hi lo rest h :
  hi < 256 -> lo < 256 ->
  p2_ref vc fp hi lo rest = Ok h <->
  exists cmd fam proto,
    vc / 16 = 2 /\ cmd_of_nibble (vc mod 16) = Some cmd /\ fam_of_nibble (fp / 16) = Some fam
    /\ proto_of_nibble (fp mod 16) = Some proto /\ fam_size fam <= 256 * hi + lo /\ 256 * hi + lo <= lenN rest
    /\ h = {| hbytes := SIG ++ vc :: fp :: hi :: lo :: takeN (256 * hi + lo) rest;
              hcommand := cmd; hprotocol := proto; haddresses := decode_addrs fam rest |}.
Proof.
  intros Hhi Hlo. unfold p2_ref. split.
  - destruct (vc / 16 =? 2) eqn:Ev; cbn [negb]; [|discriminate].
    destruct (cmd_of_nibble (vc mod 16)) as [cmd|]; [|discriminate].
    destruct (fam_of_nibble (fp / 16)) as [fam|]; [|discriminate].
    destruct (proto_of_nibble (fp mod 16)) as [proto|]; [|discriminate].
    cbv zeta. destruct (256 * hi + lo <? fam_size fam) eqn:E1; [discriminate|].
    destruct (lenN rest <? 256 * hi + lo) eqn:E2; [discriminate|].
    intros H. injection H as <-. exists cmd, fam, proto. repeat split; try reflexivity; lia.
  - intros (cmd & fam & proto & Hv & Hc & Hf & Hp & H1 & H2 & ->).
    rewrite Hc, Hf, Hp. replace (vc / 16 =? 2) with true by lia. cbn [negb]. cbv zeta.
    replace (256 * hi + lo <? fam_size fam) with false by lia.
    replace (lenN rest <? 256 * hi + lo) with false by lia. reflexivity.
Qed.

Theorem p2_iff_wf x h : wf_bytes x = true -> (p2 x = Ok h <-> V2Wf x h).
Proof.
  intros Hwf. split.
  - intros H.
    destruct (lenN x <? 16) eqn:E16.
    { rewrite p2_short in H by lia. destruct (is_prefix _ _); discriminate. }
    destruct (beq (takeN 12 x) SIG) eqn:Es.
    2:{ apply beq_neq in Es. rewrite p2_nosig in H by (assumption || lia). discriminate. }
    apply beq_eq in Es. destruct (shape_of x) as (vc & fp & hi & lo & rest & ->); [lia|assumption|].
    destruct (wf_shape _ _ _ _ _ Hwf) as (Hvc & Hfp & Hhi & Hlo & Hr).
    rewrite p2_on_shape in H by assumption.
    apply p2_ref_ok in H; [|assumption|assumption].
    destruct H as (cmd & fam & proto & Hv & Hc & Hf & Hp & H1 & H2 & ->).
    exists vc, fp, (256 * hi + lo), rest, cmd, fam, proto.
    replace ((256 * hi + lo) / 256) with hi by lia. replace ((256 * hi + lo) mod 256) with lo by lia.
    repeat split; try assumption; try lia. now rewrite takeN_firstn.
  - intros (vc & fp & n & rest & cmd & fam & proto & -> & Hn & Hv & Hc & Hf & Hp & H1 & H2 & ->).
    destruct (wf_shape _ _ _ _ _ Hwf) as (Hvc & Hfp & Hhi & Hlo & Hr).
    rewrite p2_on_shape by assumption. apply p2_ref_ok; [assumption|assumption|].
    exists cmd, fam, proto. replace (256 * (n / 256) + n mod 256) with n by lia.
    repeat split; try assumption. now rewrite takeN_firstn.
Qed.

Lemma is_prefix_SIG_skipn x : is_prefix SIG x = true -> x = SIG ++ skipn 12 x.
Proof.
  intros H. apply is_prefix_app in H as [r ->]. change 12%nat with (length SIG).
  now rewrite skipn_app, skipn_all, Nat.sub_diag.
Qed.

Theorem v2_spec_iff_wf x h : wf_bytes x = true -> (v2_spec x = Some h <-> V2Wf x h).
Proof.
  intros Hwf. unfold v2_spec. split.
  - destruct (is_prefix SIG x) eqn:Ep; cbn [negb]; [|discriminate].
    apply is_prefix_SIG_skipn in Ep. revert Ep.
    destruct (skipn 12 x) as [|vc [|fp [|hi [|lo rest]]]]; try discriminate. intros -> .
    destruct (wf_shape _ _ _ _ _ Hwf) as (Hvc & Hfp & Hhi & Hlo & Hr).
    destruct (vc / 16 =? 2) eqn:Ev; cbn [negb]; [|discriminate].
    destruct (cmd_of_nibble (vc mod 16)) as [cmd|] eqn:Hc; [|discriminate].
    destruct (fam_of_nibble (fp / 16)) as [fam|] eqn:Hf; [|discriminate].
    destruct (proto_of_nibble (fp mod 16)) as [proto|] eqn:Hp; [|discriminate].
    destruct ((fam_size fam <=? 256 * hi + lo) && (256 * hi + lo <=? lenN rest)) eqn:E; [|discriminate].
    apply andb_prop in E as [E1 E2]. intros H. injection H as <-.
    exists vc, fp, (256 * hi + lo), rest, cmd, fam, proto.
    replace ((256 * hi + lo) / 256) with hi by lia. replace ((256 * hi + lo) mod 256) with lo by lia.
    repeat split; try assumption; lia.
  - intros (vc & fp & n & rest & cmd & fam & proto & -> & Hn & Hv & Hc & Hf & Hp & H1 & H2 & ->).
    destruct (wf_shape _ _ _ _ _ Hwf) as (Hvc & Hfp & Hhi & Hlo & Hr).
    replace (is_prefix SIG (SIG ++ vc :: fp :: n / 256 :: n mod 256 :: rest)) with true
      by (symmetry; apply is_prefix_app; eauto).
    cbn [negb]. change 12%nat with (length SIG). rewrite skipn_app, skipn_all, Nat.sub_diag. cbn [app skipn].
    rewrite Hc, Hf, Hp. replace (vc / 16 =? 2) with true by lia. cbn [negb].
    replace (256 * (n / 256) + n mod 256) with n by lia.
    replace ((fam_size fam <=? n) && (n <=? lenN rest)) with true by lia. reflexivity.
Qed.

Corollary p2_iff_spec x h : wf_bytes x = true -> (p2 x = Ok h <-> v2_spec x = Some h).
Proof. intros Hwf. rewrite p2_iff_wf, v2_spec_iff_wf by assumption. reflexivity. Qed.

(* rejection: an input that does not start with a well-formed header yields an error *)
Corollary p2_reject x : wf_bytes x = true -> (forall h, ~ V2Wf x h) -> exists e, p2 x = Err e.
Proof.
  intros Hwf Hn. destruct (p2 x) as [h|e] eqn:E; [|eauto].
  exfalso. apply (Hn h). now apply p2_iff_wf.
Qed.
