(* How much a receiver may have to buffer (C18 carried to the auto-detecting parser): whenever the result is
   "incomplete" -- the only case in which a receiver keeps waiting -- the input is short: at most 107 bytes
   on the v1 side, fewer than 16 + the declared length (at most 65 550 bytes) on the v2 side. *)
From Coq Require Import ZArith List Lia Bool.
From PPP Require Import Base.Bytes Std.Text Model.V1 Model.V2 Model.Auto Proofs.BytesFacts Proofs.V2Parse Proofs.V2Views Proofs.V1Final Proofs.AutoProps.
Import ListNotations.
Local Open Scope N_scope.

Theorem v1_incomplete_bounded x : is_incomplete1 (p1 x) = true -> lenN x <= MAX_LENGTH.
Proof.
  intros H. destruct (first_cr x) as [i|] eqn:Ef.
  - destruct (N.ltb (i + 1) (lenN x)) eqn:El.
    + apply N.ltb_lt in El. assert (S : settled x) by (left; exists i; split; assumption).
      rewrite (p1_final x S) in H. discriminate H.
    + apply N.ltb_ge in El. unfold p1, window_len in H. rewrite Ef in H.
      replace (N.min (i + 2) (lenN x)) with (lenN x) in H by lia.
      rewrite takeN_all in H by lia.
      destruct (utf8_valid x); [|discriminate H].
      unfold parse_header in H. destruct (isnil x) eqn:En.
      * destruct x; [cbn; lia|discriminate En].
      * destruct (MAX_LENGTH <? lenN x) eqn:Em; [discriminate H|]. apply N.ltb_ge in Em. exact Em.
  - unfold p1, window_len in H. rewrite Ef in H. destruct (MAX_LENGTH <=? lenN x) eqn:Em; [discriminate H|].
    apply N.leb_gt in Em. lia.
Qed.

Theorem v2_incomplete_bounded x : wf_bytes x = true -> is_incomplete2 (p2 x) = true ->
  lenN x < 16 + 65535.
Proof.
  intros Hw H. destruct (p2 x) as [h|e] eqn:E; [discriminate H|]. destruct e; try discriminate H.
  - destruct (p2_incomplete_exact x _ Hw E). lia.
  - destruct (p2_partial_exact x _ _ Hw E) as (H16 & Hh & Hn & Hlt). unfold from_be16 in Hn.
    assert (nthN 14 x < 256 /\ nthN 15 x < 256) as [? ?] by (split; apply wf_bytes_nthN; assumption). lia.
Qed.

(* the auto-detecting parser: a receiver that re-parses its buffer and gives up on a terminal error never
   holds more than 65 550 bytes without a verdict *)
Theorem auto_incomplete_bounded x : wf_bytes x = true -> is_incomplete_a (pa x) = true -> lenN x <= 65550.
Proof.
  intros Hw H. rewrite pa_incomplete in H. apply orb_true_iff in H. destruct H as [H|H].
  - pose proof (v2_incomplete_bounded x Hw H). lia.
  - apply andb_true_iff in H. destruct H as [_ H]. pose proof (v1_incomplete_bounded x H). unfold MAX_LENGTH in *. lia.
Qed.
