(* v2 halves of C04 / C05 / C12, and the auto-detecting parser (C06, and C04 / C05 / C12 under it). *)
From PPP Require Import Base.Bytes Std.Utf8 Std.Text Model.V1 Model.V2 Model.Auto Spec.V2Wire
  Proofs.BytesFacts Proofs.V2Parse Proofs.V2Spec Proofs.V2Views Proofs.V1Text Proofs.V1Final Proofs.V1Lines
  Proofs.V1Shape Proofs.V1Props.

(* ---- C12, v2 side: each control element, with the offending value in place ---- *)
Section Blame2.
Variables (vc fp hi lo : N) (rest : bytes).
Hypotheses (Hvc : vc < 256) (Hfp : fp < 256) (Hhi : hi < 256) (Hlo : lo < 256).
Let x := SIG ++ vc :: fp :: hi :: lo :: rest.

Lemma blame_version : vc / 16 <> 2 -> p2 x = Err (Version (16 * (vc / 16))).
Proof.
  intros H. unfold x. rewrite p2_on_shape by assumption. unfold p2_ref.
  replace (vc / 16 =? 2) with false by lia. reflexivity.
Qed.

Lemma blame_command : vc / 16 = 2 -> 1 < vc mod 16 -> p2 x = Err (Command (vc mod 16)).
Proof.
  intros H1 H2. unfold x. rewrite p2_on_shape by assumption. unfold p2_ref.
  replace (vc / 16 =? 2) with true by lia. cbn [negb].
  assert (Hm : vc mod 16 < 16) by lia.
  destruct (vc mod 16) as [|[[p|p|]|[p|p|]|]] eqn:E; cbn [cmd_of_nibble]; try reflexivity; lia.
Qed.

Lemma blame_family cmd : vc / 16 = 2 -> cmd_of_nibble (vc mod 16) = Some cmd -> 3 < fp / 16 ->
  p2 x = Err (AddressFamily (16 * (fp / 16))).
Proof.
  intros H1 H2 H3. unfold x. rewrite p2_on_shape by assumption. unfold p2_ref.
  replace (vc / 16 =? 2) with true by lia. cbn [negb]. rewrite H2.
  destruct (fp / 16) as [|[[p|p|]|[p|p|]|]] eqn:E; cbn [fam_of_nibble]; try reflexivity; lia.
Qed.

Lemma blame_transport cmd fam : vc / 16 = 2 -> cmd_of_nibble (vc mod 16) = Some cmd ->
  fam_of_nibble (fp / 16) = Some fam -> 2 < fp mod 16 -> p2 x = Err (Protocol (fp mod 16)).
Proof.
  intros H1 H2 H3 H4. unfold x. rewrite p2_on_shape by assumption. unfold p2_ref.
  replace (vc / 16 =? 2) with true by lia. cbn [negb]. rewrite H2, H3.
  destruct (fp mod 16) as [|[[p|p|]|[p|p|]|]] eqn:E; cbn [proto_of_nibble]; try reflexivity; lia.
Qed.

Lemma blame_length cmd fam proto : vc / 16 = 2 -> cmd_of_nibble (vc mod 16) = Some cmd ->
  fam_of_nibble (fp / 16) = Some fam -> proto_of_nibble (fp mod 16) = Some proto ->
  256 * hi + lo < fam_size fam -> p2 x = Err (InvalidAddresses (256 * hi + lo) (fam_size fam)).
Proof.
  intros H1 H2 H3 H4 H5. unfold x. rewrite p2_on_shape by assumption. unfold p2_ref.
  replace (vc / 16 =? 2) with true by lia. cbn [negb]. rewrite H2, H3, H4. cbv zeta.
  replace (256 * hi + lo <? fam_size fam) with true by lia. reflexivity.
Qed.
End Blame2.

Lemma blame_signature x : 12 <= lenN x -> takeN 12 x <> SIG -> p2 x = Err Prefix.
Proof. exact (p2_nosig x). Qed.

(* ---- C04, v2 ---- *)
Lemma decode_addrs_app fam rest t : fam_size fam <= lenN rest -> decode_addrs fam (rest ++ t) = decode_addrs fam rest.
Proof.
  intros H. rewrite <- (decode_addrs_takeN fam (rest ++ t) (fam_size fam)) by (rewrite ?lenN_app; lia).
  rewrite <- (decode_addrs_takeN fam rest (fam_size fam)) by lia. now rewrite takeN_app_le.
Qed.

Theorem p2_trailer_independent x h t : wf_bytes (x ++ t) = true -> p2 x = Ok h ->
  p2 (x ++ t) = Ok h /\ p2 (hbytes h) = Ok h
  /\ lenN (hbytes h) = 16 + from_be16 (nthN 14 x) (nthN 15 x) /\ hbytes h = takeN (lenN (hbytes h)) x.
Proof.
  intros Hwf H. assert (Hwx : wf_bytes x = true) by (rewrite wf_bytes_app in Hwf; now apply andb_prop in Hwf).
  destruct (p2_ok_form x h Hwx H) as (vc & fp & hi & lo & rest & cmd & fam & proto & -> & Hvc & Hfp & Hhi & Hlo & Hr
                                       & Hv & Hc & Hf & Hp & H1 & H2 & ->).
  remember (256 * hi + lo) as n eqn:En.
  assert (Hn : lenN (takeN n rest) = n) by (rewrite lenN_takeN; lia).
  repeat split.
  - rewrite <- app_assoc. cbn [app]. rewrite p2_on_shape by assumption. apply p2_ref_ok; [assumption|assumption|].
    exists cmd, fam, proto. rewrite <- En. rewrite lenN_app. repeat split; try assumption; try lia.
    rewrite takeN_app_le by lia. now rewrite decode_addrs_app by lia.
  - cbn [hbytes]. rewrite p2_on_shape by assumption. apply p2_ref_ok; [assumption|assumption|].
    exists cmd, fam, proto. rewrite <- En. rewrite Hn. repeat split; try assumption; try lia.
    rewrite (takeN_all (takeN n rest)) by lia. now rewrite decode_addrs_takeN by lia.
  - cbn [hbytes]. rewrite lenN_app, !lenN_cons, lenN_SIG, Hn. unfold from_be16.
    change (nthN 14 (SIG ++ vc :: fp :: hi :: lo :: rest)) with hi.
    change (nthN 15 (SIG ++ vc :: fp :: hi :: lo :: rest)) with lo. lia.
  - cbn [hbytes]. rewrite lenN_app, !lenN_cons, lenN_SIG, Hn.
    rewrite takeN_app_ge by (rewrite lenN_SIG; lia). f_equal. rewrite lenN_SIG.
    do 4 (rewrite takeN_cons by lia; f_equal). f_equal. lia.
Qed.

(* ---- C05, v2: every proper prefix of an accepted header is incomplete, with exact counts ---- *)
Theorem p2_prefix_incomplete x h k : wf_bytes x = true -> p2 x = Ok h -> k < lenN (hbytes h) ->
  p2 (takeN k x) = if k <? 16 then Err (Incomplete k) else Err (Partial (k - 16) (h_length h)).
Proof.
  intros Hwf H Hk.
  destruct (p2_ok_form x h Hwf H) as (vc & fp & hi & lo & rest & cmd & fam & proto & -> & Hvc & Hfp & Hhi & Hlo & Hr
                                       & Hv & Hc & Hf & Hp & H1 & H2 & ->).
  remember (256 * hi + lo) as n eqn:En.
  assert (Hn : lenN (takeN n rest) = n) by (rewrite lenN_takeN; lia).
  cbn [hbytes] in Hk. rewrite lenN_app, !lenN_cons, lenN_SIG, Hn in Hk.
  assert (Hlen : h_length {| hbytes := SIG ++ vc :: fp :: hi :: lo :: takeN n rest; hcommand := cmd;
                             hprotocol := proto; haddresses := decode_addrs fam rest |} = n).
  { unfold h_length, MINIMUM_LENGTH. cbn [hbytes]. rewrite lenN_dropN, lenN_app, !lenN_cons, lenN_SIG, Hn. lia. }
  rewrite Hlen.
  set (x := SIG ++ vc :: fp :: hi :: lo :: rest).
  assert (Hx : lenN x = 16 + lenN rest) by (unfold x; rewrite lenN_app, !lenN_cons, lenN_SIG; lia).
  destruct (k <? 16) eqn:E16.
  - rewrite p2_short by (rewrite lenN_takeN; lia). rewrite takeN_takeN, lenN_takeN.
    replace (N.min k (lenN x)) with k by lia.
    assert (P : is_prefix (takeN (N.min 12 k) x) SIG = true).
    { apply is_prefix_app. exists (dropN (N.min 12 k) SIG).
      assert (T : takeN (N.min 12 k) x = takeN (N.min 12 k) SIG).
      { unfold x. apply takeN_app_le. rewrite lenN_SIG. lia. }
      rewrite T. now rewrite takeN_dropN. }
    now rewrite P.
  - assert (T : takeN k x = SIG ++ vc :: fp :: hi :: lo :: takeN (k - 16) rest).
    { unfold x. rewrite takeN_app_ge by (rewrite lenN_SIG; lia). f_equal. rewrite lenN_SIG.
      do 4 (rewrite takeN_cons by lia; f_equal). f_equal. lia. }
    rewrite T, p2_on_shape by assumption. unfold p2_ref.
    replace (vc / 16 =? 2) with true by lia. cbn [negb]. rewrite Hc, Hf, Hp. cbv zeta. rewrite <- En.
    replace (n <? fam_size fam) with false by lia. rewrite lenN_takeN.
    replace (N.min (k - 16) (lenN rest) <? n) with true by lia. f_equal. f_equal. lia.
Qed.

Corollary p2_prefix_flag x h k : wf_bytes x = true -> p2 x = Ok h -> k < lenN (hbytes h) ->
  is_incomplete2 (p2 (takeN k x)) = true.
Proof. intros Hwf H Hk. rewrite (p2_prefix_incomplete x h k Hwf H Hk). destruct (k <? 16); reflexivity. Qed.

(* ---- C06 ---- *)
Theorem pa_spec x :
  pa x = if is_incomplete2 (p2 x) || is_ok (p2 x) then RV2 (p2 x) else RV1 (p1 x).
Proof.
  unfold pa, is_complete2, is_err. destruct (p2 x) as [h|e]; [reflexivity|]. cbn [is_ok is_incomplete2 negb].
  destruct (err2_is_incomplete e); reflexivity.
Qed.

Lemma shape_starts_P l ad : shape l ad -> exists r, l = 80 :: r.
Proof. intros S. destruct S; eexists; reflexivity. Qed.

Lemma p1_ok_starts_P x hd : p1 x = Ok hd -> exists r, x = 80 :: r.
Proof.
  intros H. apply p1_accepts_iff in H as (a & rest & -> & _ & _ & _ & Sh & _).
  destruct (shape_starts_P _ _ Sh) as [r Hr]. exists (r ++ rest). rewrite app_assoc, Hr. reflexivity.
Qed.

(* what the v2 parser does with an input that starts like text *)
Lemma p2_text x r : x = 80 :: r -> p2 x = Err Prefix.
Proof.
  intros ->. unfold p2. destruct (lenN (80 :: r) <? 12); [reflexivity|].
  assert (E : beq (takeN 12 (80 :: r)) SIG = false).
  { rewrite takeN_cons by lia. reflexivity. }
  now rewrite E.
Qed.

Theorem never_both x h1 h2 : p1 x = Ok h1 -> p2 x = Ok h2 -> False.
Proof. intros H1 H2. destruct (p1_ok_starts_P x h1 H1) as [r Hr]. rewrite (p2_text x r Hr) in H2. discriminate. Qed.

Definition is_ok_a (r : header_result) : bool := match r with RV1 r => is_ok r | RV2 r => is_ok r end.

Theorem pa_accepts x : is_ok_a (pa x) = is_ok (p2 x) || is_ok (p1 x).
Proof.
  rewrite pa_spec. destruct (p2 x) as [h|e] eqn:E2; [reflexivity|]. cbn [is_ok is_incomplete2 orb].
  destruct (err2_is_incomplete e) eqn:Ei; cbn [is_ok_a is_ok]; [|reflexivity].
  (* an incomplete v2 result: the text parser cannot accept this input *)
  destruct (p1 x) as [h1|e1] eqn:E1; [|reflexivity]. exfalso.
  destruct (p1_ok_starts_P x h1 E1) as [r Hr]. rewrite (p2_text x r Hr) in E2. injection E2 as <-. discriminate.
Qed.

Theorem pa_incomplete x :
  is_incomplete_a (pa x) = is_incomplete2 (p2 x) || (is_err (p2 x) && negb (is_incomplete2 (p2 x)) && is_incomplete1 (p1 x)).
Proof.
  rewrite pa_spec. unfold is_err. destruct (p2 x) as [h|e]; [reflexivity|]. cbn [is_ok is_incomplete2 negb orb andb].
  destruct (err2_is_incomplete e) eqn:Ei; cbn [orb negb andb is_incomplete_a is_incomplete2]; rewrite ?Ei; reflexivity.
Qed.

Theorem pa_v2_first x : is_incomplete2 (p2 x) = true -> pa x = RV2 (p2 x).
Proof. intros H. now rewrite pa_spec, H. Qed.

(* "still a possible v2 header" (Spec/V2Wire.v) is exactly: the v2 parser accepts or reports incomplete *)
Theorem v2_possible_spec x : wf_bytes x = true -> v2_possible x = is_ok (p2 x) || is_incomplete2 (p2 x).
Proof.
  intros Hwf. unfold v2_possible.
  destruct (p2_cases x Hwf) as [[Hl E]|[[Hl [Hs E]]|(vc & fp & hi & lo & rest & -> & Hvc & Hfp & Hhi & Hlo & Hr & E)]]; rewrite E.
  - destruct (lenN x <? 12) eqn:E12.
    + rewrite takeN_all by lia. destruct (is_prefix x SIG); reflexivity.
    + (* 12..15 bytes *)
      destruct (is_prefix (takeN 12 x) SIG) eqn:Ep.
      * assert (Et : takeN 12 x = SIG).
        { apply is_prefix_app in Ep as [r Hr]. assert (lenN r = 0).
          { apply (f_equal lenN) in Hr. rewrite lenN_app, lenN_takeN, lenN_SIG in Hr. lia. }
          apply lenN_0 in H. subst r. now rewrite app_nil_r in Hr. }
        assert (Ex : x = SIG ++ dropN 12 x) by (rewrite <- Et; symmetry; apply takeN_dropN).
        assert (P : is_prefix SIG x = true) by (apply is_prefix_app; eauto).
        rewrite P. cbn [negb]. rewrite Ex. change 12%nat with (length SIG). rewrite skipn_app, skipn_all, Nat.sub_diag.
        cbn [skipn app]. pose proof (lenN_dropN 12 x) as Hd.
        destruct (dropN 12 x) as [|? [|? [|? [|? ?]]]]; rewrite ?lenN_cons, ?lenN_nil in Hd; try reflexivity; lia.
      * assert (P : is_prefix SIG x = false).
        { destruct (is_prefix SIG x) eqn:P; [|reflexivity]. apply is_prefix_app in P as [r ->].
          rewrite takeN_app_exact in Ep by reflexivity. now rewrite (proj2 (is_prefix_app SIG SIG)) in Ep by (exists []; now rewrite app_nil_r). }
        now rewrite P.
  - replace (lenN x <? 12) with false by lia.
    assert (P : is_prefix SIG x = false).
    { destruct (is_prefix SIG x) eqn:P; [|reflexivity]. apply is_prefix_app in P as [r ->].
      rewrite takeN_app_exact in Hs by reflexivity. congruence. }
    now rewrite P.
  - assert (Hx : lenN (SIG ++ vc :: fp :: hi :: lo :: rest) = 16 + lenN rest) by (rewrite lenN_app, !lenN_cons, lenN_SIG; lia).
    rewrite Hx. replace (16 + lenN rest <? 12) with false by lia.
    replace (is_prefix SIG (SIG ++ vc :: fp :: hi :: lo :: rest)) with true by (symmetry; apply is_prefix_app; eauto).
    cbn [negb]. change 12%nat with (length SIG). rewrite skipn_app, skipn_all, Nat.sub_diag. cbn [skipn app].
    unfold p2_ref. destruct (vc / 16 =? 2); cbn [negb andb]; [|reflexivity].
    destruct (cmd_of_nibble (vc mod 16)); [|reflexivity].
    destruct (fam_of_nibble (fp / 16)) as [fam|]; [|reflexivity].
    destruct (proto_of_nibble (fp mod 16)); [|reflexivity]. cbv zeta.
    destruct (256 * hi + lo <? fam_size fam) eqn:En.
    + replace (fam_size fam <=? 256 * hi + lo) with false by lia. reflexivity.
    + replace (fam_size fam <=? 256 * hi + lo) with true by lia.
      destruct (lenN rest <? 256 * hi + lo); reflexivity.
Qed.

(* ---- C04 / C05 / C12 under the auto-detecting parser ---- *)
Theorem pa_trailer_independent x r t : wf_bytes (x ++ t) = true -> pa x = r -> is_ok_a r = true -> pa (x ++ t) = r.
Proof.
  intros Hwf <- Hok. rewrite !pa_spec in *.
  destruct (p2 x) as [h|e] eqn:E2.
  - cbn [is_ok orb]. rewrite orb_true_r.
    destruct (p2_trailer_independent x h t Hwf E2) as (-> & _). cbn [is_ok orb]. now rewrite orb_true_r.
  - cbn [is_ok is_incomplete2 orb] in *. destruct (err2_is_incomplete e) eqn:Ei; [discriminate Hok|].
    cbn [is_ok_a] in Hok. destruct (p1 x) as [h1|e1] eqn:E1; [|discriminate].
    destruct (p1_ok_starts_P x h1 E1) as [q Hq].
    rewrite (p2_text (x ++ t) (q ++ t)) by (rewrite Hq; reflexivity). cbn [is_ok is_incomplete2 err2_is_incomplete orb].
    destruct (p1_trailer_independent x h1 t E1) as (-> & _). reflexivity.
Qed.

Theorem pa_prefix_incomplete_v2 x h k : wf_bytes x = true -> p2 x = Ok h -> k < lenN (hbytes h) ->
  is_incomplete_a (pa (takeN k x)) = true.
Proof. intros Hwf H Hk. rewrite pa_incomplete, (p2_prefix_flag x h k Hwf H Hk). reflexivity. Qed.

(* a terminal v2 error on at least two bytes that begin with CR: the text verdict is terminal too *)
Theorem pa_terminal x : wf_bytes x = true -> 16 <= lenN x -> is_ok (p2 x) = false -> is_incomplete2 (p2 x) = false ->
  is_prefix SIG x = true -> is_incomplete_a (pa x) = false.
Proof.
  intros Hwf Hl Hok Hinc Hs. rewrite pa_incomplete, Hinc. cbn [orb negb]. rewrite andb_true_r.
  apply is_prefix_app in Hs as [r ->].
  assert (F : is_incomplete1 (p1 (SIG ++ r)) = false).
  { apply p1_final. left. exists 0. split; [reflexivity|]. rewrite lenN_app, lenN_SIG in *. lia. }
  rewrite F. now rewrite andb_false_r.
Qed.

(* is_complete is the negation of is_incomplete; a success is never incomplete (all result types) *)
Theorem flags_consistent :
  (forall A (r : result A err2), is_complete2 r = negb (is_incomplete2 r))
  /\ (forall r, is_complete_a r = negb (is_incomplete_a r))
  /\ (forall A (a : A), is_incomplete2 (@Ok A err2 a) = false)
  /\ (forall A (a : A), is_incomplete1 (@Ok A berr1 a) = false)
  /\ (forall A (a : A), is_incomplete1s (@Ok A err1 a) = false)
  /\ (forall r, is_ok_a r = true -> is_incomplete_a r = false).
Proof. repeat split; try reflexivity. intros [[h|e]|[h|e]]; cbn; congruence. Qed.
