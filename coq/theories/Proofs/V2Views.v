(* C14 (views partition the header), C17 (exact counts), and the v2 halves of C04 / C05 / C12. *)
From PPP Require Import Base.Bytes Model.V2 Spec.V2Wire Proofs.BytesFacts Proofs.V2Parse Proofs.V2Spec.

(* ---- every input falls in exactly one of three classes, each with a closed form for p2 ---- *)
Lemma p2_cases x : wf_bytes x = true ->
  (lenN x < 16 /\ p2 x = (if is_prefix (takeN 12 x) SIG then Err (Incomplete (lenN x)) else Err Prefix))
  \/ (16 <= lenN x /\ takeN 12 x <> SIG /\ p2 x = Err Prefix)
  \/ (exists vc fp hi lo rest, x = SIG ++ vc :: fp :: hi :: lo :: rest
        /\ vc < 256 /\ fp < 256 /\ hi < 256 /\ lo < 256 /\ wf_bytes rest = true
        /\ p2 x = p2_ref vc fp hi lo rest).
Proof.
  intros Hwf. destruct (lenN x <? 16) eqn:E16.
  { left. split; [lia|]. apply p2_short. lia. }
  destruct (beq (takeN 12 x) SIG) eqn:Es.
  2:{ right. left. apply beq_neq in Es. split; [lia|]. split; [assumption|]. apply p2_nosig; [lia|assumption]. }
  right. right. apply beq_eq in Es. destruct (shape_of x) as (vc & fp & hi & lo & rest & ->); [lia|assumption|].
  destruct (wf_shape _ _ _ _ _ Hwf) as (Hvc & Hfp & Hhi & Hlo & Hr).
  exists vc, fp, hi, lo, rest. repeat split; try assumption. now apply p2_on_shape.
Qed.

(* p2_ref inverted for each result kind *)
Lemma p2_ref_partial vc fp hi lo rest have need :
  p2_ref vc fp hi lo rest = Err (Partial have need) ->
  have = lenN rest /\ need = 256 * hi + lo /\ lenN rest < need
  /\ exists cmd fam proto, vc / 16 = 2 /\ cmd_of_nibble (vc mod 16) = Some cmd /\ fam_of_nibble (fp / 16) = Some fam
     /\ proto_of_nibble (fp mod 16) = Some proto /\ fam_size fam <= need.
Proof.
  unfold p2_ref. destruct (vc / 16 =? 2) eqn:Ev; cbn [negb]; [|discriminate].
  destruct (cmd_of_nibble (vc mod 16)) as [cmd|]; [|discriminate].
  destruct (fam_of_nibble (fp / 16)) as [fam|]; [|discriminate].
  destruct (proto_of_nibble (fp mod 16)) as [proto|]; [|discriminate].
  cbv zeta. destruct (256 * hi + lo <? fam_size fam) eqn:E1; [discriminate|].
  destruct (lenN rest <? 256 * hi + lo) eqn:E2; [|discriminate].
  intros H. injection H as <- <-. repeat split; try lia. exists cmd, fam, proto. repeat split; try reflexivity; lia.
Qed.

Lemma p2_ref_not_incomplete vc fp hi lo rest n : p2_ref vc fp hi lo rest <> Err (Incomplete n).
Proof.
  unfold p2_ref. repeat match goal with
    | |- context [if ?c then _ else _] => destruct c
    | |- context [match ?o with Some _ => _ | None => _ end] => destruct o
    end; cbv zeta; repeat match goal with |- context [if ?c then _ else _] => destruct c end; discriminate.
Qed.

(* ---- C17 ---- *)
Theorem p2_incomplete_exact x n : wf_bytes x = true -> p2 x = Err (Incomplete n) -> n = lenN x /\ lenN x < 16.
Proof.
  intros Hwf H. destruct (p2_cases x Hwf) as [[Hl E]|[[Hl [_ E]]|(vc & fp & hi & lo & rest & -> & _ & _ & _ & _ & _ & E)]];
    rewrite E in H.
  - destruct (is_prefix _ _); [|discriminate]. injection H as <-. split; [reflexivity|assumption].
  - discriminate.
  - exfalso. eapply p2_ref_not_incomplete. exact H.
Qed.

Theorem p2_partial_exact x have need : wf_bytes x = true -> p2 x = Err (Partial have need) ->
  16 <= lenN x /\ have = lenN x - 16 /\ need = from_be16 (nthN 14 x) (nthN 15 x) /\ have < need.
Proof.
  intros Hwf H. destruct (p2_cases x Hwf) as [[Hl E]|[[Hl [_ E]]|(vc & fp & hi & lo & rest & -> & _ & _ & _ & _ & _ & E)]];
    rewrite E in H.
  - destruct (is_prefix _ _); discriminate.
  - discriminate.
  - apply p2_ref_partial in H as (-> & -> & Hlt & _).
    rewrite lenN_app, !lenN_cons, lenN_SIG. unfold from_be16.
    change (nthN 14 (SIG ++ vc :: fp :: hi :: lo :: rest)) with hi.
    change (nthN 15 (SIG ++ vc :: fp :: hi :: lo :: rest)) with lo. repeat split; lia.
Qed.

Theorem p2_partial_fill x have need t : wf_bytes (x ++ t) = true -> p2 x = Err (Partial have need) ->
  (lenN t = need - have -> is_ok (p2 (x ++ t)) = true)
  /\ (lenN t < need - have -> p2 (x ++ t) = Err (Partial (have + lenN t) need)).
Proof.
  intros Hwf H. assert (Hwx : wf_bytes x = true) by (rewrite wf_bytes_app in Hwf; now apply andb_prop in Hwf).
  destruct (p2_cases x Hwx) as [[Hl E]|[[Hl [_ E]]|(vc & fp & hi & lo & rest & -> & Hvc & Hfp & Hhi & Hlo & _ & E)]];
    rewrite E in H.
  - destruct (is_prefix _ _); discriminate.
  - discriminate.
  - apply p2_ref_partial in H as (-> & -> & Hlt & cmd & fam & proto & Hv & Hc & Hf & Hp & Hs).
    rewrite <- app_assoc. cbn [app]. rewrite p2_on_shape by assumption.
    unfold p2_ref. rewrite Hc, Hf, Hp. replace (vc / 16 =? 2) with true by lia. cbn [negb]. cbv zeta.
    replace (256 * hi + lo <? fam_size fam) with false by lia. rewrite lenN_app. split; intros Ht.
    + replace (lenN rest + lenN t <? 256 * hi + lo) with false by lia. reflexivity.
    + replace (lenN rest + lenN t <? 256 * hi + lo) with true by lia. reflexivity.
Qed.

(* ---- accepted headers: the normal form used by C04, C05, C13, C14 ---- *)
Lemma p2_ok_form x h : wf_bytes x = true -> p2 x = Ok h ->
  exists vc fp hi lo rest cmd fam proto,
    x = SIG ++ vc :: fp :: hi :: lo :: rest
    /\ vc < 256 /\ fp < 256 /\ hi < 256 /\ lo < 256 /\ wf_bytes rest = true
    /\ vc / 16 = 2 /\ cmd_of_nibble (vc mod 16) = Some cmd /\ fam_of_nibble (fp / 16) = Some fam
    /\ proto_of_nibble (fp mod 16) = Some proto /\ fam_size fam <= 256 * hi + lo /\ 256 * hi + lo <= lenN rest
    /\ h = {| hbytes := SIG ++ vc :: fp :: hi :: lo :: takeN (256 * hi + lo) rest;
              hcommand := cmd; hprotocol := proto; haddresses := decode_addrs fam rest |}.
Proof.
  intros Hwf H. destruct (p2_cases x Hwf) as [[Hl E]|[[Hl [_ E]]|(vc & fp & hi & lo & rest & -> & Hvc & Hfp & Hhi & Hlo & Hr & E)]];
    rewrite E in H.
  - destruct (is_prefix _ _); discriminate.
  - discriminate.
  - apply p2_ref_ok in H; [|assumption|assumption].
    destruct H as (cmd & fam & proto & Hv & Hc & Hf & Hp & H1 & H2 & ->).
    exists vc, fp, hi, lo, rest, cmd, fam, proto. repeat split; assumption.
Qed.

Lemma family_of_decode fam rest : address_family (decode_addrs fam rest) = fam.
Proof. destruct fam; reflexivity. Qed.

Lemma decode_addrs_takeN fam rest n : fam_size fam <= n -> n <= lenN rest ->
  decode_addrs fam (takeN n rest) = decode_addrs fam rest.
Proof.
  intros H1 H2. rewrite <- !parse_addresses2_decode by (rewrite ?lenN_takeN; lia).
  rewrite takeN_takeN. f_equal. f_equal. lia.
Qed.

Lemma fam_of_nibble_code q fam : fam_of_nibble q = Some fam -> family_code fam = 16 * q.
Proof. destruct q as [|[[p|p|]|[p|p|]|]]; cbn; intros H; try discriminate; injection H as <-; reflexivity. Qed.

(* ---- C14 ---- *)
Theorem views_partition x h : wf_bytes x = true -> p2 x = Ok h ->
  h_address_bytes h ++ h_tlv_bytes h = dropN 16 (hbytes h)
  /\ lenN (h_address_bytes h) = (match h_address_family h with FUnspec => h_length h | f => fam_size f end)
  /\ h_length h + 16 = h_len h
  /\ h_len h = lenN (h_as_bytes h)
  /\ h_length h = from_be16 (nthN 14 (hbytes h)) (nthN 15 (hbytes h))
  /\ h_is_empty h = false
  /\ family_code (h_address_family h) = 16 * (nthN 13 (hbytes h) / 16)
  /\ haddresses h = decode_addrs (h_address_family h) (h_address_bytes h)
  /\ addresses_len (haddresses h) = fam_size (h_address_family h)
  /\ addresses_is_empty (haddresses h) = (match h_address_family h with FUnspec => true | _ => false end)
  /\ family_to_u16 (h_address_family h) = fam_size (h_address_family h)
  /\ h_to_owned h = h.
Proof.
  intros Hwf H.
  destruct (p2_ok_form x h Hwf H) as (vc & fp & hi & lo & rest & cmd & fam & proto & -> & Hvc & Hfp & Hhi & Hlo & Hr
                                       & Hv & Hc & Hf & Hp & H1 & H2 & ->).
  set (n := 256 * hi + lo) in *.
  set (hb := SIG ++ vc :: fp :: hi :: lo :: takeN n rest).
  assert (Hd16 : dropN 16 hb = takeN n rest).
  { unfold hb. rewrite dropN_app_ge by (rewrite lenN_SIG; lia). rewrite lenN_SIG.
    change (16 - 12) with 4. destruct (takeN n rest); reflexivity. }
  assert (Hlen : lenN hb = 16 + n).
  { unfold hb. rewrite lenN_app, !lenN_cons, lenN_SIG, lenN_takeN. lia. }
  assert (Hfam : h_address_family {| hbytes := hb; hcommand := cmd; hprotocol := proto; haddresses := decode_addrs fam rest |} = fam)
    by apply family_of_decode.
  assert (Hl : h_length {| hbytes := hb; hcommand := cmd; hprotocol := proto; haddresses := decode_addrs fam rest |} = n).
  { unfold h_length. cbn [hbytes]. unfold MINIMUM_LENGTH. rewrite Hd16, lenN_takeN. lia. }
  assert (Hend : h_address_bytes_end {| hbytes := hb; hcommand := cmd; hprotocol := proto; haddresses := decode_addrs fam rest |}
                 = 16 + (match fam with FUnspec => n | f => fam_size f end)).
  { unfold h_address_bytes_end. rewrite Hl, Hfam. unfold MINIMUM_LENGTH. destruct fam; cbn [byte_length fam_size] in *; lia. }
  assert (Hab : h_address_bytes {| hbytes := hb; hcommand := cmd; hprotocol := proto; haddresses := decode_addrs fam rest |}
                = takeN (match fam with FUnspec => n | f => fam_size f end) (takeN n rest)).
  { unfold h_address_bytes. rewrite Hend. cbn [hbytes]. unfold sliceN, MINIMUM_LENGTH. rewrite Hd16. f_equal. lia. }
  assert (Htb : h_tlv_bytes {| hbytes := hb; hcommand := cmd; hprotocol := proto; haddresses := decode_addrs fam rest |}
                = dropN (match fam with FUnspec => n | f => fam_size f end) (takeN n rest)).
  { unfold h_tlv_bytes. rewrite Hend. cbn [hbytes]. rewrite <- dropN_dropN. now rewrite Hd16. }
  repeat split.
  - rewrite Hab, Htb. cbn [hbytes]. rewrite Hd16. apply takeN_dropN.
  - rewrite Hab, Hfam, Hl, !lenN_takeN. destruct fam; cbn [fam_size] in *; lia.
  - rewrite Hl. unfold h_len. cbn [hbytes]. lia.
  - rewrite Hl. cbn [hbytes]. unfold from_be16. unfold hb.
    change (nthN 14 (SIG ++ vc :: fp :: hi :: lo :: takeN n rest)) with hi.
    change (nthN 15 (SIG ++ vc :: fp :: hi :: lo :: takeN n rest)) with lo. reflexivity.
  - rewrite Hfam. cbn [hbytes]. unfold hb.
    change (nthN 13 (SIG ++ vc :: fp :: hi :: lo :: takeN n rest)) with fp. now apply fam_of_nibble_code.
  - rewrite Hab, Hfam. cbn [haddresses]. destruct fam.
    + reflexivity.
    + cbn [fam_size] in *. rewrite takeN_takeN. symmetry. apply decode_addrs_takeN; cbn [fam_size]; lia.
    + cbn [fam_size] in *. rewrite takeN_takeN. symmetry. apply decode_addrs_takeN; cbn [fam_size]; lia.
    + cbn [fam_size] in *. rewrite takeN_takeN. symmetry. apply decode_addrs_takeN; cbn [fam_size]; lia.
  - unfold addresses_len. fold (h_address_family {| hbytes := hb; hcommand := cmd; hprotocol := proto; haddresses := decode_addrs fam rest |}).
    rewrite Hfam. apply byte_length_fam_size.
  - unfold addresses_is_empty. cbn [haddresses]. rewrite family_of_decode, Hfam. destruct fam; reflexivity.
  - rewrite Hfam. apply byte_length_fam_size.
Qed.
