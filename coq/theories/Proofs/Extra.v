(* Further consequences: the &str entry point in C04 / C12 / C18, and the agreement of the model's
   views with the partition the Spec prescribes (used by the htlv / views2 oracles). *)
From PPP Require Import Base.Bytes Std.Utf8 Std.Text Model.V1 Model.V2 Spec.V2Wire Spec.TlvWalk Proofs.Tlv
  Proofs.BytesFacts Proofs.StdUtf8 Proofs.V2Parse Proofs.V2Views Proofs.V1Text Proofs.V1Final Proofs.V1Props.

(* on valid UTF-8 the &str entry point accepts exactly what the byte entry point accepts *)
Theorem p1s_ok_iff s hd : utf8_valid s = true -> (p1s s = Ok hd <-> p1 s = Ok hd).
Proof.
  intros Hu. destruct (is_char_boundary s (window_end s)) eqn:Hb.
  - destruct (entry_points_agree s Hu Hb) as (E & _). rewrite E.
    destruct (p1s s); cbn [map_err]; split; intros H; try discriminate; now inversion H.
  - destruct (entry_points_split s Hu Hb) as (E1 & E2 & _).
    destruct (p1 s), (p1s s); try discriminate. split; discriminate.
Qed.

Theorem p1s_trailer_independent s hd t : utf8_valid (s ++ t) = true -> utf8_valid s = true -> p1s s = Ok hd ->
  p1s (s ++ t) = Ok hd /\ p1s (text hd) = Ok hd.
Proof.
  intros Hst Hs H. apply p1s_ok_iff in H; [|exact Hs].
  destruct (p1_trailer_independent s hd t H) as (H1 & H2 & _).
  destruct (p1_ok_window s hd H) as (_ & _ & _ & _ & _ & Hu & _).
  split; apply p1s_ok_iff; assumption.
Qed.

(* the &str verdict is final, and identical, once the first line break has been seen *)
Theorem p1s_stable_cr s t i : utf8_valid s = true -> utf8_valid (s ++ t) = true ->
  first_cr s = Some i -> i + 1 < lenN s -> p1s (s ++ t) = p1s s.
Proof.
  intros Hs Hst Hi Hl.
  destruct (window_cr s i Hi Hl) as (a & b & r & Es & Ha & Hn & Hw & Hwl).
  assert (Hi' : first_cr (s ++ t) = Some i) by now apply first_cr_app_some.
  assert (Hl' : i + 1 < lenN (s ++ t)) by (rewrite lenN_app; lia).
  destruct (window_cr (s ++ t) i Hi' Hl') as (a' & b' & r' & Es' & Ha' & Hn' & Hw' & Hwl').
  unfold p1s. rewrite Hwl, Hwl'. unfold str_get_to.
  assert (Ht : takeN (i + 2) (s ++ t) = takeN (i + 2) s) by (apply takeN_app_le; lia).
  (* both cuts are at a boundary iff the common prefix is valid UTF-8 *)
  assert (B1 : is_char_boundary s (i + 2) = true <-> utf8_valid (takeN (i + 2) s) = true)
    by (symmetry; apply utf8_prefix_boundary; [exact Hs|lia]).
  assert (B2 : is_char_boundary (s ++ t) (i + 2) = true <-> utf8_valid (takeN (i + 2) (s ++ t)) = true)
    by (symmetry; apply utf8_prefix_boundary; [exact Hst|rewrite lenN_app; lia]).
  rewrite Ht in *. destruct (is_char_boundary s (i + 2)) eqn:E1, (is_char_boundary (s ++ t) (i + 2)) eqn:E2; try reflexivity.
  - destruct B1 as [B1 _]. specialize (B1 eq_refl). destruct B2 as [_ B2]. specialize (B2 B1). discriminate.
  - destruct B2 as [B2 _]. specialize (B2 eq_refl). destruct B1 as [_ B1]. specialize (B1 B2). discriminate.
Qed.

(* blame through the &str entry point *)
Theorem p1s_blame a b rest e : V1Text.no_cr a = true -> utf8_valid (a ++ CR :: b :: rest) = true ->
  utf8_valid (a ++ [CR; b]) = true -> parse_header (a ++ [CR; b]) = Err e ->
  p1s (a ++ CR :: b :: rest) = Err e.
Proof. intros Hn Hu Hw He. rewrite p1s_line by assumption. now rewrite Hw. Qed.

(* the model's views are the partition the Spec prescribes *)
Theorem views_match_spec x h : wf_bytes x = true -> p2 x = Ok h ->
  h_address_bytes h = spec_address_bytes h /\ h_tlv_bytes h = spec_tlv_section h.
Proof.
  intros Hwf H. destruct (views_partition x h Hwf H) as (Hcat & Hsz & Hlen & _).
  unfold spec_address_bytes, spec_tlv_section, spec_address_len.
  fold (h_address_family h).
  assert (Hl : lenN (h_address_bytes h) = match h_address_family h with FUnspec => lenN (hbytes h) - 16 | f => fam_size f end).
  { rewrite Hsz. destruct (h_address_family h); try reflexivity. unfold h_len in Hlen. lia. }
  change 16%nat with (N.to_nat 16). rewrite <- !dropN_skipn, <- takeN_firstn, <- Hcat, <- Hl.
  split; [symmetry; now apply takeN_app_exact|symmetry; now apply dropN_app_exact].
Qed.

(* the TLV section of an accepted header: iterating it is the walk of the section the Spec prescribes *)
Theorem header_tlvs_walk x h : wf_bytes x = true -> p2 x = Ok h ->
  exists items, Walk (spec_tlv_section h) items
                /\ collect (h_tlv_bytes h) = Some (map (item_abs (lenN (h_tlv_bytes h))) items).
Proof. intros Hwf H. destruct (views_match_spec x h Hwf H) as [_ E]. rewrite <- E. apply collect_walk. Qed.

(* ---- two arms of parse_header that no input reaches -------------------------------------------
   src/v1/mod.rs has `iterator.next().ok_or(MissingPrefix)` on the first item of a splitn and a
   `None => MissingProtocol` arm for "no second field"; Model/V1.v mirrors both.  tools/coverage.py
   reports the second as never executed and the mutation analysis cannot kill mutants of either.
   Here is why: whatever those two arms return, the function is the same. *)
Definition parse_header_with (d1 d2 : result header1 err1) (h : bytes) : result header1 err1 :=
  if isnil h then Err MissingPrefix
  else if MAX_LENGTH <? lenN h then Err HeaderTooLong
  else
    let term := terminated h in
    match splitn PARTS h with
    | [] => d1
    | prefix :: rest =>
      if negb term && negb (isnil prefix) && is_prefix prefix PROXY && is_suffix prefix h then Err Partial1
      else if negb (beq prefix PROXY) then Err InvalidPrefix
      else match rest with
      | [] => d2
      | proto :: fields =>
        if beq proto TCP4 then
          match parse_addresses1 parse_ipv4 term fields with
          | Err e => Err e
          | Ok (sa, da, sp, dp) => finish1 h term fields (Tcp4 sa da sp dp)
          end
        else if beq proto TCP6 then
          match parse_addresses1 parse_ipv6 term fields with
          | Err e => Err e
          | Ok (sa, da, sp, dp) => finish1 h term fields (Tcp6 sa da sp dp)
          end
        else if beq proto UNKNOWN then
          if is_suffix CRLF h then Ok {| text := h; addr := Unknown |}
          else if term then Err InvalidSuffix else Err MissingNewLine
        else if isnil proto && isnil fields then Err MissingProtocol
        else if negb term && negb (isnil proto) && is_suffix proto h
                && (is_prefix proto TCP4 || is_prefix proto UNKNOWN) then Err Partial1
        else Err InvalidProtocol
      end
    end.

Lemma splitn_single n l a : splitn (S (S n)) l = [a] -> a = l /\ V1Text.no_sep l = true.
Proof.
  rewrite splitn_SS. destruct (cut l) as [b [r|]] eqn:E.
  - intros H. pose proof (splitn_nonnil n r) as Hn.
    destruct (splitn (S n) r); [cbn in Hn; discriminate Hn|discriminate H].
  - intros H. injection H as ->. now apply cut_none.
Qed.

Theorem dead_arms d1 d2 h : parse_header_with d1 d2 h = parse_header h.
Proof.
  unfold parse_header_with, parse_header.
  destruct (isnil h) eqn:Hnil; [reflexivity|].
  destruct (MAX_LENGTH <? lenN h); [reflexivity|].
  destruct (splitn PARTS h) as [|prefix rest] eqn:E.
  - pose proof (splitn_nonnil 6 h) as Hn. change (S 6) with PARTS in Hn. rewrite E in Hn. discriminate.
  - destruct rest as [|proto fields]; [|reflexivity].
    apply (splitn_single 5 h prefix) in E as [-> Hsep].
    assert (Ht : terminated h = false).
    { destruct (terminated h) eqn:T; [|reflexivity].
      apply terminated_true in T as (a & b & t & -> & _).
      rewrite no_sep_app in Hsep. apply andb_true_iff in Hsep as [_ Hsep]. cbn in Hsep. discriminate. }
    rewrite Ht, Hnil. cbn [negb andb].
    assert (Hs : is_suffix h h = true) by (apply is_suffix_app; now exists []).
    rewrite Hs, andb_true_r.
    destruct (is_prefix h PROXY) eqn:Hp; [reflexivity|].
    destruct (beq h PROXY) eqn:Hb; [|reflexivity].
    apply beq_eq in Hb. subst h. cbn in Hp. discriminate.
Qed.
