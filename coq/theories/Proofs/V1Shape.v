(* Closed forms of parse_header on complete lines, and the shape of every accepted header. *)
From PPP Require Import Base.Bytes Std.Utf8 Std.Text Std.Num Std.Ip Model.V1
  Proofs.BytesFacts Proofs.V1Text Proofs.V1Final Proofs.V1Lines.

(* the crate's port check as one function *)
Definition port_value (s : bytes) : option N :=
  if (is_prefix [48] s && negb (beq s [48])) || is_prefix [43] s then None else parse_u16 s.

Lemma parse_port_value s mk :
  parse_port s mk = match port_value s with
                    | Some n => Ok n
                    | None => Err (mk ((is_prefix [48] s && negb (beq s [48])) || is_prefix [43] s))
                    end.
Proof.
  unfold parse_port, port_value. destruct ((is_prefix [48] s && negb (beq s [48])) || is_prefix [43] s); [reflexivity|].
  destruct (parse_u16 s); reflexivity.
Qed.

(* the validation part of parse_addresses, when all four fields are present *)
Definition validate (parse : bytes -> option bytes) (sa da sp dp : bytes) : result (bytes * bytes * N * N) err1 :=
  match parse sa with None => Err InvalidSourceAddress | Some a =>
  match parse da with None => Err InvalidDestinationAddress | Some b =>
  match parse_port sp InvalidSourcePort with Err e => Err e | Ok n =>
  match parse_port dp InvalidDestinationPort with Err e => Err e | Ok m => Ok (a, b, n, m)
  end end end end.

Lemma parse_addresses1_four parse term (sa da sp dp : list N) (more : list (list N)) :
  (isnil dp && negb term && isnil more) = false ->
  parse_addresses1 parse term (sa :: da :: sp :: dp :: more) = validate parse sa da sp dp.
Proof. intros H. cbv [parse_addresses1 validate nth_error skipn]. unfold bytes in *. rewrite H. reflexivity. Qed.

Lemma validate_ok parse sa da sp dp a b n m :
  validate parse sa da sp dp = Ok (a, b, n, m) <->
  parse sa = Some a /\ parse da = Some b /\ port_value sp = Some n /\ port_value dp = Some m.
Proof.
  unfold validate. rewrite !parse_port_value.
  destruct (parse sa) as [a'|]; [|split; [discriminate|intros (H & _); discriminate]].
  destruct (parse da) as [b'|]; [|split; [discriminate|intros (_ & H & _); discriminate]].
  destruct (port_value sp) as [n'|]; [|split; [discriminate|intros (_ & _ & H & _); discriminate]].
  destruct (port_value dp) as [m'|]; [|split; [discriminate|intros (_ & _ & _ & H); discriminate]].
  split.
  - intros H. injection H as <- <- <- <-. repeat split.
  - intros (H1 & H2 & H3 & H4). congruence.
Qed.

Lemma validate_complete parse sa da sp dp e : validate parse sa da sp dp = Err e -> err1_is_incomplete e = false.
Proof.
  unfold validate. rewrite !parse_port_value.
  destruct (parse sa); [|intros H; injection H as <-; reflexivity].
  destruct (parse da); [|intros H; injection H as <-; reflexivity].
  destruct (port_value sp); [|intros H; injection H as <-; reflexivity].
  destruct (port_value dp); [discriminate|intros H; injection H as <-; reflexivity].
Qed.

(* ---- six separator-free fields, CR, one more byte ---- *)
Definition six (kw pr sa da sp dp : bytes) : bytes := join_sp [kw; pr; sa; da; sp; dp].

Lemma splitn_six kw pr sa da sp dp b :
  all_nosep [kw; pr; sa; da; sp; dp] = true ->
  splitn PARTS (six kw pr sa da sp dp ++ [CR; b]) = [kw; pr; sa; da; sp; dp; [b]].
Proof.
  intros H. unfold PARTS, six. rewrite splitn_join_cr by (assumption || (cbn; lia)). reflexivity.
Qed.

Definition tcp_result (parse : bytes -> option bytes) (mk : bytes -> bytes -> N -> N -> addrs1)
  (h sa da sp dp : bytes) (b : N) : result header1 err1 :=
  match validate parse sa da sp dp with
  | Err e => Err e
  | Ok (a, c, n, m) => if b =? LF then Ok {| text := h; addr := mk a c n m |} else Err InvalidSuffix
  end.

Theorem parse_header_six kw pr sa da sp dp b :
  all_nosep [kw; pr; sa; da; sp; dp] = true ->
  let h := six kw pr sa da sp dp ++ [CR; b] in
  lenN h <= MAX_LENGTH ->
  parse_header h =
    if negb (beq kw PROXY) then Err InvalidPrefix
    else if beq pr TCP4 then tcp_result parse_ipv4 Tcp4 h sa da sp dp b
    else if beq pr TCP6 then tcp_result parse_ipv6 Tcp6 h sa da sp dp b
    else if beq pr UNKNOWN then (if b =? LF then Ok {| text := h; addr := Unknown |} else Err InvalidSuffix)
    else Err InvalidProtocol.
Proof.
  intros Hn h Hl. unfold parse_header. fold h.
  assert (Hne : isnil h = false).
  { unfold h. destruct (six kw pr sa da sp dp); reflexivity. }
  rewrite Hne. replace (MAX_LENGTH <? lenN h) with false by lia.
  assert (Ht : terminated h = true) by (unfold h, six; now apply terminated_join_cr).
  rewrite Ht. cbn [negb andb]. unfold h at 1. rewrite splitn_six by assumption.
  destruct (negb (beq kw PROXY)); [reflexivity|].
  assert (Hsuf : is_suffix CRLF h = (b =? LF)).
  { unfold h. rewrite is_suffix_last2. now rewrite N.eqb_refl. }
  assert (Hfin : forall a, finish1 h true [sa; da; sp; dp; [b]] a =
                           if b =? LF then Ok {| text := h; addr := a |} else Err InvalidSuffix).
  { intros a. unfold finish1. cbn [nth_error beq]. rewrite Hsuf, andb_true_r.
    rewrite (N.eqb_sym b LF). destruct (LF =? b) eqn:E; [|reflexivity]. reflexivity. }
  unfold tcp_result.
  destruct (beq pr TCP4).
  { rewrite parse_addresses1_four by (cbn; now rewrite andb_false_r).
    destruct (validate parse_ipv4 sa da sp dp) as [[[[a c] n] m]|e]; [apply Hfin|reflexivity]. }
  destruct (beq pr TCP6).
  { rewrite parse_addresses1_four by (cbn; now rewrite andb_false_r).
    destruct (validate parse_ipv6 sa da sp dp) as [[[[a c] n] m]|e]; [apply Hfin|reflexivity]. }
  destruct (beq pr UNKNOWN); [rewrite Hsuf; destruct (b =? LF); reflexivity|].
  cbn [isnil andb]. rewrite andb_false_r. reflexivity.
Qed.

(* ---- PROXY UNKNOWN, anything without CR, CR, one more byte ---- *)
Definition unknown_head : bytes := PROXY ++ SP :: UNKNOWN.

Lemma no_sep_PROXY : no_sep PROXY = true. Proof. reflexivity. Qed.
Lemma no_sep_UNKNOWN : no_sep UNKNOWN = true. Proof. reflexivity. Qed.

Theorem parse_header_unknown rest b :
  (rest = [] \/ exists t, rest = SP :: t) -> no_cr rest = true ->
  let h := unknown_head ++ rest ++ [CR; b] in
  lenN h <= MAX_LENGTH ->
  parse_header h = if b =? LF then Ok {| text := h; addr := Unknown |} else Err InvalidSuffix.
Proof.
  intros Hr Hn h Hl. unfold parse_header. fold h.
  assert (Hne : isnil h = false) by reflexivity. rewrite Hne.
  replace (MAX_LENGTH <? lenN h) with false by lia.
  assert (Ht : terminated h = true).
  { unfold h. rewrite app_assoc. apply terminated_window. rewrite no_cr_app, Hn. reflexivity. }
  rewrite Ht. cbn [negb andb].
  assert (Hs : exists fields, splitn PARTS h = PROXY :: UNKNOWN :: fields).
  { unfold h, unknown_head, PARTS. rewrite <- app_assoc. cbn [app].
    rewrite splitn_sep by reflexivity.
    destruct Hr as [->|[t ->]]; cbn [app].
    - rewrite splitn_sep by reflexivity. eauto.
    - rewrite splitn_sep by reflexivity. eauto. }
  destruct Hs as [fields ->]. cbn [beq PROXY UNKNOWN TCP4 TCP6 negb andb]. rewrite !N.eqb_refl. cbn [andb negb].
  change (beq [85; 78; 75; 78; 79; 87; 78] [84; 67; 80; 52]) with false.
  change (beq [85; 78; 75; 78; 79; 87; 78] [84; 67; 80; 54]) with false. cbv iota.
  assert (Hsuf : is_suffix CRLF h = (b =? LF)).
  { unfold h. rewrite (app_assoc unknown_head rest), is_suffix_last2. now rewrite N.eqb_refl. }
  rewrite Hsuf. destruct (b =? LF); reflexivity.
Qed.

(* ---- inversion: every header parse_header accepts from a proper window has one of these shapes ---- *)
Lemma splitn_cons_inv n l p q ps : splitn (S (S n)) l = p :: q :: ps ->
  exists c r, l = p ++ c :: r /\ is_sep c = true /\ no_sep p = true /\ splitn (S n) r = q :: ps.
Proof.
  rewrite splitn_SS. destruct (cut l) as [a [r|]] eqn:Ec; [|discriminate].
  intros H. injection H as -> H. apply cut_some in Ec as (c & -> & Hc & Hn). now exists c, r.
Qed.

Lemma splitn_length n : forall l, (length (splitn n l) <= n)%nat.
Proof.
  induction n as [|n IH]; intros l; [cbn; lia|]. destruct n; [cbn; lia|].
  rewrite splitn_SS. destruct (cut l) as [a [r|]]; cbn [length]; [|lia]. specialize (IH r). lia.
Qed.

Inductive shape : bytes -> addrs1 -> Prop :=
| ShapeTcp4 sa da sp dp a c n m :
    all_nosep [sa; da; sp; dp] = true ->
    parse_ipv4 sa = Some a -> parse_ipv4 da = Some c -> port_value sp = Some n -> port_value dp = Some m ->
    shape (six PROXY TCP4 sa da sp dp ++ CRLF) (Tcp4 a c n m)
| ShapeTcp6 sa da sp dp a c n m :
    all_nosep [sa; da; sp; dp] = true ->
    parse_ipv6 sa = Some a -> parse_ipv6 da = Some c -> port_value sp = Some n -> port_value dp = Some m ->
    shape (six PROXY TCP6 sa da sp dp ++ CRLF) (Tcp6 a c n m)
| ShapeUnknown rest :
    (rest = [] \/ exists t, rest = SP :: t) -> no_cr rest = true ->
    shape (unknown_head ++ rest ++ CRLF) Unknown.

Lemma app_inj_tail2 {A} (x y : list A) a b c d : x ++ [a; b] = y ++ [c; d] -> x = y /\ a = c /\ b = d.
Proof.
  intros H. change [a; b] with ([a] ++ [b]) in H. change [c; d] with ([c] ++ [d]) in H.
  rewrite !app_assoc in H. apply app_inj_tail in H as [H ->]. apply app_inj_tail in H as [-> ->]. repeat split.
Qed.

Lemma sep_not_cr c : is_sep c = true -> (c =? CR) = false -> c = SP.
Proof. unfold is_sep. intros H E. rewrite E, orb_false_r in H. now apply N.eqb_eq in H. Qed.

Lemma split_tail2 {A} (x y t : list A) p q : x ++ [p; q] = y ++ t -> 2 <= lenN t ->
  exists t', t = t' ++ [p; q] /\ x = y ++ t'.
Proof.
  intros H Hl. apply (f_equal (@rev A)) in H. rewrite !rev_app_distr in H. cbn [rev app] in H.
  destruct (rev t) as [|q' [|p' rt]] eqn:Er.
  - apply (f_equal (@rev A)) in Er. rewrite rev_involutive in Er. subst t. cbn in Hl. lia.
  - apply (f_equal (@rev A)) in Er. rewrite rev_involutive in Er. subst t. cbn in Hl. lia.
  - cbn [app] in H. injection H as -> -> H. exists (rev rt). split.
    + apply (f_equal (@rev A)) in Er. rewrite rev_involutive in Er. rewrite Er. cbn [rev]. now rewrite <- app_assoc.
    + apply (f_equal (@rev A)) in H. now rewrite rev_involutive, rev_app_distr, rev_involutive in H.
Qed.

Lemma unknown_inv a c0 c1 r1 : no_cr a = true -> is_sep c0 = true -> is_sep c1 = true ->
  a ++ CRLF = PROXY ++ c0 :: UNKNOWN ++ c1 :: r1 ->
  exists rest, a = unknown_head ++ rest /\ (rest = [] \/ exists t, rest = SP :: t) /\ no_cr rest = true.
Proof.
  intros Hn Hc0 Hc1 Eh.
  change (PROXY ++ c0 :: UNKNOWN ++ c1 :: r1) with ((PROXY ++ c0 :: UNKNOWN) ++ c1 :: r1) in Eh.
  destruct r1 as [|z r1].
  - exfalso. change CRLF with ([CR] ++ [LF]) in Eh. rewrite app_assoc in Eh.
    apply app_inj_tail in Eh as [_ E]. subst c1. discriminate.
  - apply split_tail2 in Eh as (t' & Et & Ea); [|rewrite !lenN_cons; lia].
    subst a. rewrite no_cr_app in Hn. apply andb_prop in Hn as [Hp Ht'].
    assert (c0 = SP).
    { apply sep_not_cr; [exact Hc0|]. rewrite no_cr_app in Hp. apply andb_prop in Hp as [_ Hp].
      cbn [no_cr forallb] in Hp. apply andb_prop in Hp as [Hp _]. now apply negb_true_iff in Hp. }
    subst c0. exists t'. repeat split; [|exact Ht'].
    destruct t' as [|x t'']; [now left|right]. cbn [app] in Et. injection Et as <- _.
    exists t''. f_equal. apply sep_not_cr; [exact Hc1|]. cbn [no_cr forallb] in Ht'.
    apply andb_prop in Ht' as [Hx _]. now apply negb_true_iff in Hx.
Qed.

Theorem parse_header_shape a hd :
  no_cr a = true -> parse_header (a ++ CRLF) = Ok hd -> shape (a ++ CRLF) (addr hd) /\ text hd = a ++ CRLF.
Proof.
  intros Hn H. set (h := a ++ CRLF) in *.
  destruct (parse_header_ok h hd H) as [Et _]. split; [|exact Et].
  assert (Ht : terminated h = true) by (unfold h; now apply terminated_window).
  unfold parse_header in H. rewrite Ht in H. cbn [negb andb] in H.
  destruct (isnil h); [discriminate|]. destruct (MAX_LENGTH <? lenN h) eqn:El; [discriminate|].
  destruct (splitn PARTS h) as [|prefix rest] eqn:Es; [discriminate|].
  destruct (negb (beq prefix PROXY)) eqn:Ep; [discriminate|].
  apply negb_false_iff, beq_eq in Ep. subst prefix.
  destruct rest as [|proto fields]; [discriminate|].
  (* peel the first two parts *)
  unfold PARTS in Es. apply splitn_cons_inv in Es as (c0 & r0 & E0 & Hc0 & _ & Es).
  (* common tail of the two TCP arms *)
  assert (Tcp : forall parse mk P, proto = P -> no_sep P = true ->
            match parse_addresses1 parse true fields with
            | Err e => Err e
            | Ok (sa, da, sp, dp) => finish1 h true fields (mk sa da sp dp)
            end = Ok hd ->
            exists sa da sp dp x y n m, h = six PROXY P sa da sp dp ++ CRLF /\ all_nosep [sa; da; sp; dp] = true
              /\ parse sa = Some x /\ parse da = Some y /\ port_value sp = Some n /\ port_value dp = Some m
              /\ addr hd = mk x y n m).
  { intros parse mk P -> HP Hr.
    destruct (parse_addresses1 parse true fields) as [[[[x y] n] m]|e] eqn:Ea; [|discriminate].
    unfold finish1 in Hr. destruct (nth_error fields 4) as [[|nl0 nl]|] eqn:E4; try discriminate.
    destruct (beq (nl0 :: nl) [LF] && is_suffix CRLF h) eqn:Enl; [|discriminate].
    injection Hr as <-. cbn [addr]. apply andb_prop in Enl as [Enl _]. apply beq_eq in Enl.
    (* exactly five fields *)
    pose proof (splitn_length 6 r0) as Hlen. rewrite Es in Hlen. cbn [length] in Hlen.
    destruct fields as [|sa [|da [|sp [|dp [|nl' [|? ?]]]]]]; cbn [nth_error length] in *; try discriminate; try lia.
    injection E4 as ->. rewrite Enl in *.
    apply splitn_cons_inv in Es as (c1 & r1 & E1 & Hc1 & _ & Es).
    apply splitn_cons_inv in Es as (c2 & r2 & E2 & Hc2 & Hsa & Es).
    apply splitn_cons_inv in Es as (c3 & r3 & E3 & Hc3 & Hda & Es).
    apply splitn_cons_inv in Es as (c4 & r4 & E4 & Hc4 & Hsp & Es).
    apply splitn_cons_inv in Es as (c5 & r5 & E5 & Hc5 & Hdp & Es).
    cbn in Es. injection Es as ->. subst r4 r3 r2 r1 r0.
    (* h = a ++ [CR; LF]: identify the separators *)
    assert (Eh : a ++ [CR; LF] = (PROXY ++ c0 :: P ++ c1 :: sa ++ c2 :: da ++ c3 :: sp ++ c4 :: dp) ++ [c5; LF]).
    { fold CRLF. fold h. rewrite E0. repeat (rewrite <- app_assoc; cbn [app]). reflexivity. }
    apply app_inj_tail2 in Eh as (Ea' & Ec5 & _). subst c5.
    rewrite Ea' in Hn. repeat (rewrite no_cr_app in Hn; cbn [no_cr forallb] in Hn; fold no_cr in Hn).
    repeat (apply andb_prop in Hn as [? Hn]).
    repeat match goal with Hx : negb (?c =? CR) = true |- _ => apply negb_true_iff in Hx end.
    assert (c0 = SP) by now apply sep_not_cr. assert (c1 = SP) by now apply sep_not_cr.
    assert (c2 = SP) by now apply sep_not_cr. assert (c3 = SP) by now apply sep_not_cr.
    assert (c4 = SP) by now apply sep_not_cr. subst c0 c1 c2 c3 c4.
    rewrite parse_addresses1_four in Ea by (cbn [negb isnil]; now rewrite andb_false_r). apply validate_ok in Ea as (V1 & V2 & V3 & V4).
    exists sa, da, sp, dp, x, y, n, m. repeat split; try assumption.
    - rewrite E0. unfold six. cbn [join_sp]. repeat (rewrite <- app_assoc; cbn [app]). reflexivity.
    - cbn [all_nosep forallb]. now rewrite Hsa, Hda, Hsp, Hdp. }
  destruct (beq proto TCP4) eqn:E4.
  { apply beq_eq in E4. destruct (Tcp parse_ipv4 Tcp4 TCP4 E4 eq_refl H) as (sa & da & sp & dp & x & y & n & m & -> & Hns & V1 & V2 & V3 & V4 & ->).
    now constructor. }
  destruct (beq proto TCP6) eqn:E6.
  { apply beq_eq in E6. destruct (Tcp parse_ipv6 Tcp6 TCP6 E6 eq_refl H) as (sa & da & sp & dp & x & y & n & m & -> & Hns & V1 & V2 & V3 & V4 & ->).
    now constructor. }
  destruct (beq proto UNKNOWN) eqn:EU.
  { apply beq_eq in EU. subst proto. destruct (is_suffix CRLF h); [|discriminate]. injection H as <-. cbn [addr].
    destruct fields as [|f fields].
    - (* splitn 6 r0 = [UNKNOWN]: r0 has no separator, but h ends with CR LF *)
      exfalso. rewrite splitn_SS in Es. destruct (cut r0) as [u [r1|]] eqn:Ec;
        [pose proof (splitn_nonnil 4 r1) as Hnn; destruct (splitn 5 r1); [discriminate Hnn|discriminate Es]|].
      injection Es as ->. apply cut_none in Ec as [<- Hns].
      assert (Eh : a ++ [CR; LF] = (PROXY ++ [c0] ++ [85; 78; 75; 78; 79]) ++ [87; 78]).
      { fold CRLF. fold h. rewrite E0. repeat (rewrite <- app_assoc; cbn [app]). reflexivity. }
      apply app_inj_tail2 in Eh as (_ & Hbad & _). discriminate.
    - apply splitn_cons_inv in Es as (c1 & r1 & E1 & Hc1 & _ & _). subst r0.
      destruct (unknown_inv a c0 c1 r1 Hn Hc0 Hc1 E0) as (rest & -> & Hr & Hnr).
      unfold h. rewrite <- app_assoc. now constructor. }
  destruct (isnil proto && isnil fields); [discriminate|]. cbn [negb andb] in H. discriminate.
Qed.
