(* Facts about the Std models: u16 parsing / formatting, ports, dotted-quad IPv4 parsing vs the
   split-based grammar of Spec/V1Grammar.v. *)
From PPP Require Import Base.Bytes Std.Num Std.Ip Model.V1 Spec.V1Grammar Proofs.BytesFacts.

(* ------------------------------------------------------------------------------------------ *)
(* 1: u16_digits on a prefix                                                                    *)
(* ------------------------------------------------------------------------------------------ *)
Lemma u16_digits_prefix : forall a b acc v, u16_digits (a ++ b) acc = Some v -> exists v', u16_digits a acc = Some v'.
Proof.
  induction a as [|c a IH]; intros b acc v H.
  - exists acc. reflexivity.
  - cbn [app u16_digits] in H. cbn [u16_digits].
    destruct (dec_digit c) as [d|]; [|discriminate].
    cbv zeta in *. destruct (65535 <? acc * 10 + d); [discriminate|].
    eapply IH; eassumption.
Qed.

(* ------------------------------------------------------------------------------------------ *)
(* finite sweeps                                                                                *)
(* ------------------------------------------------------------------------------------------ *)
Fixpoint all_from (P : N -> bool) (fuel : nat) (i : N) : bool :=
  match fuel with O => true | S f => P i && all_from P f (N.succ i) end.

Lemma all_from_spec P fuel : forall i, all_from P fuel i = true ->
  forall n, i <= n -> n < i + N.of_nat fuel -> P n = true.
Proof.
  induction fuel as [|f IH]; intros i H n H1 H2.
  - lia.
  - cbn [all_from] in H. apply andb_prop in H as [Hi Hr].
    destruct (N.eq_dec n i) as [->|Hne]; [assumption|].
    apply (IH (N.succ i) Hr); lia.
Qed.

Definition all_below (P : N -> bool) (k : N) : bool := all_from P (N.to_nat k) 0.

Lemma sweep (P : N -> bool) k : all_below P k = true -> forall n, n < k -> P n = true.
Proof.
  intros H n Hn. apply (all_from_spec P (N.to_nat k) 0 H); lia.
Qed.

(* ------------------------------------------------------------------------------------------ *)
(* 2: fmt_dec                                                                                   *)
(* ------------------------------------------------------------------------------------------ *)
Definition dec_chk (n : N) : bool :=
  let s := fmt_dec n in
  forallb is_digit s && (1 <=? lenN s) && (lenN s <=? 5)
  && (match parse_u16 s with Some m => m =? n | None => false end)
  && negb (is_prefix [48] s && negb (beq s [48]))
  && negb (is_prefix [43] s).

Lemma dec_chk_all : all_below dec_chk 65536 = true.
Proof. vm_cast_no_check (eq_refl true). Qed.

Lemma fmt_dec_facts : forall n, n < 65536 ->
  forallb is_digit (fmt_dec n) = true /\ 1 <= lenN (fmt_dec n) /\ lenN (fmt_dec n) <= 5
  /\ parse_u16 (fmt_dec n) = Some n
  /\ (is_prefix [48] (fmt_dec n) && negb (beq (fmt_dec n) [48])) = false
  /\ is_prefix [43] (fmt_dec n) = false.
Proof.
  intros n Hn. pose proof (sweep _ _ dec_chk_all n Hn) as C. unfold dec_chk in C. cbv zeta in C.
  repeat rewrite andb_true_iff in C. destruct C as [[[[[C1 C2] C3] C4] C5] C6].
  destruct (parse_u16 (fmt_dec n)) as [m|] eqn:E; [|discriminate].
  apply N.eqb_eq in C4. subst m.
  apply negb_true_iff in C5. apply negb_true_iff in C6.
  repeat split; try assumption; lia.
Qed.

(* ------------------------------------------------------------------------------------------ *)
(* decimal values                                                                               *)
(* ------------------------------------------------------------------------------------------ *)
Definition dval (l : bytes) (acc : N) : N := fold_left (fun a d => 10 * a + (d - 48)) l acc.

Lemma dval_nil acc : dval [] acc = acc. Proof. reflexivity. Qed.
Lemma dval_cons c l acc : dval (c :: l) acc = dval l (10 * acc + (c - 48)). Proof. reflexivity. Qed.
Lemma dec_value_dval s : dec_value s = dval s 0. Proof. reflexivity. Qed.

Lemma dval_ge l : forall acc, acc <= dval l acc.
Proof.
  induction l as [|c l IH]; intros acc.
  - rewrite dval_nil. lia.
  - rewrite dval_cons. specialize (IH (10 * acc + (c - 48))). lia.
Qed.

Lemma dec_digit_is_digit c : dec_digit c = if is_digit c then Some (c - 48) else None.
Proof. reflexivity. Qed.

Lemma u16_digits_nondigit l : forall acc, forallb is_digit l = false -> u16_digits l acc = None.
Proof.
  induction l as [|c l IH]; intros acc H.
  - discriminate.
  - cbn [forallb] in H. cbn [u16_digits]. rewrite dec_digit_is_digit.
    destruct (is_digit c); [|reflexivity]. cbn [andb] in H. cbv zeta.
    destruct (65535 <? acc * 10 + (c - 48)); [reflexivity|]. now apply IH.
Qed.

Lemma u16_digits_spec l : forall acc, acc <= 65535 -> forallb is_digit l = true ->
  u16_digits l acc = if 65535 <? dval l acc then None else Some (dval l acc).
Proof.
  induction l as [|c l IH]; intros acc Ha H.
  - cbn [u16_digits]. rewrite dval_nil. destruct (65535 <? acc) eqn:E; [lia|reflexivity].
  - cbn [forallb] in H. apply andb_prop in H as [Hc Hl].
    cbn [u16_digits]. rewrite dec_digit_is_digit, Hc. cbv zeta. rewrite dval_cons.
    replace (acc * 10 + (c - 48)) with (10 * acc + (c - 48)) by lia.
    destruct (65535 <? 10 * acc + (c - 48)) eqn:E.
    + pose proof (dval_ge l (10 * acc + (c - 48))) as G.
      destruct (65535 <? dval l (10 * acc + (c - 48))) eqn:E2; [reflexivity|lia].
    + apply IH; [lia|assumption].
Qed.

(* parse_u16 on a non-empty string *)
Lemma parse_u16_cons c r :
  parse_u16 (c :: r) = if c =? 43 then (match r with [] => None | _ :: _ => u16_digits r 0 end)
                       else u16_digits (c :: r) 0.
Proof.
  destruct (N.eqb_spec c 43) as [->|Hne]; [destruct r; reflexivity|].
  destruct c as [|p]; [reflexivity|].
  do 6 (try (destruct p as [p|p|]; try reflexivity)).
  congruence.
Qed.

Lemma beq_nil_r r : beq r [] = isnil r.
Proof. destruct r; reflexivity. Qed.

Lemma port_cond_cons c r :
  ((is_prefix [48] (c :: r) && negb (beq (c :: r) [48])) || is_prefix [43] (c :: r))
  = (((c =? 48) && negb (isnil r)) || (c =? 43)).
Proof.
  cbn [is_prefix beq]. rewrite beq_nil_r. destruct (isnil r); lia.
Qed.

Lemma dval_long c r : forallb is_digit (c :: r) = true -> c <> 48 -> 5 < lenN (c :: r) ->
  65535 < dval (c :: r) 0.
Proof.
  intros D Hc L.
  destruct r as [|c2 [|c3 [|c4 [|c5 [|c6 t]]]]];
    try (repeat rewrite lenN_cons in L; rewrite lenN_nil in L; lia).
  cbn [forallb] in D. repeat rewrite andb_true_iff in D.
  destruct D as (D1 & D2 & D3 & D4 & D5 & D6 & _).
  unfold is_digit in *. repeat rewrite dval_cons.
  match goal with |- _ < dval t ?x => pose proof (dval_ge t x) as G end.
  lia.
Qed.

(* ------------------------------------------------------------------------------------------ *)
(* 3: ports                                                                                     *)
(* ------------------------------------------------------------------------------------------ *)
Definition port_ok (s : bytes) : option N :=
  if (is_prefix [48] s && negb (beq s [48])) || is_prefix [43] s then None else parse_u16 s.

Lemma port_ok_spec : forall s, port_ok s = spec_port s.
Proof.
  intros [|c r]; [reflexivity|].
  unfold port_ok. rewrite port_cond_cons, parse_u16_cons.
  unfold spec_port, spec_dec.
  destruct (forallb is_digit (c :: r)) eqn:D; cbn [negb].
  - assert (Hc : is_digit c = true) by (cbn [forallb] in D; now apply andb_prop in D).
    assert (H43 : (c =? 43) = false) by (unfold is_digit in Hc; lia).
    rewrite H43, orb_false_r.
    destruct ((c =? 48) && negb (isnil r)) eqn:Z; [reflexivity|].
    rewrite u16_digits_spec by (assumption || lia).
    rewrite dec_value_dval.
    destruct (5 <? lenN (c :: r)) eqn:L; [|reflexivity].
    assert (Hne : c <> 48).
    { intros ->. destruct r as [|c2 r]; [rewrite lenN_cons, lenN_nil in L; lia|].
      cbn [isnil negb andb] in Z. lia. }
    pose proof (dval_long c r D Hne ltac:(lia)) as G.
    destruct (65535 <? dval (c :: r) 0) eqn:E; [reflexivity|lia].
  - destruct (((c =? 48) && negb (isnil r)) || (c =? 43)) eqn:Z; [reflexivity|].
    apply orb_false_elim in Z as [_ Z]. rewrite Z.
    now apply u16_digits_nondigit.
Qed.

Lemma parse_port_spec : forall s mk n, parse_port s mk = Ok n <-> spec_port s = Some n.
Proof.
  intros s mk n. rewrite <- port_ok_spec. unfold parse_port, port_ok.
  destruct ((is_prefix [48] s && negb (beq s [48])) || is_prefix [43] s).
  - split; discriminate.
  - destruct (parse_u16 s) as [m|]; split; intros H; try discriminate; inversion H; reflexivity.
Qed.

(* ------------------------------------------------------------------------------------------ *)
(* read_digits / read_number on  digits ++ non-digit-rest                                       *)
(* ------------------------------------------------------------------------------------------ *)
(* [rest] is empty or starts with a non-digit *)
Definition nds (rest : bytes) : bool := match rest with [] => true | c :: _ => negb (is_digit c) end.

Lemma to_digit10 c : to_digit 10 c = if is_digit c then Some (c - 48) else None.
Proof.
  unfold to_digit, is_digit.
  repeat match goal with |- context[if ?b then _ else _] => destruct b eqn:? end;
    try reflexivity; exfalso; lia.
Qed.

Lemma read_digits_spec ds rest : forallb is_digit ds = true -> nds rest = true ->
  forall acc cnt, read_digits 10 (ds ++ rest) acc cnt = (dval ds acc, cnt + lenN ds, rest).
Proof.
  intros D R. induction ds as [|c ds IH]; intros acc cnt.
  - rewrite dval_nil, lenN_nil, N.add_0_r. cbn [app].
    destruct rest as [|x rest]; [reflexivity|].
    cbn [read_digits]. rewrite to_digit10. cbn [nds] in R.
    apply negb_true_iff in R. rewrite R. reflexivity.
  - cbn [forallb] in D. apply andb_prop in D as [Dc Dr].
    cbn [app read_digits]. rewrite to_digit10, Dc, (IH Dr), dval_cons, lenN_cons.
    replace (acc * 10 + (c - 48)) with (10 * acc + (c - 48)) by lia.
    replace (cnt + 1 + lenN ds) with (cnt + (1 + lenN ds)) by lia. reflexivity.
Qed.

Definition lead0 (l : bytes) : bool := match l with 48 :: _ => true | _ => false end.

Lemma lead0_cons c r : lead0 (c :: r) = (c =? 48).
Proof.
  destruct (N.eqb_spec c 48) as [->|Hne]; [reflexivity|].
  destruct c as [|p]; [reflexivity|].
  do 6 (try (destruct p as [p|p|]; try reflexivity)).
  congruence.
Qed.

Lemma read_number_unfold radix maxd bound az l :
  read_number radix maxd bound az l =
  (let '(v, cnt, r) := read_digits radix l 0 0 in
   if (cnt =? 0) || (maxd <? cnt) then None
   else if negb az && lead0 l && (1 <? cnt) then None
   else if bound <? v then None
   else Some (v, r)).
Proof. reflexivity. Qed.

Lemma read_octet_spec ds rest : forallb is_digit ds = true -> nds rest = true ->
  read_octet (ds ++ rest) = match spec_octet ds with Some v => Some (v, rest) | None => None end.
Proof.
  intros D R. unfold read_octet. rewrite read_number_unfold, (read_digits_spec ds rest D R).
  cbv beta iota. rewrite N.add_0_l.
  destruct ds as [|c r].
  - reflexivity.
  - cbn [app]. rewrite lead0_cons. unfold spec_octet, spec_dec. rewrite D, dec_value_dval.
    cbn [negb]. destruct r as [|c2 r].
    + rewrite lenN_cons, lenN_nil. cbn [isnil negb].
      repeat match goal with |- context[if ?b then _ else _] => destruct b eqn:? end;
        try reflexivity; exfalso; lia.
    + rewrite !lenN_cons. cbn [isnil negb].
      repeat match goal with |- context[if ?b then _ else _] => destruct b eqn:? end;
        try reflexivity; exfalso; lia.
Qed.

Lemma read_octet_spec_nil ds : forallb is_digit ds = true ->
  read_octet ds = match spec_octet ds with Some v => Some (v, []) | None => None end.
Proof.
  intros D. pose proof (read_octet_spec ds [] D eq_refl) as H. rewrite app_nil_r in H. exact H.
Qed.

Lemma span_digits l : exists ds rest, l = ds ++ rest /\ forallb is_digit ds = true /\ nds rest = true.
Proof.
  induction l as [|c l (ds & rest & E & D & R)].
  - exists [], []. repeat split.
  - destruct (is_digit c) eqn:Hc.
    + exists (c :: ds), rest. subst l. cbn [forallb]. rewrite Hc. repeat split; assumption.
    + exists [], (c :: l). cbn [nds]. rewrite Hc. repeat split.
Qed.

Lemma spec_octet_facts ds v : spec_octet ds = Some v ->
  forallb is_digit ds = true /\ 1 <= lenN ds /\ lenN ds <= 3 /\ v < 256.
Proof.
  unfold spec_octet, spec_dec. destruct ds as [|c r]; [discriminate|].
  destruct (forallb is_digit (c :: r)); cbn [negb]; [|discriminate].
  destruct ((c =? 48) && negb (isnil r)); [discriminate|].
  destruct (3 <? lenN (c :: r)) eqn:L; [discriminate|].
  destruct (255 <? dec_value (c :: r)) eqn:B; [discriminate|].
  intros H. inversion H. rewrite lenN_cons in *. repeat split; lia.
Qed.

Lemma read_octet_inv l v r : read_octet l = Some (v, r) ->
  exists ds, l = ds ++ r /\ spec_octet ds = Some v.
Proof.
  destruct (span_digits l) as (ds & rest & -> & D & R).
  rewrite (read_octet_spec ds rest D R).
  destruct (spec_octet ds) as [w|] eqn:E; [|discriminate].
  intros H. inversion H. subst. exists ds. split; [reflexivity|assumption].
Qed.

Lemma read_char_inv c l r : read_char c l = Some r -> l = c :: r.
Proof.
  unfold read_char. destruct l as [|x l]; [discriminate|].
  destruct (N.eqb_spec x c) as [->|]; [|discriminate]. intros H. inversion H. reflexivity.
Qed.

(* ------------------------------------------------------------------------------------------ *)
(* dotted quads                                                                                 *)
(* ------------------------------------------------------------------------------------------ *)
Lemma nds_dot r : nds (46 :: r) = true.
Proof. reflexivity. Qed.

Lemma parse_ipv4_join a b c d va vb vc vd :
  spec_octet a = Some va -> spec_octet b = Some vb -> spec_octet c = Some vc -> spec_octet d = Some vd ->
  parse_ipv4 (a ++ 46 :: b ++ 46 :: c ++ 46 :: d) = Some [va; vb; vc; vd].
Proof.
  intros Ha Hb Hc Hd.
  destruct (spec_octet_facts _ _ Ha) as (Da & La1 & La3 & _).
  destruct (spec_octet_facts _ _ Hb) as (Db & Lb1 & Lb3 & _).
  destruct (spec_octet_facts _ _ Hc) as (Dc & Lc1 & Lc3 & _).
  destruct (spec_octet_facts _ _ Hd) as (Dd & Ld1 & Ld3 & _).
  unfold parse_ipv4.
  assert (L : (15 <? lenN (a ++ 46 :: b ++ 46 :: c ++ 46 :: d)) = false).
  { repeat (rewrite lenN_app || rewrite lenN_cons). lia. }
  rewrite L. unfold read_ipv4, read_sep.
  rewrite (read_octet_spec a _ Da (nds_dot _)), Ha. cbn [read_char]. rewrite N.eqb_refl.
  rewrite (read_octet_spec b _ Db (nds_dot _)), Hb. cbn [read_char]. rewrite N.eqb_refl.
  rewrite (read_octet_spec c _ Dc (nds_dot _)), Hc. cbn [read_char]. rewrite N.eqb_refl.
  rewrite (read_octet_spec_nil d Dd), Hd. reflexivity.
Qed.

Lemma parse_ipv4_inv s o : parse_ipv4 s = Some o ->
  exists a b c d va vb vc vd,
    s = a ++ 46 :: b ++ 46 :: c ++ 46 :: d /\ o = [va; vb; vc; vd] /\
    spec_octet a = Some va /\ spec_octet b = Some vb /\ spec_octet c = Some vc /\ spec_octet d = Some vd.
Proof.
  unfold parse_ipv4. destruct (15 <? lenN s); [discriminate|].
  destruct (read_ipv4 s) as [[o' r]|] eqn:E; [|discriminate].
  destruct r as [|x r]; [|discriminate]. intros H. inversion H. subst o'. clear H.
  unfold read_ipv4, read_sep in E.
  destruct (read_octet s) as [[va l1]|] eqn:E1; [|discriminate].
  destruct (read_char 46 l1) as [l1'|] eqn:C1; [|discriminate].
  destruct (read_octet l1') as [[vb l2]|] eqn:E2; [|discriminate].
  destruct (read_char 46 l2) as [l2'|] eqn:C2; [|discriminate].
  destruct (read_octet l2') as [[vc l3]|] eqn:E3; [|discriminate].
  destruct (read_char 46 l3) as [l3'|] eqn:C3; [|discriminate].
  destruct (read_octet l3') as [[vd l4]|] eqn:E4; [|discriminate].
  inversion E. subst o l4. clear E.
  apply read_char_inv in C1, C2, C3. subst l1 l2 l3.
  apply read_octet_inv in E1 as (a & -> & Ha).
  apply read_octet_inv in E2 as (b & -> & Hb).
  apply read_octet_inv in E3 as (c & -> & Hc).
  apply read_octet_inv in E4 as (d & -> & Hd).
  exists a, b, c, d, va, vb, vc, vd. rewrite app_nil_r. repeat split; assumption.
Qed.

(* splitting *)
Lemma is_digit_not_dot c : is_digit c = true -> (c =? 46) = false.
Proof. unfold is_digit. lia. Qed.

Lemma split_on_digits_dot ds rest : forallb is_digit ds = true ->
  split_on 46 (ds ++ 46 :: rest) = ds :: split_on 46 rest.
Proof.
  induction ds as [|c ds IH]; intros D.
  - cbn [app split_on]. rewrite N.eqb_refl. reflexivity.
  - cbn [forallb] in D. apply andb_prop in D as [Dc Dr].
    cbn [app split_on]. rewrite (is_digit_not_dot c Dc), (IH Dr). reflexivity.
Qed.

Lemma split_on_digits ds : forallb is_digit ds = true -> split_on 46 ds = [ds].
Proof.
  induction ds as [|c ds IH]; intros D.
  - reflexivity.
  - cbn [forallb] in D. apply andb_prop in D as [Dc Dr].
    cbn [split_on]. rewrite (is_digit_not_dot c Dc), (IH Dr). reflexivity.
Qed.

Lemma split_on_join sep s : join sep (split_on sep s) = s.
Proof.
  induction s as [|c s IH].
  - reflexivity.
  - cbn [split_on]. destruct (c =? sep) eqn:E.
    + apply N.eqb_eq in E. subst c.
      destruct (split_on sep s) as [|p ps] eqn:S.
      * destruct s as [|x s]; [discriminate S|]. cbn [split_on] in S.
        destruct (x =? sep); [discriminate S|]. destruct (split_on sep s); discriminate S.
      * cbn [join app] in *. rewrite IH. reflexivity.
    + destruct (split_on sep s) as [|p ps] eqn:S.
      * destruct s as [|x s]; [discriminate S|]. cbn [split_on] in S.
        destruct (x =? sep); [discriminate S|]. destruct (split_on sep s); discriminate S.
      * cbn [join] in *. destruct ps as [|q ps]; cbn [app]; rewrite <- IH; reflexivity.
Qed.

Lemma spec_ip4_join a b c d va vb vc vd :
  spec_octet a = Some va -> spec_octet b = Some vb -> spec_octet c = Some vc -> spec_octet d = Some vd ->
  spec_ip4 (a ++ 46 :: b ++ 46 :: c ++ 46 :: d) = Some [va; vb; vc; vd].
Proof.
  intros Ha Hb Hc Hd.
  destruct (spec_octet_facts _ _ Ha) as (Da & _).
  destruct (spec_octet_facts _ _ Hb) as (Db & _).
  destruct (spec_octet_facts _ _ Hc) as (Dc & _).
  destruct (spec_octet_facts _ _ Hd) as (Dd & _).
  unfold spec_ip4.
  rewrite (split_on_digits_dot a _ Da), (split_on_digits_dot b _ Db), (split_on_digits_dot c _ Dc),
    (split_on_digits d Dd).
  rewrite Ha, Hb, Hc, Hd. reflexivity.
Qed.

Lemma spec_ip4_inv s o : spec_ip4 s = Some o ->
  exists a b c d va vb vc vd,
    s = a ++ 46 :: b ++ 46 :: c ++ 46 :: d /\ o = [va; vb; vc; vd] /\
    spec_octet a = Some va /\ spec_octet b = Some vb /\ spec_octet c = Some vc /\ spec_octet d = Some vd.
Proof.
  unfold spec_ip4. intros H.
  destruct (split_on 46 s) as [|a [|b [|c [|d [|e t]]]]] eqn:S; try discriminate.
  destruct (spec_octet a) as [va|] eqn:Ha; [|discriminate].
  destruct (spec_octet b) as [vb|] eqn:Hb; [|discriminate].
  destruct (spec_octet c) as [vc|] eqn:Hc; [|discriminate].
  destruct (spec_octet d) as [vd|] eqn:Hd; [|discriminate].
  inversion H. subst o. clear H.
  exists a, b, c, d, va, vb, vc, vd.
  pose proof (split_on_join 46 s) as J. rewrite S in J. cbn [join] in J.
  repeat split; try assumption. symmetry. exact J.
Qed.

(* the formatted octets *)
Definition oct_chk (n : N) : bool :=
  match spec_octet (fmt_dec n) with Some m => m =? n | None => false end.

Lemma oct_chk_all : all_below oct_chk 256 = true.
Proof. vm_cast_no_check (eq_refl true). Qed.

Lemma spec_octet_fmt_dec n : n < 256 -> spec_octet (fmt_dec n) = Some n.
Proof.
  intros Hn. pose proof (sweep _ _ oct_chk_all n Hn) as C. unfold oct_chk in C.
  destruct (spec_octet (fmt_dec n)) as [m|]; [|discriminate].
  apply N.eqb_eq in C. now subst.
Qed.

Lemma fmt_ipv4_unfold a b c d :
  fmt_ipv4 [a; b; c; d] = fmt_dec a ++ 46 :: fmt_dec b ++ 46 :: fmt_dec c ++ 46 :: fmt_dec d.
Proof. reflexivity. Qed.

(* ------------------------------------------------------------------------------------------ *)
(* 4                                                                                            *)
(* ------------------------------------------------------------------------------------------ *)
Lemma parse_fmt_ipv4 : forall a b c d, a < 256 -> b < 256 -> c < 256 -> d < 256 ->
  parse_ipv4 (fmt_ipv4 [a; b; c; d]) = Some [a; b; c; d].
Proof.
  intros a b c d Ha Hb Hc Hd. rewrite fmt_ipv4_unfold.
  apply parse_ipv4_join; now apply spec_octet_fmt_dec.
Qed.

Lemma forallb_weaken {A} (P Q : A -> bool) l :
  (forall x, P x = true -> Q x = true) -> forallb P l = true -> forallb Q l = true.
Proof.
  intros W H. rewrite forallb_forall in *. intros x Hx. apply W. now apply H.
Qed.

Lemma fmt_ipv4_chars : forall a b c d, a < 256 -> b < 256 -> c < 256 -> d < 256 ->
  forallb (fun ch => is_digit ch || (ch =? 46)) (fmt_ipv4 [a; b; c; d]) = true /\ lenN (fmt_ipv4 [a; b; c; d]) <= 15.
Proof.
  intros a b c d Ha Hb Hc Hd. rewrite fmt_ipv4_unfold.
  destruct (spec_octet_facts _ _ (spec_octet_fmt_dec a Ha)) as (Da & _ & La & _).
  destruct (spec_octet_facts _ _ (spec_octet_fmt_dec b Hb)) as (Db & _ & Lb & _).
  destruct (spec_octet_facts _ _ (spec_octet_fmt_dec c Hc)) as (Dc & _ & Lc & _).
  destruct (spec_octet_facts _ _ (spec_octet_fmt_dec d Hd)) as (Dd & _ & Ld & _).
  assert (W : forall l, forallb is_digit l = true ->
                        forallb (fun ch => is_digit ch || (ch =? 46)) l = true).
  { intros l. apply forallb_weaken. intros x Hx. rewrite Hx. reflexivity. }
  split.
  - repeat (rewrite forallb_app || cbn [forallb]).
    rewrite (W _ Da), (W _ Db), (W _ Dc), (W _ Dd). reflexivity.
  - repeat (rewrite lenN_app || rewrite lenN_cons). lia.
Qed.

(* ------------------------------------------------------------------------------------------ *)
(* 5                                                                                            *)
(* ------------------------------------------------------------------------------------------ *)
Lemma parse_ipv4_shape : forall s o, parse_ipv4 s = Some o ->
  exists a b c d, o = [a; b; c; d] /\ a < 256 /\ b < 256 /\ c < 256 /\ d < 256.
Proof.
  intros s o H.
  destruct (parse_ipv4_inv s o H) as (a & b & c & d & va & vb & vc & vd & _ & -> & Ha & Hb & Hc & Hd).
  exists va, vb, vc, vd.
  destruct (spec_octet_facts _ _ Ha) as (_ & _ & _ & Ba).
  destruct (spec_octet_facts _ _ Hb) as (_ & _ & _ & Bb).
  destruct (spec_octet_facts _ _ Hc) as (_ & _ & _ & Bc).
  destruct (spec_octet_facts _ _ Hd) as (_ & _ & _ & Bd).
  repeat split; assumption.
Qed.

(* ------------------------------------------------------------------------------------------ *)
(* 6                                                                                            *)
(* ------------------------------------------------------------------------------------------ *)
Lemma parse_ipv4_spec : forall s, parse_ipv4 s = spec_ip4 s.
Proof.
  intros s.
  destruct (parse_ipv4 s) as [o|] eqn:P.
  - destruct (parse_ipv4_inv s o P) as (a & b & c & d & va & vb & vc & vd & -> & -> & Ha & Hb & Hc & Hd).
    symmetry. now apply spec_ip4_join.
  - destruct (spec_ip4 s) as [o|] eqn:S; [|reflexivity].
    destruct (spec_ip4_inv s o S) as (a & b & c & d & va & vb & vc & vd & -> & -> & Ha & Hb & Hc & Hd).
    rewrite (parse_ipv4_join a b c d va vb vc vd Ha Hb Hc Hd) in P. discriminate.
Qed.
