(* Base definitions shared by every model file: bytes as lists of N, lengths in N,
   slicing with N indices, big-endian helpers, the result type.  Definitions only. *)
From Coq Require Export List NArith Bool.
Export ListNotations.
Open Scope N_scope.
Open Scope bool_scope.

Arguments N.add : simpl never.
Arguments N.sub : simpl never.
Arguments N.mul : simpl never.
Arguments N.div : simpl never.
Arguments N.modulo : simpl never.
Arguments N.eqb : simpl never.
Arguments N.ltb : simpl never.
Arguments N.leb : simpl never.
Arguments N.land : simpl never.
Arguments N.lor : simpl never.

Definition byte := N.
Definition bytes := list N.

Inductive result (A E : Type) : Type := Ok (a : A) | Err (e : E).
Arguments Ok {A E}.
Arguments Err {A E}.

Definition is_ok {A E} (r : result A E) : bool := match r with Ok _ => true | Err _ => false end.
Definition map_ok {A B E} (f : A -> B) (r : result A E) : result B E :=
  match r with Ok a => Ok (f a) | Err e => Err e end.
Definition map_err {A E F} (f : E -> F) (r : result A E) : result A F :=
  match r with Ok a => Ok a | Err e => Err (f e) end.

Definition is_byte (b : N) : bool := b <? 256.
Definition wf_bytes (l : bytes) : bool := forallb is_byte l.

(* slice.len() *)
Fixpoint lenN {A} (l : list A) : N := match l with [] => 0 | _ :: r => N.succ (lenN r) end.

(* &l[..n] / &l[n..] / l[n]; total versions (the panic-aware ones are in Model/Panic.v) *)
Fixpoint takeN {A} (n : N) (l : list A) : list A :=
  match l with [] => [] | x :: r => if n =? 0 then [] else x :: takeN (N.pred n) r end.
Fixpoint dropN {A} (n : N) (l : list A) : list A :=
  match l with [] => [] | x :: r => if n =? 0 then l else dropN (N.pred n) r end.
Definition nthN (n : N) (l : bytes) : N := match dropN n l with x :: _ => x | [] => 0 end.
Definition sliceN {A} (a b : N) (l : list A) : list A := takeN (b - a) (dropN a l).

Definition isnil {A} (l : list A) : bool := match l with [] => true | _ => false end.

(* slice equality, starts_with, ends_with *)
Fixpoint beq (x y : bytes) : bool :=
  match x, y with
  | [], [] => true
  | a :: x', c :: y' => (a =? c) && beq x' y'
  | _, _ => false
  end.
Fixpoint is_prefix (p l : bytes) : bool :=
  match p, l with
  | [], _ => true
  | a :: p', c :: l' => (a =? c) && is_prefix p' l'
  | _ :: _, [] => false
  end.
Definition is_suffix (s l : bytes) : bool := is_prefix (rev s) (rev l).

(* u16::to_be_bytes / from_be_bytes *)
Definition be16 (n : N) : bytes := [n / 256; n mod 256].
Definition from_be16 (h l : N) : N := 256 * h + l.

Fixpoint repeatN {A} (x : A) (n : nat) : list A := match n with O => [] | S k => x :: repeatN x k end.
