(* The "standard type-length-value walk" of property C11, as an inductive relation and as an
   executable function (the direct oracle).  Written from the property text. *)
From PPP Require Export Base.Bytes.

(* what a walk can yield: a value, "declared value runs past the end" (type and declared length),
   "fewer than three bytes remain" *)
Inductive sitem := SOk (k : N) (v : bytes) | SOverrun (k n : N) | SShort.

Inductive Walk : bytes -> list sitem -> Prop :=
| WalkEnd : Walk [] []
| WalkShort s : s <> [] -> lenN s < 3 -> Walk s [SShort]
| WalkOverrun k h l r : lenN r < 256 * h + l -> Walk (k :: h :: l :: r) [SOverrun k (256 * h + l)]
| WalkItem k h l v r items :
    lenN v = 256 * h + l -> Walk r items -> Walk (k :: h :: l :: v ++ r) (SOk k v :: items).

(* encoding of one yielded value *)
Definition enc_sitem (i : sitem) : bytes :=
  match i with SOk k v => k :: lenN v / 256 :: lenN v mod 256 :: v | _ => [] end.
Definition is_sok (i : sitem) : bool := match i with SOk _ _ => true | _ => false end.

(* executable walk; fuel = an upper bound on the number of items *)
Fixpoint walk_fuel (fuel : nat) (s : bytes) : list sitem :=
  match fuel with
  | O => []
  | S f =>
    match s with
    | [] => []
    | k :: h :: l :: r =>
      let n := 256 * h + l in
      if lenN r <? n then [SOverrun k n]
      else SOk k (firstn (N.to_nat n) r) :: walk_fuel f (skipn (N.to_nat n) r)
    | _ => [SShort]
    end
  end.
Definition walk (s : bytes) : list sitem := walk_fuel (S (length s)) s.
