(* The grammar of a well-formed PROXY v1 line, written from the property text (C01) and the HAProxy
   PROXY-protocol document -- not from the Rust code and not from the Std parser models.
   The field recognisers are split-based executable functions (a different algorithm from the
   recursive-descent parser of the standard library); they serve as the direct oracle. *)
From PPP Require Export Base.Bytes Model.V1.

(* ---- generic splitting on one byte ---- *)
Fixpoint split_on (sep : N) (l : bytes) : list bytes :=
  match l with
  | [] => [[]]
  | c :: r => if c =? sep then [] :: split_on sep r
              else match split_on sep r with p :: ps => (c :: p) :: ps | [] => [[c]] end
  end.

Definition is_digit (c : N) : bool := (48 <=? c) && (c <=? 57).
Definition is_hex (c : N) : bool := is_digit c || ((97 <=? c) && (c <=? 102)) || ((65 <=? c) && (c <=? 70)).
Definition hex_val (c : N) : N := if is_digit c then c - 48 else if 97 <=? c then c - 87 else c - 55.
Definition dec_value (s : bytes) : N := fold_left (fun a d => 10 * a + (d - 48)) s 0.
Definition hex_value (s : bytes) : N := fold_left (fun a d => 16 * a + hex_val d) s 0.

(* plain decimal, no sign, no leading zero (except "0" itself), at most `maxlen` digits, value <= bound *)
Definition spec_dec (maxlen bound : N) (s : bytes) : option N :=
  match s with
  | [] => None
  | c :: r =>
    if negb (forallb is_digit s) then None
    else if (c =? 48) && negb (isnil r) then None
    else if maxlen <? lenN s then None
    else if bound <? dec_value s then None
    else Some (dec_value s)
  end.

(* ports: plain decimal 0-65535 *)
Definition spec_port : bytes -> option N := spec_dec 5 65535.
(* dotted-quad IPv4 without leading zeros *)
Definition spec_octet : bytes -> option N := spec_dec 3 255.
Definition spec_ip4 (s : bytes) : option bytes :=
  match split_on 46 s with
  | [a; b; c; d] =>
    match spec_octet a, spec_octet b, spec_octet c, spec_octet d with
    | Some a, Some b, Some c, Some d => Some [a; b; c; d]
    | _, _, _, _ => None
    end
  | _ => None
  end.

(* RFC 4291 section 2.2: groups of 1-4 hex digits (either case) *)
Definition spec_h16 (s : bytes) : option N :=
  if isnil s || (4 <? lenN s) || negb (forallb is_hex s) then None else Some (hex_value s).

Fixpoint all_some {A} (l : list (option A)) : option (list A) :=
  match l with
  | [] => Some []
  | Some x :: r => match all_some r with Some xs => Some (x :: xs) | None => None end
  | None :: _ => None
  end.

(* a ':'-separated run of groups; with allow4 the last element may be a dotted quad (two groups) *)
Definition spec_groups (allow4 : bool) (parts : list bytes) : option (list N) :=
  match rev parts with
  | [] => Some []
  | last :: init_rev =>
    let init := rev init_rev in
    match all_some (map spec_h16 init) with
    | None => None
    | Some gs =>
      match spec_h16 last with
      | Some g => Some (gs ++ [g])
      | None =>
        if allow4 then
          match spec_ip4 last with
          | Some [a; b; c; d] => Some (gs ++ [256 * a + b; 256 * c + d])
          | _ => None
          end
        else None
      end
    end
  end.

(* position of the first "::" *)
Fixpoint find_dcolon (l : bytes) : option (bytes * bytes) :=
  match l with
  | 58 :: 58 :: r => Some ([], r)
  | c :: r => match find_dcolon r with Some (a, b) => Some (c :: a, b) | None => None end
  | [] => None
  end.

Definition parts_of (s : bytes) : list bytes := if isnil s then [] else split_on 58 s.

(* the eight groups an IPv6 text denotes:
   (1) x:x:x:x:x:x:x:x, (2) one "::" standing for one or more zero groups, (3) either form with the
   last 32 bits written as a dotted quad; the dotted quad never comes before "::" *)
Definition spec_ip6_groups (s : bytes) : option (list N) :=
  match find_dcolon s with
  | None =>
    match spec_groups true (split_on 58 s) with
    | Some gs => if Nat.eqb (length gs) 8 then Some gs else None
    | None => None
    end
  | Some (lft, rgt) =>
    match spec_groups false (parts_of lft), spec_groups true (parts_of rgt) with
    | Some hs, Some ts =>
      if Nat.leb (length hs + length ts) 7
      then Some (hs ++ repeatN 0 (8 - length hs - length ts) ++ ts)
      else None
    | _, _ => None
    end
  end.
Definition spec_ip6 (s : bytes) : option bytes := option_map groups_to_octets (spec_ip6_groups s).

(* ---- the line ---- *)
Definition no_cr (l : bytes) : bool := forallb (fun c => negb (c =? CR)) l.

(* the four fields of a TCP4 / TCP6 line: every field separated by exactly one space *)
Definition spec_fields (ip : bytes -> option bytes) (mk : bytes -> bytes -> N -> N -> addrs1) (rest : bytes) : option addrs1 :=
  match split_on SP rest with
  | [sa; da; sp; dp] =>
    match ip sa, ip da, spec_port sp, spec_port dp with
    | Some sa, Some da, Some sp, Some dp => Some (mk sa da sp dp)
    | _, _, _, _ => None
    end
  | _ => None
  end.

(* [line] (without its CRLF, containing no CR) is a well-formed v1 header line denoting [a] *)
Definition spec_line (body : bytes) : option addrs1 :=
  if is_prefix (PROXY ++ [SP] ++ TCP4 ++ [SP]) body then spec_fields spec_ip4 Tcp4 (dropN 11 body)
  else if is_prefix (PROXY ++ [SP] ++ TCP6 ++ [SP]) body then spec_fields spec_ip6 Tcp6 (dropN 11 body)
  else if beq body (PROXY ++ [SP] ++ UNKNOWN) then Some Unknown
  else if is_prefix (PROXY ++ [SP] ++ UNKNOWN ++ [SP]) body then Some Unknown
  else None.

(* the input starts with a line of at most 107 bytes, ended by the first CR which is immediately
   followed by LF; the line is valid UTF-8 (for a TCP4 / TCP6 line this is implied: every admissible
   field character is ASCII; for UNKNOWN it constrains the free text); the header text is that line
   including its CRLF *)
Definition spec_v1 (x : bytes) : option header1 :=
  match first_cr x with
  | None => None
  | Some i =>
    let body := takeN i x in
    if negb (nthN (i + 1) x =? LF) || (lenN x <? i + 2) then None
    else if MAX_LENGTH <? i + 2 then None
    else if negb (utf8_valid (body ++ CRLF)) then None
    else match spec_line body with
         | Some a => Some {| text := body ++ CRLF; addr := a |}
         | None => None
         end
  end.
