(* Declarative description of a well-formed PROXY v2 header, written from the protocol document and
   the text of property C02 -- not from the Rust code.  [v2_spec] is the executable form used as the
   direct oracle; Proofs/V2Spec.v shows it decides [V2Wf]. *)
From PPP Require Export Base.Bytes Model.V2.

Definition cmd_of_nibble (c : N) : option command :=
  match c with 0 => Some Local | 1 => Some Proxy | _ => None end.
Definition fam_of_nibble (a : N) : option family :=
  match a with 0 => Some FUnspec | 1 => Some FIPv4 | 2 => Some FIPv6 | 3 => Some FUnix | _ => None end.
Definition proto_of_nibble (p : N) : option protocol :=
  match p with 0 => Some PUnspec | 1 => Some PStream | 2 => Some PDatagram | _ => None end.
Definition fam_size (f : family) : N :=
  match f with FUnspec => 0 | FIPv4 => 12 | FIPv6 => 36 | FUnix => 216 end.

(* big-endian 16-bit number at the head of a list *)
Definition be2 (l : bytes) : N := match l with h :: l :: _ => 256 * h + l | _ => 0 end.

(* network byte order, source before destination, then the two ports; two 108-byte paths *)
Definition decode_addrs (f : family) (b : bytes) : addresses :=
  match f with
  | FUnspec => AUnspec
  | FIPv4 => AIPv4 (firstn 4 b) (firstn 4 (skipn 4 b)) (be2 (skipn 8 b)) (be2 (skipn 10 b))
  | FIPv6 => AIPv6 (firstn 16 b) (firstn 16 (skipn 16 b)) (be2 (skipn 32 b)) (be2 (skipn 34 b))
  | FUnix => AUnix (firstn 108 b) (firstn 108 (skipn 108 b))
  end.

(* [x] starts with a well-formed v2 header whose decoded value is [h] *)
Definition V2Wf (x : bytes) (h : header2) : Prop :=
  exists vc fp n rest cmd fam proto,
    x = SIG ++ vc :: fp :: n / 256 :: n mod 256 :: rest
    /\ n < 65536
    /\ vc / 16 = 2
    /\ cmd_of_nibble (vc mod 16) = Some cmd
    /\ fam_of_nibble (fp / 16) = Some fam
    /\ proto_of_nibble (fp mod 16) = Some proto
    /\ fam_size fam <= n
    /\ n <= lenN rest
    /\ h = {| hbytes := SIG ++ vc :: fp :: n / 256 :: n mod 256 :: firstn (N.to_nat n) rest;
              hcommand := cmd; hprotocol := proto; haddresses := decode_addrs fam rest |}.

(* executable oracle *)
Definition v2_spec (x : bytes) : option header2 :=
  if negb (is_prefix SIG x) then None else
  match skipn 12 x with
  | vc :: fp :: hi :: lo :: rest =>
    let n := 256 * hi + lo in
    if negb (vc / 16 =? 2) then None else
    match cmd_of_nibble (vc mod 16), fam_of_nibble (fp / 16), proto_of_nibble (fp mod 16) with
    | Some cmd, Some fam, Some proto =>
      if (fam_size fam <=? n) && (n <=? lenN rest) then
        Some {| hbytes := SIG ++ vc :: fp :: hi :: lo :: firstn (N.to_nat n) rest;
                hcommand := cmd; hprotocol := proto; haddresses := decode_addrs fam rest |}
      else None
    | _, _, _ => None
    end
  | _ => None
  end.

(* a proper prefix of a well-formed header, or a well-formed header: "still a possible v2 header" (C06) *)
Definition v2_possible (x : bytes) : bool :=
  if lenN x <? 12 then is_prefix x SIG
  else if negb (is_prefix SIG x) then false
  else match skipn 12 x with
       | vc :: fp :: hi :: lo :: rest =>
         (vc / 16 =? 2)
         && match cmd_of_nibble (vc mod 16), fam_of_nibble (fp / 16), proto_of_nibble (fp mod 16) with
            | Some _, Some fam, Some _ => fam_size fam <=? 256 * hi + lo
            | _, _, _ => false
            end
       | _ => true   (* fewer than 16 bytes: the control bytes that are present are not examined *)
       end.

(* the partition of the payload stated by C14: the address block has the size of the family (the
   whole payload for the unspecified family); the TLV section is what follows it *)
Definition spec_address_len (h : header2) : N :=
  match address_family (haddresses h) with
  | FUnspec => lenN (hbytes h) - 16
  | f => fam_size f
  end.
Definition spec_address_bytes (h : header2) : bytes :=
  firstn (N.to_nat (spec_address_len h)) (skipn 16 (hbytes h)).
Definition spec_tlv_section (h : header2) : bytes :=
  skipn (N.to_nat (spec_address_len h)) (skipn 16 (hbytes h)).
