(* Reference encoder for the v2 wire format: what each encodable value must append (C20), what a
   builder history must produce (C09, C10) and the wire layout of a header (C07).  Written from the
   protocol document and the property texts. *)
From Coq Require Import ZArith.
From PPP Require Export Base.Bytes Model.V2 Model.Builder.

(* big-endian, natural width: byte i (from the left) of a w-byte integer n is (n / 256^(w-1-i)) mod 256 *)
Definition be_spec (width : nat) (n : N) : bytes :=
  map (fun i => (n / 256 ^ N.of_nat (width - 1 - i)) mod 256) (seq 0 width).
(* two's complement of a (possibly negative) value at that width *)
Definition twos (width : nat) (v : Z) : N := Z.to_N (v mod 2 ^ (8 * Z.of_nat width))%Z.

(* registered TLV type codes (the PP2_TYPE constants), from the protocol document *)
Definition spec_type_code (t : tlv_type) : N :=
  match t with
  | ALPN => 1 | Authority => 2 | CRC32C => 3 | NoOp => 4 | UniqueId => 5
  | SSL => 32 | SSLVersion => 33 | SSLCommonName => 34 | SSLCipher => 35
  | SSLSignatureAlgorithm => 36 | SSLKeyAlgorithm => 37 | NetworkNamespace => 48
  end.

(* address block: network byte order, source before destination, then the ports *)
Definition enc_addrs (a : addresses) : bytes :=
  match a with
  | AUnspec => []
  | AIPv4 sa da sp dp => sa ++ da ++ [sp / 256; sp mod 256] ++ [dp / 256; dp mod 256]
  | AIPv6 sa da sp dp => sa ++ da ++ [sp / 256; sp mod 256] ++ [dp / 256; dp mod 256]
  | AUnix s d => s ++ d
  end.

Definition enc_tlv (k : N) (v : bytes) : bytes := k :: lenN v / 256 :: lenN v mod 256 :: v.

Definition enc_payload (p : payload) : bytes :=
  match p with
  | PInt width v => be_spec width (twos width v)
  | PBytes b => b
  | PAddrs a => enc_addrs a
  | PTlv k v => enc_tlv k v
  | PPair k v => enc_tlv k v
  | PSection b _ => b
  | PType t => [spec_type_code t]
  end.

(* a value too large for its 16-bit length *)
Definition oversize (p : payload) : bool :=
  match p with
  | PBytes b => 65535 <? lenN b
  | PTlv _ v | PPair _ v => 65535 <? lenN v
  | _ => false
  end.

(* values the Rust types can hold *)
Definition wf_addresses (a : addresses) : bool :=
  match a with
  | AUnspec => true
  | AIPv4 sa da sp dp => (lenN sa =? 4) && (lenN da =? 4) && (sp <? 65536) && (dp <? 65536)
  | AIPv6 sa da sp dp => (lenN sa =? 16) && (lenN da =? 16) && (sp <? 65536) && (dp <? 65536)
  | AUnix s d => (lenN s =? 108) && (lenN d =? 108)
  end.
Definition wf_payload (p : payload) : bool :=
  match p with PAddrs a => wf_addresses a | _ => true end.

(* ---- builder histories ---- *)
Definition ctor_vc (c : ctor) : N := match c with CNew vc _ => vc | CWith vc _ _ => vc end.
Definition fam_idx (a : addresses) : N :=
  match a with AUnspec => 0 | AIPv4 _ _ _ _ => 1 | AIPv6 _ _ _ _ => 2 | AUnix _ _ => 3 end.
Definition tr_code (p : protocol) : N := match p with PUnspec => 0 | PStream => 1 | PDatagram => 2 end.
Definition cmd_code (c : command) : N := match c with Local => 0 | Proxy => 1 end.
(* the second control byte: as given, or the family nibble of the address value with the transport code *)
Definition ctor_afp (c : ctor) : N :=
  match c with CNew _ afp => afp | CWith _ p a => 16 * fam_idx a + tr_code p end.
Definition ctor_addrs (c : ctor) : addresses := match c with CNew _ _ => AUnspec | CWith _ _ a => a end.
Definition wf_ctor (c : ctor) : bool := wf_addresses (ctor_addrs c).

(* payloads in call order; reserve_capacity and set_length contribute nothing *)
Fixpoint payloads (ops : list bop) : list payload :=
  match ops with
  | [] => []
  | WritePayload p :: r => p :: payloads r
  | WritePayloads ps :: r => ps ++ payloads r
  | WriteTlv k v :: r => PTlv k v :: payloads r
  | _ :: r => payloads r
  end.

(* the explicit length in force at build: the most recent set_length, if it supplied a value *)
Fixpoint in_force_from (cur : option N) (ops : list bop) : option N :=
  match ops with
  | [] => cur
  | SetLength l :: r => in_force_from l r
  | _ :: r => in_force_from cur r
  end.
Definition in_force (ops : list bop) : option N := in_force_from None ops.

(* everything after the 16-byte fixed part *)
Definition body (c : ctor) (ops : list bop) : bytes :=
  enc_addrs (ctor_addrs c) ++ concat (map enc_payload (payloads ops)).

Definition length_field (c : ctor) (ops : list bop) : N :=
  match in_force ops with Some l => l | None => lenN (body c ops) end.

Definition expected_output (c : ctor) (ops : list bop) : bytes :=
  SIG ++ [ctor_vc c; ctor_afp c] ++ [length_field c ops / 256; length_field c ops mod 256] ++ body c ops.

(* ---- C07: the wire encoding of (command, transport, addresses, TLVs) ---- *)
Definition wire (cmd : command) (tr : protocol) (a : addresses) (tlvs : list (N * bytes)) : bytes :=
  let payload := enc_addrs a ++ concat (map (fun kv => enc_tlv (fst kv) (snd kv)) tlvs) in
  SIG ++ [32 + cmd_code cmd; 16 * fam_idx a + tr_code tr] ++ [lenN payload / 256; lenN payload mod 256] ++ payload.
