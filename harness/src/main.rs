//! Correspondence harness: runs the real `ppp` crate (path dependency on /repo) on a case file and
//! prints one canonical observation line per case.  The OCaml model driver prints the model's line
//! for the same case in the same syntax (see /verif/DESIGN.md section 5).
//!
//! usage: harness <case-file>     (one case per line: `<mode> <arg> <arg> ...`)

use ppp::v2::WriteToHeader;
use ppp::{v1, v2, HeaderResult, PartialResult};
use std::fmt::Write as _;
use std::io::{BufRead, BufWriter, Write};
use std::net::{Ipv4Addr, Ipv6Addr, SocketAddr, SocketAddrV4, SocketAddrV6};
use std::panic::{catch_unwind, AssertUnwindSafe};
use std::str::FromStr;

// ---------------------------------------------------------------------------------------------
// case-file syntax
// ---------------------------------------------------------------------------------------------

fn hexval(c: u8) -> u8 {
    match c {
        b'0'..=b'9' => c - b'0',
        b'a'..=b'f' => c - b'a' + 10,
        b'A'..=b'F' => c - b'A' + 10,
        _ => panic!("bad hex digit"),
    }
}

/// bytes expression: `+`-joined pieces; a piece is `-` (empty), hex digits, or `fill:<n>:<hh>`.
fn bytes_expr(s: &str) -> Vec<u8> {
    let mut out = Vec::new();
    for piece in s.split('+') {
        if piece == "-" || piece.is_empty() {
            continue;
        }
        if let Some(rest) = piece.strip_prefix("fill:") {
            let mut it = rest.split(':');
            let n: usize = it.next().unwrap().parse().unwrap();
            let b = u8::from_str_radix(it.next().unwrap(), 16).unwrap();
            out.extend(std::iter::repeat(b).take(n));
        } else {
            let p = piece.as_bytes();
            assert!(p.len() % 2 == 0, "odd hex");
            for i in (0..p.len()).step_by(2) {
                out.push(hexval(p[i]) * 16 + hexval(p[i + 1]));
            }
        }
    }
    out
}

fn fnv64(b: &[u8]) -> u64 {
    let mut h: u64 = 0xcbf29ce484222325;
    for &x in b {
        h ^= x as u64;
        h = h.wrapping_mul(0x100000001b3);
    }
    h
}

/// canonical byte-string printer: `-` when empty, hex up to 600 bytes, `#len:first 32 bytes:fnv64` above.
fn hexs(b: &[u8]) -> String {
    if b.is_empty() {
        return "-".to_string();
    }
    if b.len() > 600 {
        let mut head = String::with_capacity(64);
        for x in &b[..32] {
            write!(head, "{:02x}", x).unwrap();
        }
        return format!("#{}:{}:{:016x}", b.len(), head, fnv64(b));
    }
    let mut s = String::with_capacity(b.len() * 2);
    for x in b {
        write!(s, "{:02x}", x).unwrap();
    }
    s
}

fn flags<T: PartialResult>(r: &T) -> String {
    format!(
        " i{}c{}",
        r.is_incomplete() as u8,
        r.is_complete() as u8
    )
}

// ---------------------------------------------------------------------------------------------
// v1 printers
// ---------------------------------------------------------------------------------------------

fn v1_addr(a: &v1::Addresses) -> String {
    match a {
        v1::Addresses::Unknown => "U".to_string(),
        v1::Addresses::Tcp4(a) => format!(
            "4/{}/{}/{}/{}",
            hexs(&a.source_address.octets()),
            hexs(&a.destination_address.octets()),
            a.source_port,
            a.destination_port
        ),
        v1::Addresses::Tcp6(a) => format!(
            "6/{}/{}/{}/{}",
            hexs(&a.source_address.octets()),
            hexs(&a.destination_address.octets()),
            a.source_port,
            a.destination_port
        ),
        #[allow(unreachable_patterns)]
        other => format!("Other({:?})", other),
    }
}

fn v1_err(e: &v1::ParseError) -> String {
    use v1::ParseError::*;
    match e {
        InvalidPrefix => "InvalidPrefix".into(),
        Partial => "Partial".into(),
        MissingPrefix => "MissingPrefix".into(),
        MissingNewLine => "MissingNewLine".into(),
        MissingProtocol => "MissingProtocol".into(),
        MissingSourceAddress => "MissingSourceAddress".into(),
        MissingDestinationAddress => "MissingDestinationAddress".into(),
        MissingSourcePort => "MissingSourcePort".into(),
        MissingDestinationPort => "MissingDestinationPort".into(),
        HeaderTooLong => "HeaderTooLong".into(),
        InvalidProtocol => "InvalidProtocol".into(),
        InvalidSuffix => "InvalidSuffix".into(),
        InvalidSourceAddress(_) => "InvalidSourceAddress".into(),
        InvalidDestinationAddress(_) => "InvalidDestinationAddress".into(),
        InvalidSourcePort(None) => "InvalidSourcePort(crate)".into(),
        InvalidSourcePort(Some(_)) => "InvalidSourcePort(std)".into(),
        InvalidDestinationPort(None) => "InvalidDestinationPort(crate)".into(),
        InvalidDestinationPort(Some(_)) => "InvalidDestinationPort(std)".into(),
        // a variant this harness does not know (the enum grew): still an observation, printed through Debug
        #[allow(unreachable_patterns)]
        other => format!("Other({:?})", other),
    }
}

fn v1_berr(e: &v1::BinaryParseError) -> String {
    match e {
        v1::BinaryParseError::Parse(e) => v1_err(e),
        v1::BinaryParseError::InvalidUtf8(_) => "InvalidUtf8".into(),
        #[allow(unreachable_patterns)]
        other => format!("Other({:?})", other),
    }
}

fn v1_hdr(h: &v1::Header) -> String {
    format!("OK {} {}", hexs(h.header.as_bytes()), v1_addr(&h.addresses))
}

fn show_v1b(r: &Result<v1::Header, v1::BinaryParseError>) -> String {
    let body = match r {
        Ok(h) => v1_hdr(h),
        Err(e) => format!("ERR {}", v1_berr(e)),
    };
    body + &flags(r)
}

fn show_v1s(r: &Result<v1::Header, v1::ParseError>) -> String {
    let body = match r {
        Ok(h) => v1_hdr(h),
        Err(e) => format!("ERR {}", v1_err(e)),
    };
    body + &flags(r)
}

fn show_v1a(r: &Result<v1::Addresses, v1::ParseError>) -> String {
    let body = match r {
        Ok(a) => format!("OK {}", v1_addr(a)),
        Err(e) => format!("ERR {}", v1_err(e)),
    };
    body + &flags(r)
}

// ---------------------------------------------------------------------------------------------
// v2 printers
// ---------------------------------------------------------------------------------------------

fn v2_addr(a: &v2::Addresses) -> String {
    match a {
        v2::Addresses::Unspecified => "N".to_string(),
        v2::Addresses::IPv4(a) => format!(
            "4/{}/{}/{}/{}",
            hexs(&a.source_address.octets()),
            hexs(&a.destination_address.octets()),
            a.source_port,
            a.destination_port
        ),
        v2::Addresses::IPv6(a) => format!(
            "6/{}/{}/{}/{}",
            hexs(&a.source_address.octets()),
            hexs(&a.destination_address.octets()),
            a.source_port,
            a.destination_port
        ),
        v2::Addresses::Unix(a) => format!("X/{}/{}", hexs(&a.source), hexs(&a.destination)),
        #[allow(unreachable_patterns)]
        other => format!("Other({:?})", other),
    }
}

fn v2_err(e: &v2::ParseError) -> String {
    use v2::ParseError::*;
    match e {
        Incomplete(n) => format!("Incomplete({})", n),
        Prefix => "Prefix".into(),
        Version(v) => format!("Version({})", v),
        Command(c) => format!("Command({})", c),
        AddressFamily(a) => format!("AddressFamily({})", a),
        Protocol(p) => format!("Protocol({})", p),
        Partial(h, n) => format!("Partial({},{})", h, n),
        InvalidAddresses(l, n) => format!("InvalidAddresses({},{})", l, n),
        InvalidTLV(k, n) => format!("InvalidTLV({},{})", k, n),
        Leftovers(n) => format!("Leftovers({})", n),
        #[allow(unreachable_patterns)]
        other => format!("Other({:?})", other),
    }
}

fn cmd_code(c: v2::Command) -> u8 {
    match c {
        v2::Command::Local => 0,
        v2::Command::Proxy => 1,
        #[allow(unreachable_patterns)]
        _ => 254,
    }
}
fn proto_code(p: v2::Protocol) -> u8 {
    match p {
        v2::Protocol::Unspecified => 0,
        v2::Protocol::Stream => 1,
        v2::Protocol::Datagram => 2,
        #[allow(unreachable_patterns)]
        _ => 254,
    }
}
fn fam_code(f: v2::AddressFamily) -> u8 {
    match f {
        v2::AddressFamily::Unspecified => 0,
        v2::AddressFamily::IPv4 => 1,
        v2::AddressFamily::IPv6 => 2,
        v2::AddressFamily::Unix => 3,
        #[allow(unreachable_patterns)]
        _ => 254,
    }
}

fn v2_hdr(h: &v2::Header) -> String {
    let v = match h.version {
        v2::Version::Two => 2,
        #[allow(unreachable_patterns)]
        _ => 254,
    };
    format!(
        "OK {} v{} c{} p{} {}",
        hexs(h.header.as_ref()),
        v,
        cmd_code(h.command),
        proto_code(h.protocol),
        v2_addr(&h.addresses)
    )
}

fn show_v2(r: &Result<v2::Header, v2::ParseError>) -> String {
    let body = match r {
        Ok(h) => v2_hdr(h),
        Err(e) => format!("ERR {}", v2_err(e)),
    };
    body + &flags(r)
}

fn show_auto(r: &HeaderResult) -> String {
    let body = match r {
        HeaderResult::V1(r) => format!("V1 {}", show_v1b(r)),
        HeaderResult::V2(r) => format!("V2 {}", show_v2(r)),
    };
    body + &flags(r)
}

/// iterate a TLV section: items, number of steps, behaviour after the end
fn show_tlvs(mut it: v2::TypeLengthValues) -> String {
    let len = it.len();
    let empty = it.is_empty();
    let mut items = Vec::new();
    let mut steps = 0usize;
    let limit = it.as_bytes().len() + 10;
    let mut after_err = 0;
    let mut seen_err = false;
    while let Some(item) = it.next() {
        steps += 1;
        if seen_err {
            after_err += 1;
        }
        match item {
            Ok(t) => items.push(format!("T{}:{}", t.kind, hexs(t.value.as_ref()))),
            Err(e) => {
                seen_err = true;
                items.push(format!("E:{}", v2_err(&e)))
            }
        }
        if steps > limit {
            items.push("RUNAWAY".into());
            break;
        }
    }
    let fused = it.next().is_none() && it.next().is_none();
    format!(
        "n={} fused={} aftererr={} len={} empty={} [{}]",
        steps,
        fused as u8,
        after_err,
        len,
        empty as u8,
        items.join(",")
    )
}

// ---------------------------------------------------------------------------------------------
// payload / builder syntax
// ---------------------------------------------------------------------------------------------

const TYPES: [v2::Type; 12] = [
    v2::Type::ALPN,
    v2::Type::Authority,
    v2::Type::CRC32C,
    v2::Type::NoOp,
    v2::Type::UniqueId,
    v2::Type::SSL,
    v2::Type::SSLVersion,
    v2::Type::SSLCommonName,
    v2::Type::SSLCipher,
    v2::Type::SSLSignatureAlgorithm,
    v2::Type::SSLKeyAlgorithm,
    v2::Type::NetworkNamespace,
];

fn arr<const N: usize>(v: &[u8]) -> [u8; N] {
    let mut a = [0u8; N];
    a.copy_from_slice(v);
    a
}

/// addr2: `N` | `4,<sa>,<da>,<sp>,<dp>` | `6,...` | `X,<src>,<dst>` consumed from an iterator of comma fields.
/// Values are built through the crate's own constructors (IPv4::new, IPv6::new, Unix::new, From).
fn addr2<'a>(it: &mut impl Iterator<Item = &'a str>) -> v2::Addresses {
    match it.next().unwrap() {
        "N" => v2::Addresses::Unspecified,
        "4" => {
            let sa: [u8; 4] = arr(&bytes_expr(it.next().unwrap()));
            let da: [u8; 4] = arr(&bytes_expr(it.next().unwrap()));
            let sp: u16 = it.next().unwrap().parse().unwrap();
            let dp: u16 = it.next().unwrap().parse().unwrap();
            v2::IPv4::new(sa, da, sp, dp).into()
        }
        "6" => {
            let sa: [u8; 16] = arr(&bytes_expr(it.next().unwrap()));
            let da: [u8; 16] = arr(&bytes_expr(it.next().unwrap()));
            let sp: u16 = it.next().unwrap().parse().unwrap();
            let dp: u16 = it.next().unwrap().parse().unwrap();
            v2::IPv6::new(sa, da, sp, dp).into()
        }
        "X" => {
            let s: [u8; 108] = arr(&bytes_expr(it.next().unwrap()));
            let d: [u8; 108] = arr(&bytes_expr(it.next().unwrap()));
            v2::Unix::new(s, d).into()
        }
        k => panic!("bad addr2 kind {}", k),
    }
}

/// One encodable value; `write_to` dispatches to the crate's own implementation for that type.
#[derive(Clone)]
enum Pl {
    U8(u8),
    U16(u16),
    U32(u32),
    U64(u64),
    U128(u128),
    Usize(usize),
    I8(i8),
    I16(i16),
    I32(i32),
    I64(i64),
    I128(i128),
    Isize(isize),
    Bytes(Vec<u8>),
    Addr(v2::Addresses),
    Tlv(u8, Vec<u8>),
    Pair(u8, Vec<u8>),
    TPair(usize, Vec<u8>),
    Section(Vec<u8>),
    SectionIter(usize, Vec<u8>),
    Type(usize),
    RefU32(u32),
}

impl WriteToHeader for Pl {
    fn write_to(&self, w: &mut v2::Writer) -> std::io::Result<usize> {
        match self {
            Pl::U8(v) => v.write_to(w),
            Pl::U16(v) => v.write_to(w),
            Pl::U32(v) => v.write_to(w),
            Pl::U64(v) => v.write_to(w),
            Pl::U128(v) => v.write_to(w),
            Pl::Usize(v) => v.write_to(w),
            Pl::I8(v) => v.write_to(w),
            Pl::I16(v) => v.write_to(w),
            Pl::I32(v) => v.write_to(w),
            Pl::I64(v) => v.write_to(w),
            Pl::I128(v) => v.write_to(w),
            Pl::Isize(v) => v.write_to(w),
            Pl::Bytes(b) => b.as_slice().write_to(w),
            Pl::Addr(a) => a.write_to(w),
            Pl::Tlv(k, v) => v2::TypeLengthValue::new(*k, v.as_slice()).write_to(w),
            Pl::Pair(k, v) => (*k, v.as_slice()).write_to(w),
            Pl::TPair(t, v) => (TYPES[*t], v.as_slice()).write_to(w),
            Pl::Section(b) => v2::TypeLengthValues::from(b.as_slice()).write_to(w),
            Pl::SectionIter(n, b) => {
                // the section value has been iterated n times before it is written
                let mut t = v2::TypeLengthValues::from(b.as_slice());
                for _ in 0..*n {
                    let _ = t.next();
                }
                t.write_to(w)
            }
            Pl::Type(t) => TYPES[*t].write_to(w),
            Pl::RefU32(v) => (&v).write_to(w),
        }
    }
}

fn payload(s: &str) -> Pl {
    let (kind, rest) = s.split_once(':').unwrap();
    match kind {
        "u8" => Pl::U8(rest.parse().unwrap()),
        "u16" => Pl::U16(rest.parse().unwrap()),
        "u32" => Pl::U32(rest.parse().unwrap()),
        "u64" => Pl::U64(rest.parse().unwrap()),
        "u128" => Pl::U128(rest.parse().unwrap()),
        "usize" => Pl::Usize(rest.parse().unwrap()),
        "i8" => Pl::I8(rest.parse().unwrap()),
        "i16" => Pl::I16(rest.parse().unwrap()),
        "i32" => Pl::I32(rest.parse().unwrap()),
        "i64" => Pl::I64(rest.parse().unwrap()),
        "i128" => Pl::I128(rest.parse().unwrap()),
        "isize" => Pl::Isize(rest.parse().unwrap()),
        "r32" => Pl::RefU32(rest.parse().unwrap()),
        "b" => Pl::Bytes(bytes_expr(rest)),
        "a" => Pl::Addr(addr2(&mut rest.split(','))),
        "t" => {
            let (k, v) = rest.split_once(':').unwrap();
            Pl::Tlv(k.parse().unwrap(), bytes_expr(v))
        }
        "q" => {
            let (k, v) = rest.split_once(':').unwrap();
            Pl::Pair(k.parse().unwrap(), bytes_expr(v))
        }
        "Q" => {
            let (k, v) = rest.split_once(':').unwrap();
            Pl::TPair(k.parse().unwrap(), bytes_expr(v))
        }
        "s" => Pl::Section(bytes_expr(rest)),
        "S" => {
            let (n, v) = rest.split_once(':').unwrap();
            Pl::SectionIter(n.parse().unwrap(), bytes_expr(v))
        }
        "y" => Pl::Type(rest.parse().unwrap()),
        k => panic!("bad payload kind {}", k),
    }
}

fn ctor(s: &str) -> v2::Builder {
    let mut it = s.split(',');
    match it.next().unwrap() {
        "N" => {
            let vc: u8 = it.next().unwrap().parse().unwrap();
            let afp: u8 = it.next().unwrap().parse().unwrap();
            v2::Builder::new(vc, afp)
        }
        "W" => {
            let vc: u8 = it.next().unwrap().parse().unwrap();
            let p = match it.next().unwrap() {
                "0" => v2::Protocol::Unspecified,
                "1" => v2::Protocol::Stream,
                "2" => v2::Protocol::Datagram,
                _ => panic!("bad proto"),
            };
            let a = addr2(&mut it);
            v2::Builder::with_addresses(vc, p, a)
        }
        // the valid-command form of C07: Version::Two | Command, through the crate's own BitOr
        "C" => {
            let c = match it.next().unwrap() {
                "0" => v2::Command::Local,
                "1" => v2::Command::Proxy,
                _ => panic!("bad cmd"),
            };
            let p = match it.next().unwrap() {
                "0" => v2::Protocol::Unspecified,
                "1" => v2::Protocol::Stream,
                "2" => v2::Protocol::Datagram,
                _ => panic!("bad proto"),
            };
            let a = addr2(&mut it);
            v2::Builder::with_addresses(v2::Version::Two | c, p, a)
        }
        k => panic!("bad ctor {}", k),
    }
}

/// the receive loop over pipelined headers (C04_pipeline): at most 64 frames
fn pipe_loop(buf: &[u8]) -> String {
    let mut off = 0usize;
    let mut frames: Vec<String> = Vec::new();
    while frames.len() < 64 {
        match HeaderResult::parse(&buf[off..]) {
            HeaderResult::V1(Ok(h)) => {
                frames.push(format!("1:{}", h.header.len()));
                off += h.header.len();
            }
            HeaderResult::V2(Ok(h)) => {
                frames.push(format!("2:{}", h.len()));
                off += h.len();
            }
            _ => break,
        }
    }
    format!("P={} R={}", if frames.is_empty() { "-".to_string() } else { frames.join(",") }, buf.len() - off)
}

fn run_build(c: &str, ops: &str) -> String {
    match build_bytes(c, ops) {
        Ok(v) => format!("OK {}", hexs(&v)),
        Err(e) => e,
    }
}

fn build_bytes(c: &str, ops: &str) -> Result<Vec<u8>, String> {
    let mut b = ctor(c);
    if ops != "-" {
        for (i, op) in ops.split(';').enumerate() {
            let (k, arg) = op.split_once('=').unwrap();
            let r = match k {
                "R" => Ok(b.reserve_capacity(arg.parse().unwrap())),
                "L" => Ok(if arg == "-" {
                    b.set_length(None)
                } else {
                    b.set_length(arg.parse::<u16>().unwrap())
                }),
                "P" => b.write_payload(payload(arg)),
                "B" => {
                    // items `<n>*<payload>` are repeated n times; the batch is handed over as a Vec, as a filtering
                    // iterator (size_hint lower bound 0) or as a `from_fn` iterator (no upper bound), by position
                    let mut items: Vec<Pl> = Vec::new();
                    if arg != "-" {
                        for it in arg.split('|') {
                            match it.split_once('*') {
                                Some((n, p)) if n.bytes().all(|c| c.is_ascii_digit()) && !n.is_empty() => {
                                    let pl = payload(p);
                                    for _ in 0..n.parse::<usize>().unwrap() {
                                        items.push(pl.clone());
                                    }
                                }
                                _ => items.push(payload(it)),
                            }
                        }
                    }
                    match (i + items.len()) % 3 {
                        0 => b.write_payloads(items),
                        1 => b.write_payloads(items.into_iter().filter(|_| true)),
                        _ => {
                            let mut it = items.into_iter();
                            b.write_payloads(std::iter::from_fn(move || it.next()))
                        }
                    }
                }
                "T" => {
                    let (k, v) = arg.split_once(':').unwrap();
                    b.write_tlv(k.parse::<u8>().unwrap(), bytes_expr(v).as_slice())
                }
                "TT" => {
                    let (k, v) = arg.split_once(':').unwrap();
                    b.write_tlv(TYPES[k.parse::<usize>().unwrap()], bytes_expr(v).as_slice())
                }
                k => panic!("bad op {}", k),
            };
            match r {
                Ok(nb) => b = nb,
                Err(e) => {
                    assert!(e.kind() == std::io::ErrorKind::WriteZero);
                    return Err(format!("ERR@{}", i));
                }
            }
        }
    }
    match b.build() {
        Ok(v) => Ok(v),
        Err(e) => {
            assert!(e.kind() == std::io::ErrorKind::WriteZero);
            Err("ERR@build".to_string())
        }
    }
}

/// C07: build, then parse the built bytes and iterate their TLVs
fn run_buildparse(c: &str, ops: &str) -> String {
    match build_bytes(c, ops) {
        Err(e) => e,
        Ok(v) => {
            let r = v2::Header::try_from(v.as_slice());
            let tl = match &r {
                Ok(h) => show_tlvs(h.tlvs()),
                Err(_) => "REJ".to_string(),
            };
            format!("OK {} | {} | {}", hexs(&v), show_v2(&r), tl)
        }
    }
}

fn same(r: std::io::Result<Vec<u8>>, want: &[u8]) -> &'static str {
    match r {
        Ok(v) if v == want => "1",
        Ok(_) => "0",
        Err(_) => "E",
    }
}

/// C13: parse, then rebuild the header from its parts in the four ways the property names
fn run_rebuild(x: &[u8]) -> String {
    let h = match v2::Header::try_from(x) {
        Ok(h) => h,
        Err(_) => return "REJ".to_string(),
    };
    let vc = h.version | h.command;
    let afp = h.protocol | h.address_family();
    let want = h.as_bytes();
    let raw = v2::Builder::new(vc, afp)
        .write_payload(h.address_bytes())
        .and_then(|b| b.write_payload(h.tlv_bytes()))
        .and_then(|b| b.build());
    let section = v2::Builder::new(vc, afp)
        .write_payload(h.address_bytes())
        .and_then(|b| b.write_payload(h.tlvs()))
        .and_then(|b| b.build());
    let items: Vec<_> = h.tlvs().collect();
    let items_s = if items.iter().all(|i| i.is_ok()) {
        let its: Vec<v2::TypeLengthValue> = items.into_iter().map(|i| i.unwrap()).collect();
        same(
            v2::Builder::new(vc, afp)
                .write_payload(h.address_bytes())
                .and_then(|b| b.write_payloads(its))
                .and_then(|b| b.build()),
            want,
        )
    } else {
        "-"
    };
    let value_s = if h.address_family() != v2::AddressFamily::Unspecified {
        same(
            v2::Builder::with_addresses(vc, h.protocol, h.addresses)
                .write_payload(h.tlvs())
                .and_then(|b| b.build()),
            want,
        )
    } else {
        "-"
    };
    format!("R={} S={} I={} V={}", same(raw, want), same(section, want), items_s, value_s)
}

fn run_write(prefill: &str, p: &str, hist: Option<&str>) -> String {
    let pl = payload(p);
    let mut pre = bytes_expr(prefill);
    let mut w = v2::Writer::from(pre.clone());
    if let Some(h) = hist {
        // earlier writes into the same writer (their results are not looked at).  `Writer` only gives its bytes away
        // by value, so the history is played twice: once to learn what the writer holds afterwards (the prefill of
        // the measured write), once on the writer that is measured, which keeps whatever state it has besides its bytes
        for q in h.split(';') {
            let _ = payload(q).write_to(&mut w);
        }
        pre = w.finish();
        w = v2::Writer::from(bytes_expr(prefill));
        for q in h.split(';') {
            let _ = payload(q).write_to(&mut w);
        }
    }
    let n0 = pre.len();
    let r = pl.write_to(&mut w);
    let out = w.finish();
    let kept = out.len() >= n0 && out[..n0] == pre[..];
    let tb = match pl.to_bytes() {
        Ok(v) => format!("OK {}", hexs(&v)),
        Err(_) => "ERR".to_string(),
    };
    let tail = if hist.is_some() { format!(" pre={}", n0) } else { String::new() };
    match r {
        Ok(n) => format!("W=OK {} kept={} app={} TB={}{}", n, kept as u8, hexs(&out[n0.min(out.len())..]), tb, tail),
        Err(_) => format!("W=ERR kept={} app={} TB={}{}", kept as u8, hexs(&out[n0.min(out.len())..]), tb, tail),
    }
}

// ---------------------------------------------------------------------------------------------
// views
// ---------------------------------------------------------------------------------------------

fn views2(x: &[u8]) -> String {
    let r = v2::Header::try_from(x);
    let h = match &r {
        Ok(h) => h,
        Err(_) => return "REJ".to_string(),
    };
    let one = |h: &v2::Header| {
        format!(
            "length={} len={} empty={} fam={} ab={} tb={} asb={} alen={} aempty={} u16={} vc={} fp={} tl={} te={} disp={}",
            h.length(),
            h.len(),
            h.is_empty() as u8,
            fam_code(h.address_family()),
            hexs(h.address_bytes()),
            hexs(h.tlv_bytes()),
            hexs(h.as_bytes()),
            h.addresses.len(),
            h.addresses.is_empty() as u8,
            u16::from(h.address_family()),
            h.version | h.command,
            h.protocol | h.address_family(),
            h.tlvs().len(),
            h.tlvs().is_empty() as u8,
            hexs(h.to_string().as_bytes()),
        )
    };
    let borrowed = one(h);
    let owned = h.to_owned();
    let owned_s = one(&owned);
    // impl-only observations: Display returns, owned == borrowed, owned survives the buffer
    let disp = !h.to_string().is_empty();
    let eq = owned == *h;
    let tlvs_b = show_tlvs(h.tlvs());
    let mut heap = x.to_vec();
    let clobber = {
        let h2 = v2::Header::try_from(heap.as_slice()).unwrap();
        let o2 = h2.to_owned();
        let t2: Vec<_> = h2.tlvs().filter_map(|t| t.ok()).map(|t| t.to_owned()).collect();
        let t2b: Vec<_> = h2.tlvs().filter_map(|t| t.ok()).collect::<Vec<_>>();
        let teq = t2.iter().zip(t2b.iter()).all(|(a, b)| a == b && a.len() == b.len() && a.is_empty() == b.is_empty());
        drop(t2b);
        drop(h2);
        for b in heap.iter_mut() {
            *b = !*b;
        }
        drop(heap);
        let t3: Vec<_> = h.tlvs().filter_map(|t| t.ok()).collect();
        teq && o2 == *h && one(&o2) == borrowed && show_tlvs(o2.tlvs()) == tlvs_b && t2 == t3
    };
    format!(
        "B[{}] O[{}] | disp={} eq={} clobber={}",
        borrowed, owned_s, disp as u8, eq as u8, clobber as u8
    )
}

fn views1(x: &[u8]) -> String {
    let r = v1::Header::try_from(x);
    let h = match &r {
        Ok(h) => h,
        Err(_) => return "REJ".to_string(),
    };
    let one = |h: &v1::Header| {
        format!(
            "proto={} aproto={} astr={} str={}",
            hexs(h.protocol().as_bytes()),
            hexs(h.addresses.protocol().as_bytes()),
            hexs(h.addresses_str().as_bytes()),
            hexs(h.to_string().as_bytes())
        )
    };
    let borrowed = one(h);
    let owned = h.to_owned();
    let owned_s = one(&owned);
    let eq = owned == *h;
    let mut heap = x.to_vec();
    let clobber = {
        let h2 = v1::Header::try_from(heap.as_slice()).unwrap();
        let o2 = h2.to_owned();
        drop(h2);
        for b in heap.iter_mut() {
            *b = !*b;
        }
        drop(heap);
        o2 == *h && one(&o2) == borrowed
    };
    format!("B[{}] O[{}] | eq={} clobber={}", borrowed, owned_s, eq as u8, clobber as u8)
}

// ---------------------------------------------------------------------------------------------
// v1 formatting (C08) and constructors (C19)
// ---------------------------------------------------------------------------------------------

fn addr1<'a>(it: &mut impl Iterator<Item = &'a str>) -> v1::Addresses {
    match it.next().unwrap() {
        "U" => v1::Addresses::Unknown,
        "4" => {
            let sa: [u8; 4] = arr(&bytes_expr(it.next().unwrap()));
            let da: [u8; 4] = arr(&bytes_expr(it.next().unwrap()));
            let sp: u16 = it.next().unwrap().parse().unwrap();
            let dp: u16 = it.next().unwrap().parse().unwrap();
            v1::Addresses::new_tcp4(sa, da, sp, dp)
        }
        "6" => {
            let sa: [u8; 16] = arr(&bytes_expr(it.next().unwrap()));
            let da: [u8; 16] = arr(&bytes_expr(it.next().unwrap()));
            let sp: u16 = it.next().unwrap().parse().unwrap();
            let dp: u16 = it.next().unwrap().parse().unwrap();
            v1::Addresses::new_tcp6(sa, da, sp, dp)
        }
        k => panic!("bad addr1 kind {}", k),
    }
}

fn run_fmt1(a: &str) -> String {
    let a = addr1(&mut a.split(','));
    let s = a.to_string();
    let rb = v1::Header::try_from(s.as_bytes());
    let rs = v1::Header::try_from(s.as_str());
    let rh = s.parse::<v1::Header<'static>>();
    let ra = s.parse::<v1::Addresses>();
    let hdr_str = match &rs {
        Ok(h) => hexs(h.to_string().as_bytes()),
        Err(_) => "ERR".to_string(),
    };
    format!(
        "S={} B={} S={} H={} A={} HS={}",
        hexs(s.as_bytes()),
        show_v1b(&rb),
        show_v1s(&rs),
        show_v1s(&rh),
        show_v1a(&ra),
        hdr_str
    )
}

fn sock<'a>(it: &mut impl Iterator<Item = &'a str>) -> SocketAddr {
    match it.next().unwrap() {
        "4" => {
            let ip: [u8; 4] = arr(&bytes_expr(it.next().unwrap()));
            let port: u16 = it.next().unwrap().parse().unwrap();
            SocketAddr::V4(SocketAddrV4::new(Ipv4Addr::from(ip), port))
        }
        "6" => {
            let ip: [u8; 16] = arr(&bytes_expr(it.next().unwrap()));
            let port: u16 = it.next().unwrap().parse().unwrap();
            let flow: u32 = it.next().unwrap().parse().unwrap();
            let scope: u32 = it.next().unwrap().parse().unwrap();
            SocketAddr::V6(SocketAddrV6::new(Ipv6Addr::from(ip), port, flow, scope))
        }
        k => panic!("bad sock {}", k),
    }
}

/// ctor <kind> <comma args>: fields of the value built by each public constructor / From impl
fn run_ctor(kind: &str, args: &str) -> String {
    let mut it = args.split(',');
    match kind {
        "ip4new" => {
            let sa: [u8; 4] = arr(&bytes_expr(it.next().unwrap()));
            let da: [u8; 4] = arr(&bytes_expr(it.next().unwrap()));
            let sp: u16 = it.next().unwrap().parse().unwrap();
            let dp: u16 = it.next().unwrap().parse().unwrap();
            let v = v2::IPv4::new(sa, da, sp, dp);
            let a1: v1::Addresses = v.into();
            let a2: v2::Addresses = v.into();
            let n1 = v1::Addresses::new_tcp4(sa, da, sp, dp);
            format!(
                "F={}/{}/{}/{} V1={} V2={} N1={}",
                hexs(&v.source_address.octets()),
                hexs(&v.destination_address.octets()),
                v.source_port,
                v.destination_port,
                v1_addr(&a1),
                v2_addr(&a2),
                v1_addr(&n1)
            )
        }
        "ip6new" => {
            let sa: [u8; 16] = arr(&bytes_expr(it.next().unwrap()));
            let da: [u8; 16] = arr(&bytes_expr(it.next().unwrap()));
            let sp: u16 = it.next().unwrap().parse().unwrap();
            let dp: u16 = it.next().unwrap().parse().unwrap();
            let v = v2::IPv6::new(sa, da, sp, dp);
            let a1: v1::Addresses = v.into();
            let a2: v2::Addresses = v.into();
            let n1 = v1::Addresses::new_tcp6(sa, da, sp, dp);
            format!(
                "F={}/{}/{}/{} V1={} V2={} N1={}",
                hexs(&v.source_address.octets()),
                hexs(&v.destination_address.octets()),
                v.source_port,
                v.destination_port,
                v1_addr(&a1),
                v2_addr(&a2),
                v1_addr(&n1)
            )
        }
        "unix" => {
            let s: [u8; 108] = arr(&bytes_expr(it.next().unwrap()));
            let d: [u8; 108] = arr(&bytes_expr(it.next().unwrap()));
            let v = v2::Unix::new(s, d);
            let a2: v2::Addresses = v.into();
            format!("F={}/{} V2={}", hexs(&v.source), hexs(&v.destination), v2_addr(&a2))
        }
        "pair" => {
            let s = sock(&mut it);
            let d = sock(&mut it);
            let a1: v1::Addresses = (s, d).into();
            let a2: v2::Addresses = (s, d).into();
            format!("V1={} V2={}", v1_addr(&a1), v2_addr(&a2))
        }
        "pairrt" => {
            // the converted pair carried end to end: Display -> parse (v1), Builder -> parse (v2)
            let s = sock(&mut it);
            let d = sock(&mut it);
            let a1: v1::Addresses = (s, d).into();
            let a2: v2::Addresses = (s, d).into();
            let line = a1.to_string();
            let r1 = match v1::Header::try_from(line.as_str()) {
                Ok(h) => v1_addr(&h.addresses),
                Err(_) => "ERR".to_string(),
            };
            let ra = match line.parse::<v1::Addresses>() {
                Ok(a) => v1_addr(&a),
                Err(_) => "ERR".to_string(),
            };
            let (w, r2) = match v2::Builder::with_addresses(v2::Version::Two | v2::Command::Proxy, v2::Protocol::Stream, a2).build() {
                Ok(out) => {
                    let r2 = match v2::Header::try_from(out.as_slice()) {
                        Ok(h) => v2_addr(&h.addresses),
                        Err(_) => "ERR".to_string(),
                    };
                    (hexs(&out), r2)
                }
                Err(_) => ("ERR".to_string(), "ERR".to_string()),
            };
            format!("L={} R1={} RA={} W={} R2={}", hexs(line.as_bytes()), r1, ra, w, r2)
        }
        "hdr1" => {
            // Header::new(text, addresses): keeps both as given
            let text = String::from_utf8(bytes_expr(it.next().unwrap())).unwrap();
            let a = addr1(&mut it);
            let h = v1::Header::new(text.as_str(), a);
            format!("H={} {}", hexs(h.header.as_bytes()), v1_addr(&h.addresses))
        }
        "tlv" => {
            let k: u8 = it.next().unwrap().parse().unwrap();
            let v = bytes_expr(it.next().unwrap());
            let t = v2::TypeLengthValue::new(k, v.as_slice());
            let f: v2::TypeLengthValue = (k, v.as_slice()).into();
            let o = t.to_owned();
            format!(
                "K={} V={} len={} empty={} from_eq={} owned_eq={}",
                t.kind,
                hexs(t.value.as_ref()),
                t.len(),
                t.is_empty() as u8,
                (f == t) as u8,
                (o == t) as u8
            )
        }
        "type" => {
            let t = TYPES[it.next().unwrap().parse::<usize>().unwrap()];
            format!("C={}", u8::from(t))
        }
        "default1" => format!("D={}", v1_addr(&v1::Addresses::default())),
        "bitor" => {
            // all four BitOr impls of src/v2/model.rs, and From<AddressFamily> for u16
            let c = [v2::Command::Local, v2::Command::Proxy][it.next().unwrap().parse::<usize>().unwrap()];
            let f = [
                v2::AddressFamily::Unspecified,
                v2::AddressFamily::IPv4,
                v2::AddressFamily::IPv6,
                v2::AddressFamily::Unix,
            ][it.next().unwrap().parse::<usize>().unwrap()];
            let p = [v2::Protocol::Unspecified, v2::Protocol::Stream, v2::Protocol::Datagram]
                [it.next().unwrap().parse::<usize>().unwrap()];
            format!(
                "VC={} CV={} FP={} PF={} FL={}",
                v2::Version::Two | c,
                c | v2::Version::Two,
                f | p,
                p | f,
                f.byte_length().map(|n| n.to_string()).unwrap_or_else(|| "-".to_string())
            )
        }
        k => panic!("bad ctor kind {}", k),
    }
}

// ---------------------------------------------------------------------------------------------
// std streams: the real standard library on the inputs the Std/*.v models are run on
// ---------------------------------------------------------------------------------------------

fn run_std(kind: &str, arg: &str) -> String {
    let b = bytes_expr(arg);
    match kind {
        "u16" => match std::str::from_utf8(&b).ok().and_then(|s| s.parse::<u16>().ok()) {
            Some(n) => format!("OK {}", n),
            None => "ERR".into(),
        },
        "ip4" => match std::str::from_utf8(&b).ok().and_then(|s| s.parse::<Ipv4Addr>().ok()) {
            Some(a) => format!("OK {}", hexs(&a.octets())),
            None => "ERR".into(),
        },
        "ip6" => match std::str::from_utf8(&b).ok().and_then(|s| s.parse::<Ipv6Addr>().ok()) {
            Some(a) => format!("OK {}", hexs(&a.octets())),
            None => "ERR".into(),
        },
        "fmt4" => {
            let a: [u8; 4] = arr(&b);
            format!("S={}", hexs(Ipv4Addr::from(a).to_string().as_bytes()))
        }
        "fmt6" => {
            let a: [u8; 16] = arr(&b);
            format!("S={}", hexs(Ipv6Addr::from(a).to_string().as_bytes()))
        }
        "fmtu16" => {
            let n = (b[0] as u16) * 256 + b[1] as u16;
            format!("S={}", hexs(n.to_string().as_bytes()))
        }
        "utf8" => format!("V={}", std::str::from_utf8(&b).is_ok() as u8),
        k => panic!("bad std kind {}", k),
    }
}

// ---------------------------------------------------------------------------------------------

/// An input placed inside a larger buffer so that the slice handed to the crate starts at a chosen address modulo 16
/// (derived from the case line): code that depends on where the bytes live -- `align_to`, word-at-a-time searches --
/// is exercised at every alignment, not only at the allocator's.
struct Placed {
    buf: Vec<u8>,
    off: usize,
    len: usize,
}

impl Placed {
    fn new(x: &[u8], salt: u64) -> Placed {
        let mut buf = vec![0xA5u8; x.len() + 48];
        let base = buf.as_ptr() as usize;
        let want = (salt % 16) as usize;
        let off = 16 + ((want + 16 - (base + 16) % 16) % 16);
        buf[off..off + x.len()].copy_from_slice(x);
        Placed { buf, off, len: x.len() }
    }
    fn as_slice(&self) -> &[u8] {
        &self.buf[self.off..self.off + self.len]
    }
}

fn salt_of(line: &str) -> u64 {
    let mut h: u64 = 0xcbf29ce484222325;
    for b in line.bytes() {
        h = (h ^ b as u64).wrapping_mul(0x100000001b3);
    }
    h ^ (h >> 29)
}

fn run_case(line: &str) -> String {
    let mut f = line.split(' ');
    let mode = f.next().unwrap();
    let salt = salt_of(line);
    match mode {
        "v1b" => {
            let x = Placed::new(&bytes_expr(f.next().unwrap()), salt);
            show_v1b(&v1::Header::try_from(x.as_slice()))
        }
        // the three &str entry points; the input must be valid UTF-8 (the generator guarantees it)
        "v1s" | "v1fh" | "v1fa" => {
            let x = Placed::new(&bytes_expr(f.next().unwrap()), salt);
            let s = match std::str::from_utf8(x.as_slice()) {
                Ok(s) => s,
                Err(_) => return "NOTUTF8".to_string(),
            };
            match mode {
                "v1s" => show_v1s(&v1::Header::try_from(s)),
                "v1fh" => show_v1s(&v1::Header::from_str(s)),
                _ => show_v1a(&v1::Addresses::from_str(s)),
            }
        }
        "v2" => {
            let x = Placed::new(&bytes_expr(f.next().unwrap()), salt);
            show_v2(&v2::Header::try_from(x.as_slice()))
        }
        "auto" => {
            let x = Placed::new(&bytes_expr(f.next().unwrap()), salt);
            show_auto(&HeaderResult::parse(x.as_slice()))
        }
        "pipe" => {
            // a receiver of pipelined headers: parse, remove exactly the reported header bytes, repeat (at most 64 frames)
            let x = Placed::new(&bytes_expr(f.next().unwrap()), salt);
            pipe_loop(x.as_slice())
        }
        "readpipe" => {
            // a streaming receiver of pipelined headers: the input arrives in reads cut at the given offsets; after
            // every read the receiver removes as many complete headers as its buffer holds (C05_stream_pipeline)
            let data = bytes_expr(f.next().unwrap());
            let cuts_s = f.next().unwrap();
            let mut cuts: Vec<usize> = if cuts_s == "-" { Vec::new() } else { cuts_s.split(',').map(|c| c.parse().unwrap()).collect() };
            cuts.push(data.len());
            let mut buf: Vec<u8> = Vec::new();
            let mut frames: Vec<String> = Vec::new();
            let mut prev = 0usize;
            for c in cuts {
                buf.extend_from_slice(&data[prev..c]);
                prev = c;
                loop {
                    let step = match HeaderResult::parse(buf.as_slice()) {
                        HeaderResult::V1(Ok(h)) => Some((1, h.header.len())),
                        HeaderResult::V2(Ok(h)) => Some((2, h.len())),
                        _ => None,
                    };
                    match step {
                        Some((k, n)) if n > 0 && n <= buf.len() => {
                            frames.push(format!("{}:{}", k, n));
                            buf.drain(..n);
                        }
                        Some((k, n)) => return format!("BADLEN {}:{}", k, n),
                        None => break,
                    }
                }
            }
            format!("P={} R={}", if frames.is_empty() { "-".to_string() } else { frames.join(",") }, buf.len())
        }
        "sendpipe" => {
            // sender to receiver: every frame is produced by the crate's own encoders (Display for v1 addresses, the
            // v2 Builder), the frames are concatenated with a remainder, and the receive loop reads them back
            let specs = f.next().unwrap();
            let rest = bytes_expr(f.next().unwrap());
            let mut buf: Vec<u8> = Vec::new();
            for spec in specs.split('~') {
                let mut p = spec.splitn(3, '@');
                match p.next().unwrap() {
                    "1" => buf.extend_from_slice(addr1(&mut p.next().unwrap().split(',')).to_string().as_bytes()),
                    "2" => {
                        let c = p.next().unwrap();
                        let ops = p.next().unwrap();
                        match build_bytes(c, ops) {
                            Ok(v) => buf.extend_from_slice(&v),
                            Err(e) => return format!("BUILD {}", e),
                        }
                    }
                    k => panic!("bad frame kind {}", k),
                }
            }
            buf.extend_from_slice(&rest);
            let x = Placed::new(&buf, salt);
            format!("N={} {}", buf.len(), pipe_loop(x.as_slice()))
        }
        "tlv" => {
            let x = Placed::new(&bytes_expr(f.next().unwrap()), salt);
            show_tlvs(v2::TypeLengthValues::from(x.as_slice()))
        }
        "htlv" => {
            let x = Placed::new(&bytes_expr(f.next().unwrap()), salt);
            match v2::Header::try_from(x.as_slice()) {
                Ok(h) => show_tlvs(h.tlvs()),
                Err(_) => "REJ".to_string(),
            }
        }
        "views2" => views2(Placed::new(&bytes_expr(f.next().unwrap()), salt).as_slice()),
        "views1" => views1(Placed::new(&bytes_expr(f.next().unwrap()), salt).as_slice()),
        "fmt1" => run_fmt1(f.next().unwrap()),
        "build" => {
            let c = f.next().unwrap();
            let ops = f.next().unwrap();
            run_build(c, ops)
        }
        "buildparse" => {
            let c = f.next().unwrap();
            let ops = f.next().unwrap();
            run_buildparse(c, ops)
        }
        "rebuild" => run_rebuild(Placed::new(&bytes_expr(f.next().unwrap()), salt).as_slice()),
        "write" => {
            let pre = f.next().unwrap();
            let p = f.next().unwrap();
            run_write(pre, p, f.next())
        }
        "ctor" => {
            let k = f.next().unwrap();
            let a = f.next().unwrap_or("-");
            run_ctor(k, a)
        }
        "std" => {
            let k = f.next().unwrap();
            let a = f.next().unwrap();
            run_std(k, a)
        }
        m => panic!("unknown mode {}", m),
    }
}

fn main() {
    let path = std::env::args().nth(1).expect("usage: harness <case-file>");
    std::panic::set_hook(Box::new(|_| {}));
    let file = std::fs::File::open(&path).expect("cannot open case file");
    let out = std::io::stdout();
    let mut out = BufWriter::new(out.lock());
    for line in std::io::BufReader::new(file).lines() {
        let line = line.unwrap();
        if line.is_empty() || line.starts_with('#') {
            writeln!(out, "{}", line).unwrap();
            continue;
        }
        let r = catch_unwind(AssertUnwindSafe(|| run_case(&line)));
        match r {
            Ok(s) => writeln!(out, "{}", s).unwrap(),
            Err(_) => writeln!(out, "PANIC").unwrap(),
        }
    }
}
