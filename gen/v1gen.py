"""Input streams for the v1 (text) parser and for the Std models (DESIGN 5.3, v1 streams).
Every stream function has the signature f(tier, rng, k, n) and yields (stream, bytes-expression, meta)."""
import os

from .lib import Rng, hx, special_ip6, special_ip4, class_pairs

HERE = os.path.dirname(os.path.dirname(os.path.abspath(__file__)))

OCTETS = [0, 1, 9, 10, 99, 100, 199, 200, 249, 250, 255]
PORTS = [0, 1, 9, 10, 99, 100, 999, 1000, 9999, 10000, 65534, 65535]


def corpus(tier, rng, k, n):
    idx = 0
    for name in sorted(os.listdir(os.path.join(HERE, "corpus"))):
        if not name.startswith("v1_"):
            continue
        for line in open(os.path.join(HERE, "corpus", name)):
            line = line.strip()
            if not line or line.startswith("#"):
                continue
            if idx % n == k:
                yield ("v1-corpus", line, {})
            idx += 1


# ---- values and their spellings ---------------------------------------------------------------

def rand_octet(rng):
    return rng.choice(OCTETS) if rng.chance(1, 2) else rng.below(256)


def rand_port(rng):
    return rng.choice(PORTS) if rng.chance(1, 2) else rng.below(65536)


def rand_ip4(rng):
    if rng.chance(1, 8):
        return special_ip4(rng)          # incl. values taken from the source dictionary
    return bytes(rand_octet(rng) for _ in range(4))


def rand_groups(rng, mask=None):
    if mask is None:
        mask = rng.below(256)
    gs = []
    for i in range(8):
        if mask >> i & 1:
            gs.append(0)
        else:
            gs.append(rng.choice([1, 0xF, 0x10, 0xFF, 0x100, 0xFFF, 0x1000, 0xFFFF, 0xABCD]) if rng.chance(1, 2) else 1 + rng.below(65535))
    if rng.chance(1, 8):
        gs = [0, 0, 0, 0, 0, 0xFFFF, rng.below(65536), rng.below(65536)]      # IPv4-mapped
    elif rng.chance(1, 8):
        a = special_ip6(rng)             # well-known prefixes, values taken from the source dictionary
        gs = [a[2 * i] * 256 + a[2 * i + 1] for i in range(8)]
    return gs


def spell_ip4(o):
    return ".".join(str(x) for x in o).encode()


def spell_group(g, rng, style):
    s = "%x" % g
    if style == "upper":
        s = s.upper()
    elif style == "pad":
        s = s.rjust(rng.choice([2, 3, 4]), "0")[-4:] if len(s) < 4 else s
    return s


def spell_ip6(gs, rng):
    """one of the accepted spellings of the eight groups"""
    style = rng.choice(["canon", "upper", "pad", "full", "any", "v4tail", "canon"])
    g = [spell_group(x, rng, style) for x in gs]
    if style == "full":
        return ":".join(g).encode()
    # zero runs that may be compressed
    runs = []
    i = 0
    while i < 8:
        if gs[i] == 0:
            j = i
            while j < 8 and gs[j] == 0:
                j += 1
            runs.append((i, j - i))
            i = j
        else:
            i += 1
    tail4 = style == "v4tail" or (style == "any" and rng.chance(1, 3))
    if tail4:
        quad = "%d.%d.%d.%d" % (gs[6] >> 8, gs[6] & 255, gs[7] >> 8, gs[7] & 255)
        g = g[:6] + [quad]
        runs = [(s, min(l, 6 - s)) for (s, l) in runs if s < 6]
    if style == "canon":
        best = None
        for (s, l) in runs:
            if l >= 2 and (best is None or l > best[1]):
                best = (s, l)
        run = best
    else:
        # any admissible run (including runs of length 1 and sub-runs)
        cands = []
        for (s, l) in runs:
            for a in range(s, s + l):
                for b in range(a + 1, s + l + 1):
                    cands.append((a, b - a))
        run = rng.choice(cands) if cands and rng.chance(3, 4) else None
    if run is None:
        return ":".join(g).encode()
    s, l = run
    return (":".join(g[:s]) + "::" + ":".join(g[s + l:])).encode()


def groups_octets(gs):
    return b"".join(bytes([g >> 8, g & 255]) for g in gs)


KEYWORD_FILLERS = [b" UNKNOWN", b" UNKNOWN UNKNOWN", b" UNKNOWN  UNKNOWN", b" PROXY UNKNOWN", b" PROXY", b" TCP4 1.2.3.4 5.6.7.8 1 2", b" TCP6 ::1 ::2 1 2",
                   b" TCP4", b" unknown", b" UNKNOWN\n", b" \nUNKNOWN ", b" x UNKNOWN y", b" PROXY TCP4 1.1.1.1 2.2.2.2 1 2\n",
                   b" 10.0.0.1\n10.0.0.2 80 443", b" \n", b" a\n", b" \t", b" \x00"]


def unknown_text(rng):
    pick = rng.below(14)
    if pick >= 12:
        # the ignored text repeats a keyword of the grammar, or contains a bare LF (legal: only CR LF ends the line)
        if pick == 13 and rng.chance(1, 2):
            from . import dictionary
            d = dictionary.harvest()
            pool = [t for t in (d["novel_strs"] or d["strs"]) if b"\r" not in t and len(t) <= 40]
            if pool:
                return b" " + b" ".join(rng.choice(pool) for _ in range(1 + rng.below(3)))
        return rng.choice(KEYWORD_FILLERS)
    if pick == 0:
        return b""
    if pick == 1:
        return b" "
    if pick == 2:
        return b" " + b" ".join(rng.choice([b"a", b"bc", b"1.2.3.4", b"::1", b"80"]) for _ in range(1 + rng.below(9)))
    if pick == 3:
        return b"  x   y "
    if pick == 4:
        return b" a\nb\x00c"
    if pick == 5:
        return " é".encode() + rng.choice(["€", "𝄞", "ñ"]).encode()
    if pick == 6:
        return b" " + b"x" * rng.choice([85, 86, 87, 88, 89, 90, 91, 92])      # totals around the 107-byte limit
    if pick == 7:
        return b" ffff:ffff:ffff:ffff:ffff:ffff:ffff:ffff ffff:ffff:ffff:ffff:ffff:ffff:ffff:ffff 65535 65535"
    if pick == 8:
        return b" " + "é".encode() * rng.choice([44, 45, 46])
    return b" " + bytes(rng.choice(b"abc 19.:") for _ in range(rng.below(30)))


def valid_line(rng):
    """(line bytes, info) of a well-formed v1 line; source and destination always different"""
    pick = rng.below(10)
    if pick < 4:
        sa, da = rand_ip4(rng), rand_ip4(rng)
        while da == sa:
            da = rand_ip4(rng)
        sp, dp = rand_port(rng), rand_port(rng)
        while dp == sp:
            dp = rand_port(rng)
        fields = [b"PROXY", b"TCP4", spell_ip4(sa), spell_ip4(da), str(sp).encode(), str(dp).encode()]
        return b" ".join(fields) + b"\r\n", {"kind": 4, "fields": fields}
    if pick < 8:
        ga, gb = rand_groups(rng), rand_groups(rng)
        while gb == ga:
            gb = rand_groups(rng)
        sp, dp = rand_port(rng), rand_port(rng)
        while dp == sp:
            dp = rand_port(rng)
        fields = [b"PROXY", b"TCP6", spell_ip6(ga, rng), spell_ip6(gb, rng), str(sp).encode(), str(dp).encode()]
        return b" ".join(fields) + b"\r\n", {"kind": 6, "fields": fields}
    t = unknown_text(rng)
    return b"PROXY UNKNOWN" + t + b"\r\n", {"kind": 0, "fields": [b"PROXY", b"UNKNOWN"]}


TRAILERS = [b"", b"x", b"5", b" ", b"\r", b"\n", b"\r\n", b"\x00", b"PROXY UNKNOWN\r\n", b"PROXY", "é".encode(),
            b"\xff\xfe", b"\xe2\x82", b"\x16\x03\x01\x02\x00\x01"]


def valid(tier, rng, k, n):
    rng = rng.fork("v1valid%d" % k)
    crng = Rng(0xC1A55).fork("v1pairs")
    for fam in (6, 4):
        for a, b in class_pairs(crng, fam, k, n):
            if a == b:
                continue
            sp, dp = 1 + crng.below(30000), 30001 + crng.below(30000)
            if fam == 4:
                fields = [b"PROXY", b"TCP4", spell_ip4(a), spell_ip4(b), str(sp).encode(), str(dp).encode()]
            else:
                ga = [a[2 * i] * 256 + a[2 * i + 1] for i in range(8)]
                gb = [b[2 * i] * 256 + b[2 * i + 1] for i in range(8)]
                fields = [b"PROXY", b"TCP6", spell_ip6(ga, crng), spell_ip6(gb, crng), str(sp).encode(), str(dp).encode()]
            line = b" ".join(fields) + b"\r\n"
            if len(line) <= 107:
                yield ("v1-valid", hx(line + crng.choice(TRAILERS)), {"kind": fam, "fields": fields})
    count = (12000 if tier == "quick" else 300000) // n
    for _ in range(count):
        line, info = valid_line(rng)
        yield ("v1-valid", hx(line + rng.choice(TRAILERS)), info)


# ---- one-element mutations (C12's replacement classes) ------------------------------------------

def bad_for(elem, rng, kind):
    """replacements without SP / CR that are invalid for the given element"""
    common = [b"", b"x", b"\n", "é".encode(), b"\x00", b"-", b"+", b"."]
    if elem == "kw":
        return [b"proxy", b"PROX", b"PROXYY", b"PROXY\n", b"XPROXY", b"P", b"TCP4"] + common
    if elem == "proto":
        return [b"tcp4", b"TCP", b"TCP5", b"TCP44", b"UNKNOWN2", b"UNKNOW", b"unknown", b"PROXY", b"UDP4"] + common[1:]
    if elem in ("sa", "da"):
        four = [b"1.2.3", b"1.2.3.4.5", b"256.1.1.1", b"01.2.3.4", b"1.2.3.04", b"1..2.3", b"1.2.3.4.", b".1.2.3.4", b"1.2.3.-4",
                b"+1.2.3.4", b"1.2.3.4x", b"a.b.c.d", b"1.2.3.1000", b"0x1.2.3.4", b"1,2,3,4"]
        six = [b"1::2::3", b"12345::", b"g::", b":::", b"1:2:3:4:5:6:7:8:9", b"1:2:3:4:5:6:7", b"::1.2.3", b"1.2.3.4::", b"::01.2.3.4",
               b"1:2:3:4:5:6:7:1.2.3.4", b"::1%eth0", b"[::1]", b":1", b"1:", b"::ffff:256.1.1.1", b"1::2:", b"1:2:3:4:5:6:7::8"]
        # a valid literal of the OTHER family -- in particular every IPv6 spelling that denotes an IPv4 host (mapped,
        # compatible, NAT64) where an IPv4 address is due: "the same host" is not "the right field"
        if kind == 4:
            other = [b"::1", b"1:2:3:4:5:6:7:8", b"::", b"::ffff:1.2.3.4", b"::ffff:102:304", b"0:0:0:0:0:ffff:1.2.3.4", b"0:0:0:0:0:FFFF:102:304",
                     b"::1.2.3.4", b"::ffff:0:0", b"64:ff9b::1.2.3.4", b"::ffff:255.255.255.255"]
            for _ in range(3):
                v = special_ip6(rng)
                other.append(spell_ip6([v[2 * i] * 256 + v[2 * i + 1] for i in range(8)], rng))
        else:
            other = [b"1.2.3.4", b"127.0.0.1", b"0.0.0.0", b"255.255.255.255", spell_ip4(special_ip4(rng))]
        return (four if kind == 4 else six) + other + common
    if elem in ("sp", "dp"):
        return [b"+80", b"-80", b"080", b"00", b"65536", b"99999", b"100000", b"8o", b"0x50", b"80.", b"80\n", b" 80".strip() + b"\t", b"1e3",
                b"\xef\xbc\x91", b"4294967376"] + common
    raise ValueError(elem)


ELEMS = ["kw", "proto", "sa", "da", "sp", "dp"]


def mutations(tier, rng, k, n):
    """v1-3: a valid TCP4/TCP6 line with exactly one element replaced by something invalid for it;
    meta carries the element (C12's oracle)"""
    rng = rng.fork("v1mut%d" % k)
    count = (250 if tier == "quick" else 4000) // n + 1
    for _ in range(count):
        line, info = valid_line(rng)
        if info["kind"] == 0:
            # UNKNOWN shape: keyword, protocol, and the byte after the CR
            base = line[:-2]
            for kw in bad_for("kw", rng, 0):
                yield ("v1-mut", hx(kw + base[5:] + b"\r\n"), {"elem": "kw"})
            for b in (0, 13, 32, 11, 65, 255, 0xC3):
                yield ("v1-mut", hx(base + b"\r" + bytes([b]) + rng.choice(TRAILERS)), {"elem": "nl", "bytes_only": b >= 128})
            yield ("v1-mut", hx(base + "\r€".encode()), {"elem": "nl"})
            continue
        f = info["fields"]
        for i, elem in enumerate(ELEMS):
            for bad in bad_for(elem, rng, info["kind"]):
                g = list(f)
                g[i] = bad
                yield ("v1-mut", hx(b" ".join(g) + b"\r\n" + rng.choice(TRAILERS)), {"elem": elem, "bad": bad.hex()})
        for b in (0, 13, 32, 11, 65, 255, 0xC3):
            yield ("v1-mut", hx(b" ".join(f) + b"\r" + bytes([b]) + rng.choice(TRAILERS)), {"elem": "nl", "bytes_only": b >= 128})
        yield ("v1-mut", hx(b" ".join(f) + "\r€".encode()), {"elem": "nl"})
    # the 107-byte limit: valid shapes of 108 .. 112 bytes
    if k == 0:
        for total in range(104, 113):
            fill_ = total - len(b"PROXY UNKNOWN \r\n")
            yield ("v1-mut", hx(b"PROXY UNKNOWN " + b"x" * fill_ + b"\r\n"), {"elem": "long" if total > 107 else "none"})
        long6 = b"PROXY TCP6 ffff:ffff:ffff:ffff:ffff:ffff:ffff:ffff ffff:ffff:ffff:ffff:ffff:ffff:255.255.255.255 65535 65535\r\n"
        yield ("v1-mut", hx(long6), {"elem": "long" if len(long6) > 107 else "none"})
        # invalid UTF-8 inside an otherwise valid UNKNOWN line (byte entry point only)
        for bad in (b"\xff", b"\xc3", b"\xe2\x82", b"\xc0\x80", b"\xed\xa0\x80", b"\xf5\x80\x80\x80", b"\x80"):
            yield ("v1-mut", hx(b"PROXY UNKNOWN a" + bad + b"b\r\n"), {"elem": "utf8", "bytes_only": True})


# ---- slot substitution (the work-horse) --------------------------------------------------------

FIELD_ALTS = [b"", b"x", b"P", b"T", b"+5", b"05", b"5", b"\n", "é".encode(), b"PROXY", b"TCP4", b"UNKNOWN", b"65536",
              b"1.2.3.4", b"::1", b"TCP6"]
SEP_ALTS = [b" ", b"\r", b"\n", b"", b"  ", b"\r\n", b" \n", b"\t", b"\r "]

BASES = [
    [b"PROXY", b"TCP4", b"1.2.3.4", b"5.6.7.8", b"80", b"443"],
    [b"PROXY", b"TCP6", b"::1", b"1:2::3", b"1", b"65535"],
    [b"PROXY", b"UNKNOWN", b"a", b"b", b"c", b"d"],
    [b"PROXY", b"UNKNOWN"],
]


def assemble(fields, seps, cr, lf):
    out = b""
    for i, f in enumerate(fields):
        out += f
        if i < len(fields) - 1:
            out += seps[i]
    return out + cr + lf


def slot_variants(base, max_subst):
    """all variants of a base line with up to max_subst of its slots replaced"""
    nf = len(base)
    slots = [("f", i) for i in range(nf)] + [("s", i) for i in range(nf - 1)] + [("cr", 0), ("lf", 0)]
    alts = {"f": FIELD_ALTS, "s": SEP_ALTS, "cr": SEP_ALTS, "lf": SEP_ALTS}

    def rec(start, left, fields, seps, cr, lf):
        yield assemble(fields, seps, cr, lf)
        if left == 0:
            return
        for si in range(start, len(slots)):
            kind, i = slots[si]
            for a in alts[kind]:
                f2, s2, c2, l2 = list(fields), list(seps), cr, lf
                if kind == "f":
                    if a == fields[i]:
                        continue
                    f2[i] = a
                elif kind == "s":
                    if a == seps[i]:
                        continue
                    s2[i] = a
                elif kind == "cr":
                    if a == cr:
                        continue
                    c2 = a
                else:
                    if a == lf:
                        continue
                    l2 = a
                yield from rec(si + 1, left - 1, f2, s2, c2, l2)

    yield from rec(0, max_subst, list(base), [b" "] * (nf - 1), b"\r", b"\n")


def slot_substitution(tier, rng, k, n):
    """v1-4: valid lines with up to two (quick: one, plus a seeded sample of two) of their slots replaced."""
    rng = rng.fork("slot%d" % k)
    idx = 0
    for base in BASES:
        for v in slot_variants(base, 2):
            idx += 1
            if idx % n != k:
                continue
            if tier == "quick" and not rng.chance(1, 12):
                continue
            yield ("v1-slot", hx(v), {})
    if tier != "quick":
        # a seeded sample of triple substitutions
        for base in BASES:
            for v in slot_variants(base, 3):
                idx += 1
                if idx % n == k and rng.chance(1, 200):
                    yield ("v1-slot3", hx(v), {})


# ---- token enumeration ---------------------------------------------------------------------------

TOKENS = [b"PROXY", b"TCP4", b"TCP6", b"UNKNOWN", b" ", b"\r", b"\n", b"\r\n", b"1.2.3.4", b"::1", b"80", b"P", b"T", b"+1",
          "é".encode(), b"1.2.3.4 5.6.7.8 1 2", b"::1 ::2 1 2", b"x"]


def token_enum(tier, rng, k, n):
    """v1-5: all sequences over 18 tokens to depth 3 (quick) / 4 (thorough)"""
    depth = 3 if tier == "quick" else 4
    idx = 0
    nt = len(TOKENS)
    for d in range(0, depth + 1):
        for v in range(nt ** d):
            if idx % n == k:
                out, x = b"", v
                for _ in range(d):
                    out += TOKENS[x % nt]
                    x //= nt
                yield ("v1-tokens", hx(out), {})
            idx += 1
    # strings the current source mentions and the baseline tree did not, combined with the core tokens
    from . import dictionary
    novel = [t for t in dictionary.harvest()["novel_strs"] if len(t) <= 40][:6]
    if novel:
        toks = [b"PROXY", b" ", b"\r\n", b"\r", b"TCP4", b"UNKNOWN", b"1.2.3.4 5.6.7.8 1 2"] + novel
        nt = len(toks)
        for d in range(1, 5):
            for v in range(nt ** d):
                if idx % n == k:
                    out, x = b"", v
                    for _ in range(d):
                        out += toks[x % nt]
                        x //= nt
                    yield ("v1-tokens-dict", hx(out), {})
                idx += 1


def length_boundary(tier, rng, k, n):
    """v1-6: lines of 100 .. 112 bytes with the CR at every position; CR-free inputs of 105 .. 109 bytes"""
    idx = 0
    for total in range(100, 113):
        for crpos in range(0, total):
            idx += 1
            if idx % n != k:
                continue
            if tier == "quick" and not (crpos < 16 or crpos > total - 12 or crpos % 7 == 0):
                continue
            b = bytearray(b"PROXY UNKNOWN " + b"y" * (total - 14))
            b[crpos] = 13
            if crpos + 1 < total:
                b[crpos + 1] = 10
            yield ("v1-length", hx(bytes(b)), {})
    if k == 0:
        for total in range(104, 111):
            yield ("v1-length-nocr", hx(b"PROXY UNKNOWN " + b"z" * (total - 14)), {})
            yield ("v1-length-nocr", hx(b"q" * total), {})
            yield ("v1-length-nocr", hx(("é".encode() * 60)[:total]), {})


def _hex_of_width(rng, w):
    """a non-zero group value whose lower-case hex spelling has exactly w digits"""
    lo = 1 if w == 1 else 16 ** (w - 1)
    return lo + rng.below(16 ** w - lo)


def _ip6_of_length(rng, want):
    """an uncompressed IPv6 spelling of exactly `want` characters (15..39 plain, 19..45 with a dotted-quad tail), or None"""
    forms = []
    if 15 <= want <= 39:
        forms.append("plain")
    if 19 <= want <= 45:
        forms.append("v4tail")
    if not forms:
        return None
    form = rng.choice(forms)
    if form == "plain":
        ngroups, fixed, quad = 8, 7, ""
    else:
        for _ in range(50):
            o = [rng.choice([0, 7, 9, 10, 42, 99, 100, 123, 255]) for _ in range(4)]
            quad = "%d.%d.%d.%d" % tuple(o)
            if 6 <= want - 6 - len(quad) <= 24:
                break
        else:
            return None
        ngroups, fixed = 6, 6 + len(quad)
    digits = want - fixed
    if not ngroups <= digits <= 4 * ngroups:
        return None
    widths = [1] * ngroups
    left = digits - ngroups
    while left:
        i = rng.below(ngroups)
        if widths[i] < 4:
            widths[i] += 1
            left -= 1
    gs = ["%x" % _hex_of_width(rng, w) for w in widths]
    if rng.chance(1, 4):
        gs = [g.upper() for g in gs]
    return (":".join(gs) + (":" + quad if form == "v4tail" else "")).encode()


def tcp_length_boundary(tier, rng, k, n):
    """v1-8: well-formed TCP6 / TCP4 lines dialled to an exact total length: every total from 96 to 112 bytes for TCP6
    (the long ones need the dotted-quad tail, 40..45 characters, which `Display` never prints), 50..56 for TCP4.
    Lines of at most 107 bytes must be accepted (C01), longer ones are HeaderTooLong."""
    rng = rng.fork("v1tcplen%d" % k)
    reps = (6 if tier == "quick" else 120)
    idx = 0
    for total in range(96, 113):
        for rep in range(reps * (3 if 104 <= total <= 108 else 1)):
            idx += 1
            if idx % n != k:
                continue
            for _ in range(200):
                lsp, ldp = 1 + rng.below(5), 1 + rng.below(5)
                rest = total - 16 - lsp - ldp
                la = 15 + rng.below(31)
                lb = rest - la
                a, b = _ip6_of_length(rng, la), _ip6_of_length(rng, lb)
                if a and b and a != b:
                    break
            else:
                continue
            def port(w):
                return str(rng.choice([0, 7]) if w == 1 else min(65535, 10 ** (w - 1) + rng.below(9 * 10 ** (w - 1)))).encode()
            fields = [b"PROXY", b"TCP6", a, b, port(lsp), port(ldp)]
            line = b" ".join(fields) + b"\r\n"
            if len(line) != total:
                continue
            yield ("v1-tcp-length", hx(line + (rng.choice(TRAILERS) if rng.chance(1, 3) else b"")), {"kind": 6, "fields": fields})
    if k == 0:
        for o in (b"255.255.255.255", b"249.250.199.200", b"100.100.100.100"):
            for sp in (b"65535", b"9999", b"0"):
                fields = [b"PROXY", b"TCP4", o, b"255.255.255.254", sp, b"65534"]
                yield ("v1-tcp-length", hx(b" ".join(fields) + b"\r\n"), {"kind": 4, "fields": fields})


def cr_neighbours(tier, rng, k, n):
    """v1-9: what stands right before and right after the first CR, at every position of the CR modulo 16 and with 0..17
    bytes following the line.  Word-at-a-time searches for a byte (SWAR tricks, SIMD-style chunking) go wrong on the
    neighbours of the byte searched for (0x0C, 0x0E, 0x8D, 0x0D xor a single bit) and on chunk boundaries; the harness
    varies the address of the buffer as well."""
    before = [0x0C, 0x0E, 0x0D ^ 0x80, 0x1D, 0x2D, 0x4D, 0x05, 0x09, 0x0F, 0x00, 0x01, 0x7F, 0x20, 0x0A]
    idx = 0
    for pad in range(0, 17):
        for b in before:
            for trail in (0, 1, 2, 3, 4, 5, 6, 7, 8, 9, 15, 16, 17):
                idx += 1
                if idx % n != k:
                    continue
                if tier == "quick" and (pad * 7 + trail + b) % 3:
                    continue
                raw = bytes([b]) if b < 0x80 else bytes([0xC2, b])          # keep the line valid UTF-8
                line = b"PROXY UNKNOWN " + b"j" * pad + raw + b"\r\n"
                yield ("v1-cr-neighbours", hx(line + b"GET / HTTP/1.1\r\n\r\n"[:trail]), {})
    if k == 0:
        for pad in range(0, 17):
            yield ("v1-cr-neighbours", hx(b"PROXY UNKNOWN" + b" " * pad + b"\r\nGET / HTTP/1.1\r\nHost: a\r\n\r\n"), {})
            yield ("v1-cr-neighbours", hx(b"PROXY TCP4 1.2.3.4 5.6.7.8 1" + b"0" * 0 + b" 2" + b"\r\n" + b"x" * pad + b"\r\n"), {})


def partial_multibyte(tier, rng, k, n):
    """v1-10: unterminated inputs whose keyword or protocol field is cut short (`P`, `PROX`, `PROXY T`, `PROXY UNKNOW`, ...)
    followed by further text that ends in multi-byte characters: byte arithmetic on the tail of such a buffer
    (`len - field.len()`) lands inside a character"""
    rng = rng.fork("v1pmb%d" % k)
    heads = [b"PROXY"[:i] for i in range(1, 6)] + [b"PROXY " + w[:i] for w in (b"TCP4", b"TCP6", b"UNKNOWN") for i in range(1, len(w) + 1)]
    chars = ["é", "€", "𝄞", "ñ", "日"]
    idx = 0
    for h in heads:
        for mid in (b"", b" ", b" 127.0.0.1 ", b" ::1 ", b" a b c ", b"  "):
            for tail_n in (1, 2, 3):
                for ci, ch in enumerate(chars):
                    idx += 1
                    if idx % n != k:
                        continue
                    tail = (ch * tail_n).encode()
                    yield ("v1-partial-multibyte", hx(h + mid + tail), {})
                    if ci == 0:
                        yield ("v1-partial-multibyte", hx(h + mid + tail + b"\r"), {})
                        yield ("v1-partial-multibyte", hx(h + mid + b"x" + tail), {})


def noise(tier, rng, k, n):
    rng = rng.fork("noise%d" % k)
    count = (3000 if tier == "quick" else 60000) // n
    for _ in range(count):
        if rng.chance(1, 3):
            yield ("v1-noise", hx(rng.bytes(rng.below(40))), {})
        else:
            line, _ = valid_line(rng)
            b = bytearray(line)
            for _ in range(1 + rng.below(3)):
                how = rng.below(3)
                pos = rng.below(len(b) + 1)
                if how == 0 and b:
                    del b[min(pos, len(b) - 1)]
                elif how == 1:
                    b.insert(pos, rng.choice(b" \r\n.:0+PTX\x00\xc3\xa9"))
                elif b:
                    b[min(pos, len(b) - 1)] = rng.choice(b" \r\n.:019+-PROXYTCPUNKNOWN\xff")
            yield ("v1-noise", hx(bytes(b)), {})


def multibyte_after_cr(tier, rng, k, n):
    """&str inputs with a 2-, 3- or 4-byte character right after the first CR and around offsets 105-108"""
    if k != 0:
        return
    chars = ["é", "€", "𝄞"]
    for pre in (b"", b"abc", b"PROXY UNKNOWN", b"PROXY TCP4 1.2.3.4 5.6.7.8 1 2", b"PROXY UNKNOWN x"):
        for c in chars:
            yield ("v1-multibyte", hx(pre + b"\r" + c.encode()), {})
            yield ("v1-multibyte", hx(pre + b"\r" + c.encode() + b"\n"), {})
            yield ("v1-multibyte", hx(pre + c.encode() + b"\r\n"), {})
            yield ("v1-multibyte", hx(pre + b"\r" + c.encode() + b"\r\n"), {})
            yield ("v1-multibyte", hx(pre + b" x\r" + c.encode() + b" y\r\nz"), {})
    for total in range(100, 110):
        for c in chars:
            e = c.encode()
            yield ("v1-multibyte", hx(b"PROXY UNKNOWN " + b"y" * (total - 14 - len(e)) + e), {})
            yield ("v1-multibyte", hx(b"PROXY UNKNOWN " + b"y" * (total - 14 - len(e)) + e + b"\r\n"), {})
            yield ("v1-multibyte", hx(b"y" * (total - len(e)) + e + e), {})


V1_STREAMS = (corpus, valid, mutations, slot_substitution, token_enum, length_boundary, tcp_length_boundary, cr_neighbours, partial_multibyte, noise, multibyte_after_cr)


# ---- Std streams --------------------------------------------------------------------------------

def std_cases(tier, rng, k, n):
    """inputs for the models of the standard library: (kind, expression)"""
    rng = rng.fork("std%d" % k)
    idx = 0

    def take():
        nonlocal idx
        idx += 1
        return idx % n == k

    # u16: all 65 536 canonical spellings (thorough) / a stride (quick), plus every string <= 4 over "0-9+-x" (5 in thorough)
    stride = 1 if tier != "quick" else 13
    for v in range(0, 65536, stride):
        if take():
            yield ("std-u16", ("u16", hx(str(v).encode())), {})
    for v in (65535, 65536, 65537, 99999, 100000, 655350, 4294967296):
        for pre in ("", "+", "0", "000", "-", "+0"):
            if take():
                yield ("std-u16", ("u16", hx((pre + str(v)).encode())), {})
    alpha = b"0159+-x"
    maxlen = 4 if tier == "quick" else 5
    for ln in range(0, maxlen + 1):
        for v in range(len(alpha) ** ln):
            if take():
                s, x = bytearray(), v
                for _ in range(ln):
                    s.append(alpha[x % len(alpha)])
                    x //= len(alpha)
                yield ("std-u16", ("u16", hx(bytes(s))), {})
    for v in range(0, 65536, stride):
        if take():
            yield ("std-fmtu16", ("fmtu16", hx(bytes([v >> 8, v & 255]))), {})
    # IPv4
    for a in range(256):
        for form in ("%d.1.1.1", "1.%d.2.3", "1.2.3.%d", "0%d.1.1.1", "1.1.1.0%d", "%d", "1.2.3.%d.", "1.2.3.+%d"):
            if take():
                yield ("std-ip4", ("ip4", hx((form % a).encode())), {})
        if take():
            yield ("std-fmt4", ("fmt4", hx(bytes([a, 255 - a, (a * 7) % 256, 0]))), {})
    for s in (b"", b"1.2.3", b"1.2.3.4.5", b"1.2.3.4 ", b" 1.2.3.4", b"255.255.255.255", b"256.0.0.0", b"1.2.3.256", b"1..2.3", b"1.2.3.",
              b"0.0.0.0", b"00.0.0.0", b"0.0.0.00", b"1.2.3.4\n", b"1.2.3.0004", b"1.2.3.1000", b"111.111.111.1111", b"a.b.c.d", "１.2.3.4".encode()):
        if take():
            yield ("std-ip4", ("ip4", hx(s)), {})
    # IPv6: all 256 zero masks x spellings, formatter on all masks, hand-picked edge cases
    from .v1gen import rand_groups as rg, spell_ip6 as sp6, groups_octets as go
    reps = 6 if tier == "quick" else 60
    for mask in range(256):
        for _ in range(reps):
            gs = rg(rng, mask)
            if take():
                yield ("std-ip6", ("ip6", hx(sp6(gs, rng))), {})
            if take():
                yield ("std-fmt6", ("fmt6", hx(go(gs))), {})
    edge = [b"::", b"::1", b"1::", b":::", b"::1::", b"1:2:3:4:5:6:7:8", b"1:2:3:4:5:6:7:8:9", b"1:2:3:4:5:6:7", b"1:2:3:4:5:6:7::", b"::2:3:4:5:6:7:8",
            b"1::3:4:5:6:7:8", b"1:2:3:4:5:6:7::8", b"::1.2.3.4", b"1.2.3.4::", b"::ffff:1.2.3.4", b"1:2:3:4:5:6:1.2.3.4", b"1:2:3:4:5:6:7:1.2.3.4",
            b"1:2:3:4:5:1.2.3.4", b"::1.2.3", b"::1.2.3.4.5", b"::01.2.3.4", b"::1.2.3.256", b"12345::", b"0ffff::", b"ffff::", b"FFFF::", b"g::", b"::g",
            b"1::2::3", b"1:::2", b":1", b"1:", b"::1 ", b" ::1", b"::1%1", b"[::1]", b"0:0:0:0:0:0:0:0", b"0000:0000:0000:0000:0000:0000:0000:0000",
            b"1:0:0:2:0:0:0:3", b"::ffff:0:1.2.3.4", b"::1.2.3.4:5", b"1.2.3.4", b"", b":", b"::1:2:3:4:5:6:7", b"1:2:3:4:5:6::", b"1:2:3:4:5::1.2.3.4",
            b"1:2:3:4::1.2.3.4", b"::0.0.0.0", b"::255.255.255.255"]
    for s in edge:
        if take():
            yield ("std-ip6", ("ip6", hx(s)), {})
    for o in (bytes(16), bytes([255] * 16), bytes(10) + b"\xff\xff\x01\x02\x03\x04", bytes(12) + b"\x01\x02\x03\x04", bytes(15) + b"\x01",
              b"\x00\x01" + bytes(14), bytes([0, 1, 0, 0, 0, 0, 0, 2, 0, 0, 0, 0, 0, 0, 0, 3])):
        if take():
            yield ("std-fmt6", ("fmt6", hx(o)), {})
    # UTF-8: every boundary of table 3-7
    leads = [0x00, 0x7F, 0x80, 0xBF, 0xC0, 0xC1, 0xC2, 0xDF, 0xE0, 0xE1, 0xEC, 0xED, 0xEE, 0xEF, 0xF0, 0xF1, 0xF3, 0xF4, 0xF5, 0xFF]
    conts = [0x00, 0x7F, 0x80, 0x8F, 0x90, 0x9F, 0xA0, 0xBF, 0xC0, 0xFF]
    for l0 in leads:
        if take():
            yield ("std-utf8", ("utf8", hx(bytes([l0]))), {})
        for c1 in conts:
            if take():
                yield ("std-utf8", ("utf8", hx(bytes([l0, c1]))), {})
            for c2 in (0x7F, 0x80, 0xBF, 0xC0):
                if take():
                    yield ("std-utf8", ("utf8", hx(bytes([l0, c1, c2]))), {})
                for c3 in (0x7F, 0x80, 0xBF, 0xC0):
                    if take():
                        yield ("std-utf8", ("utf8", hx(bytes([l0, c1, c2, c3]))), {})
                        yield ("std-utf8", ("utf8", hx(bytes([0x41, l0, c1, c2, c3, 0x42]))), {})
    for _ in range((2000 if tier == "quick" else 40000) // n):
        yield ("std-utf8", ("utf8", hx(rng.bytes(1 + rng.below(8)))), {})
