"""Input streams for the v2 parser, the TLV iterator and the auto-detecting parser (DESIGN 5.3).
Every stream function has the signature f(tier, rng, k, n) and yields (stream, bytes-expression, meta);
shard k of n enumerates only its share of a deterministic stream."""
from .lib import Rng, SIG, FAM_SIZE, be16, v2_fixed, enc_tlv, expr, fill, hx, special_ip6, special_ip4, class_pairs, crc32c

LENGTH_TABLE = [0, 11, 12, 13, 35, 36, 37, 215, 216, 217, 255, 256, 257, 65535]
VALID_VC = [0x20, 0x21]
VALID_FP = [f * 16 + p for f in range(4) for p in range(3)]


def payload_expr(rng, n):
    """n payload bytes: a random head of at most 260 bytes, the rest a fill (keeps case lines short)"""
    if n <= 260:
        return expr(rng.bytes(n))
    head = rng.bytes(250)
    return expr(head, fill(n - 250, rng.below(256)))


def control_space(tier, rng, k, n):
    """v2-1: all 65 536 control-byte pairs x declared lengths x bytes present (mostly rejections)."""
    rng = rng.fork("control%d" % k)
    for pair in range(k, 65536, n):
        vc, fp = pair >> 8, pair & 255
        fam = fp >> 4
        size = FAM_SIZE.get(fam, 0)
        near = [max(size - 1, 0), size, size + 1]
        if tier == "quick":
            lengths = [rng.choice(near), rng.choice(LENGTH_TABLE[:-1] if not rng.chance(1, 64) else LENGTH_TABLE)]
            deltas_for = lambda: [rng.choice([-1, 0, 0, 1, 7])]
        else:
            lengths = sorted(set(near + LENGTH_TABLE[:-1] + ([65535] if rng.chance(1, 16) else [])))
            deltas_for = lambda: [-1, 0, 1, 7]
        for declared in lengths:
            for delta in deltas_for():
                present = max(declared + delta, 0)
                yield ("v2-control", expr(v2_fixed(vc, fp, declared), payload_expr(rng, present)),
                       {"vc": vc, "fp": fp, "declared": declared, "present": present})


def dict_lengths(size):
    """declared lengths suggested by integers the current source mentions and the baseline tree did not"""
    from . import dictionary
    out = set()
    for v in dictionary.harvest()["novel_ints"]:
        for x in (v - 1, v, v + 1, v + size, v + size + 16):
            if 0 <= x <= 65535:
                out.add(x)
    return sorted(out)[:48]


def control_v2(tier, rng, k, n):
    """v2-1b: version nibble 2 with every command nibble x every family-transport byte: the part of the
    control space behind the version gate (commands, families, transports, length checks)"""
    rng = rng.fork("control2-%d" % k)
    idx = 0
    for vc in range(0x20, 0x30):
        for fp in range(256):
            idx += 1
            if idx % n != k:
                continue
            size = FAM_SIZE.get(fp >> 4, 0)
            near = sorted(set([max(size - 1, 0), size, size + 1]))
            if tier == "quick":
                lengths = near + [rng.choice(LENGTH_TABLE[:-1])]
                deltas_for = lambda: [rng.choice([-1, 0, 1, 7])]
            else:
                lengths = sorted(set(near + LENGTH_TABLE[:-1]))
                deltas_for = lambda: [-1, 0, 1, 7]
            if vc in VALID_VC and fp in VALID_FP:
                lengths = lengths + [x for x in dict_lengths(size) if x not in lengths]
            for declared in lengths:
                for delta in deltas_for():
                    present = max(declared + delta, 0)
                    yield ("v2-control-v2", expr(v2_fixed(vc, fp, declared), payload_expr(rng, present)),
                           {"vc": vc, "fp": fp, "declared": declared, "present": present})


def signature(tier, rng, k, n):
    """v2-2: every single-byte corruption of the signature, every prefix, prefix + wrong byte, sig + text."""
    rng = rng.fork("sig")
    base = v2_fixed(0x21, 0x11, 12) + bytes(range(1, 13))
    cases = []
    for i in range(12):
        for v in range(256):
            if v != SIG[i]:
                b = bytearray(base)
                b[i] = v
                cases.append(("v2-sig-corrupt", bytes(b), {"elem": "sig", "index": i}))
    # corruptions of two or three signature bytes at once, chosen so that a checksum-like comparison (xor fold, byte
    # sum, sorted bytes, first/last only) would not notice: equal xor deltas, +d/-d, swaps, three-way xor-cancelling
    deltas = [1, 0x20, 0x80, 0xFF] if tier == "quick" else list(range(1, 256))
    for i in range(12):
        for j in range(i + 1, 12):
            for d in deltas:
                b = bytearray(base)
                b[i] ^= d
                b[j] ^= d
                cases.append(("v2-sig-corrupt2", bytes(b), {"elem": "sig", "index": i}))
                b = bytearray(base)
                b[i] = (b[i] + d) & 255
                b[j] = (b[j] - d) & 255
                cases.append(("v2-sig-corrupt2", bytes(b), {"elem": "sig", "index": i}))
            if SIG[i] != SIG[j]:
                b = bytearray(base)
                b[i], b[j] = b[j], b[i]
                cases.append(("v2-sig-corrupt2", bytes(b), {"elem": "sig", "index": i}))
            for l in range(j + 1, 12):
                d1, d2 = 1 + rng.below(255), 1 + rng.below(255)
                if d1 != d2:
                    b = bytearray(base)
                    b[i] ^= d1
                    b[j] ^= d2
                    b[l] ^= d1 ^ d2
                    cases.append(("v2-sig-corrupt2", bytes(b), {"elem": "sig", "index": i}))
    for whole in (bytes(reversed(SIG)), bytes(sorted(SIG)), SIG[1:] + SIG[:1], bytes(x ^ 0x20 for x in SIG), SIG.lower(),
                  SIG[:6] + SIG[:6], SIG[6:] + SIG[6:], SIG[6:] + SIG[:6]):
        if whole != SIG:
            cases.append(("v2-sig-corrupt2", whole + base[12:], {"elem": "sig", "index": 0}))
    for i in range(0, 13):
        cases.append(("v2-sig-prefix", SIG[:i], {}))
        for wrong in (0, 13, 10, 80, 255):
            if i < 12 and wrong != SIG[i]:
                cases.append(("v2-sig-prefix-wrong", SIG[:i] + bytes([wrong]), {}))
    for i in range(12, 17):
        cases.append(("v2-sig-prefix", base[:i], {}))
    cases.append(("v2-sig-text", SIG + b"PROXY TCP4 1.1.1.1 2.2.2.2 1 2\r\n", {}))
    cases.append(("v2-sig-text", SIG + b"\r\n", {}))
    for idx, (s, b, m) in enumerate(cases):
        if idx % n == k:
            yield (s, hx(b), m)


SUB_TYPES = [0x21, 0x22, 0x23, 0x24, 0x25]


def structured_value(rng, k):
    """TLV values with the inner structure real proxies send (random bytes never have it): a value that is itself a
    well-formed TLV chain, the PP2_TYPE_SSL layout (client bit-field, 4-byte verify, sub-TLVs), text, a CRC"""
    def chain(types, nmax):
        out = bytearray()
        for _ in range(1 + rng.below(nmax)):
            v = rng.choice([b"", b"h2", b"TLSv1.3", b"example.com", b"ECDHE-RSA-AES128-GCM-SHA256", rng.bytes(rng.below(6))])
            out += enc_tlv(rng.choice(types), v)
        return bytes(out)
    pick = rng.below(5)
    if k == 3:
        # PP2_TYPE_CRC32C: four bytes, zero while the sender computes the checksum
        return rng.choice([bytes(4), bytes(4), rng.bytes(4), b"\xff\xff\xff\xff"])
    if k == 5:
        return rng.bytes(rng.choice([1, 16, 128]))          # PP2_TYPE_UNIQUE_ID: opaque, at most 128 bytes
    if k == 4:
        return bytes(rng.choice([0, 1, 5, 13]))             # PP2_TYPE_NOOP: padding, zeros
    if k == 0x20 or pick == 0:
        client = rng.choice([0, 1, 1, 3, 5, 7, 255])
        verify = rng.choice([bytes(4), bytes([0, 0, 0, 1]), rng.bytes(4)])
        tail = rng.choice([b"", chain(SUB_TYPES, 3), chain(SUB_TYPES, 3), chain(SUB_TYPES, 2)[:-1], rng.bytes(rng.below(5))])
        return bytes([client]) + verify + tail
    if pick == 1:
        return chain([1, 2, 3, 4, 5, 0x20, 0x30, rng.below(256)], 3)
    if pick == 2:
        return rng.choice([b"h2", b"http/1.1", b"example.com", b"\x00", b"ns-1", b"PROXY TCP4 1.1.1.1 2.2.2.2 1 2\r\n"])
    if pick == 3:
        return rng.bytes(4)
    return SIG


def random_tlvs(rng, budget, wellformed=True):
    """a TLV section of at most `budget` bytes"""
    out = bytearray()
    while True:
        if rng.chance(1, 4):
            break
        k = rng.choice([1, 2, 3, 4, 5, 0x20, 0x21, 0x22, 0x23, 0x24, 0x25, 0x30, 0, 255, rng.below(256)])
        if rng.chance(1, 10):
            from . import dictionary
            kk = dictionary.pick_int(rng, dictionary.harvest(), 256)
            k = k if kk is None else kk
        if rng.chance(1, 10):
            from . import dictionary
            v = bytes(dictionary.units(rng, 1 + rng.below(12), 256))
        elif rng.chance(1, 4):
            v = structured_value(rng, k)
        else:
            v = rng.bytes(rng.choice([0, 0, 1, 1, 2, 3, 4, 7, 8, 16, 255, 256, 257, 300, 1000]))
            if rng.chance(1, 8):
                v = bytes(len(v))                             # all-zero value (placeholders, padding)
        if len(out) + 3 + len(v) > budget:
            break
        out += enc_tlv(k, v)
    if not wellformed and out:
        how = rng.below(4)
        if how == 0:
            out = out[: rng.below(len(out))]
        elif how == 1:
            out += rng.bytes(1 + rng.below(2))
        elif how == 2:
            out += bytes([rng.below(256)]) + be16(len(out) + 1 + rng.below(5000)) + rng.bytes(rng.below(4))
        else:
            i = rng.below(len(out))
            out[i] = rng.below(256)
    return bytes(out)


def valid_header(rng, fam=None, big=False):
    """(header bytes as expression, info) for a random well-formed header"""
    vc = rng.choice(VALID_VC)
    if fam is None:
        fam = rng.below(4)
    fp = fam * 16 + rng.below(3)
    addr = rng.bytes(FAM_SIZE[fam])
    if rng.chance(1, 8):
        addr = bytes([rng.choice([0, 255, 1])]) * FAM_SIZE[fam]
    elif fam == 2 and rng.chance(1, 3):
        # structured IPv6 values: mapped / compatible / loopback ..., both or only one of the two
        a = special_ip6(rng) if rng.chance(3, 4) else rng.bytes(16)
        b = special_ip6(rng) if rng.chance(3, 4) else rng.bytes(16)
        addr = a + b + rng.bytes(4)
    elif fam == 1 and rng.chance(1, 4):
        addr = special_ip4(rng) + special_ip4(rng) + rng.bytes(4)
    if big:
        total = rng.choice([65535, 65534, 65535 - 3, 40000])
        room = total - len(addr)
        tl = random_tlvs(rng, min(room, 600), wellformed=rng.chance(3, 4))
        rest = room - len(tl)
        if rest >= 3:
            last = bytes([rng.below(256)]) + be16(rest - 3)
            tail_expr = expr(tl, last, fill(rest - 3, rng.below(256)))
        else:
            tail_expr = expr(tl, fill(rest, 0))
        return expr(v2_fixed(vc, fp, total), addr, tail_expr), {"vc": vc, "fp": fp, "declared": total, "fam": fam}
    tl = random_tlvs(rng, 700, wellformed=rng.chance(3, 4))
    declared = len(addr) + len(tl)
    return hx(v2_fixed(vc, fp, declared) + addr + tl), {"vc": vc, "fp": fp, "declared": declared, "fam": fam}


def checksummed_header(rng, fam=None):
    """a well-formed header whose TLV section carries a PP2_TYPE_CRC32C TLV with the *correct* checksum (CRC-32C of the
    whole header with the field zeroed, PROXY protocol 2.2.3) -- what HAProxy's `send-proxy-v2-ssl crc32c` puts on the wire.
    A correct 32-bit checksum is not something random, zero or dictionary values ever produce."""
    if fam is None:
        fam = rng.below(4)
    vc = rng.choice(VALID_VC)
    fp = fam * 16 + rng.below(3)
    addr = rng.bytes(FAM_SIZE[fam])
    def small():
        return enc_tlv(rng.choice([1, 2, 4, 5, 0x30, rng.below(256)]), rng.choice([b"", b"h2", b"example.com", rng.bytes(rng.below(6))]))
    before = b"".join(small() for _ in range(rng.below(3)))
    after = b"".join(small() for _ in range(rng.below(3)))
    body = addr + before + enc_tlv(3, bytes(4)) + after
    h = bytearray(v2_fixed(vc, fp, len(body)) + body)
    at = 16 + len(addr) + len(before) + 3
    c = crc32c(bytes(h))
    how = rng.below(8)
    if how == 0:
        c ^= 1 << rng.below(32)                 # off by one bit: must behave like any other value
    h[at:at + 4] = c.to_bytes(4, "little" if how == 1 else "big")
    return bytes(h), {"vc": vc, "fp": fp, "declared": len(body), "fam": fam}


def embedded_header(rng):
    """a well-formed header whose payload (address bytes of the unspecified family, or a TLV value) contains another
    complete well-formed v2 header, or a v1 line: a parser must not re-synchronise inside a payload"""
    inner_fam = rng.below(3)
    inner_addr = rng.bytes(FAM_SIZE[inner_fam])
    inner = rng.choice([v2_fixed(0x21, inner_fam * 16 + 1, len(inner_addr)) + inner_addr, v2_fixed(0x20, 0, 0),
                        b"PROXY TCP4 1.2.3.4 5.6.7.8 1 2\r\n", b"PROXY UNKNOWN\r\n"])
    fam = rng.below(4)
    addr = rng.bytes(FAM_SIZE[fam])
    if fam == 0 and rng.chance(1, 2):
        body = rng.bytes(rng.below(4)) + inner + rng.bytes(rng.below(4))
    else:
        body = addr + (enc_tlv(4, rng.bytes(rng.below(3))) if rng.chance(1, 2) else b"") + enc_tlv(rng.choice([4, 2, 0xE0]), inner + rng.bytes(rng.below(3)))
    vc = rng.choice(VALID_VC)
    fp = fam * 16 + rng.below(3)
    return v2_fixed(vc, fp, len(body)) + body, {"vc": vc, "fp": fp, "declared": len(body), "fam": fam}


def valid_headers(tier, rng, k, n):
    """valid-heavy stream: random well-formed headers (all families), some with trailers"""
    rng = rng.fork("valid%d" % k)
    # deterministic part: every ordered pair of address classes in an IPv6 / IPv4 block (value-keyed behaviour that
    # needs *both* addresses to be of a kind is then exercised on every run, not with probability p^2)
    crng = Rng(0xC1A55).fork("v2pairs")
    for fam, size in ((6, 2), (4, 1)):
        for a, b in class_pairs(crng, fam, k, n):
            vc = crng.choice(VALID_VC)
            fp = size * 16 + 1 + crng.below(2)
            tl = random_tlvs(crng, 60) if crng.chance(1, 2) else b""
            addr = a + b + crng.bytes(4)
            yield ("v2-valid", hx(v2_fixed(vc, fp, len(addr) + len(tl)) + addr + tl),
                   {"vc": vc, "fp": fp, "declared": len(addr) + len(tl), "fam": size})
    count = (20000 if tier == "quick" else 400000) // n
    for i in range(count // 20):
        b, info = checksummed_header(rng) if i % 2 else embedded_header(rng)
        yield ("v2-valid", hx(b + (rng.bytes(rng.below(6)) if rng.chance(1, 3) else b"")), info)
    for i in range(count):
        big = rng.chance(1, 400)
        e, info = valid_header(rng, big=big)
        if rng.chance(1, 3):
            e = expr(e, rng.bytes(1 + rng.below(20)))
        yield ("v2-valid", e, info)


def truncations(tier, rng, k, n):
    """v2-4: every prefix of valid headers of at most 300 bytes (stride above), plus header + trailer"""
    rng = rng.fork("trunc%d" % k)
    count = (600 if tier == "quick" else 8000) // n
    for i in range(count):
        if i % 5 == 3:
            b, info = checksummed_header(rng)
        elif i % 5 == 4:
            b, info = embedded_header(rng)
        else:
            e, info = valid_header(rng)
            b = bytes.fromhex(e) if e != "-" else b""
        L = len(b)
        cuts = list(range(0, min(L, 300))) + list(range(300, L, 251))
        for c in cuts:
            yield ("v2-prefix", hx(b[:c]), dict(info, cut=c, full=L))
        for t in (b"\x00", b"\r\n", SIG, b"PROXY UNKNOWN\r\n", rng.bytes(5)):
            yield ("v2-trailer", hx(b + t), dict(info, full=L))


ALPHA5 = [0, 1, 2, 3, 255]


def tlv_small(tier, rng, k, n):
    """v2-3a: every byte string over {0,1,2,3,255} up to length 7 (97 656 sections), exhaustive"""
    maxlen = 6 if tier == "quick" else 7
    idx = 0
    for ln in range(0, maxlen + 1):
        total = 5 ** ln
        for v in range(total):
            if idx % n == k:
                b = bytearray()
                x = v
                for _ in range(ln):
                    b.append(ALPHA5[x % 5])
                    x //= 5
                yield ("tlv-small", hx(bytes(b)), {})
            idx += 1


def tlv_lists(tier, rng, k, n):
    """v2-3b: well-formed lists with boundary value lengths, cut at every truncation point; random lists"""
    rng = rng.fork("tlvl%d" % k)
    count = (400 if tier == "quick" else 6000) // n
    for i in range(count):
        items = []
        for _ in range(1 + rng.below(4)):
            ln = rng.choice([0, 1, 2, 3, 255, 256, 257, 1000])
            kk = rng.choice([rng.below(256), rng.below(256), 0x20])
            items.append(enc_tlv(kk, structured_value(rng, kk) if rng.chance(1, 4) else rng.bytes(ln)))
        b = b"".join(items)
        L = len(b)
        if L <= 400:
            cuts = range(0, L + 1)
        else:
            marks = set()
            off = 0
            for it in items:
                for d in (-1, 0, 1, 2, 3, 4):
                    marks.add(off + d)
                off += len(it)
            marks.update([L - 2, L - 1, L])
            cuts = sorted(c for c in marks if 0 <= c <= L)
        for c in cuts:
            yield ("tlv-trunc", hx(b[:c]), {})
    for i in range(count * 20):
        yield ("tlv-random", hx(random_tlvs(rng, 900, wellformed=rng.chance(1, 2))), {})
    for j, (sec, ln) in enumerate(literal_headed_sections()):
        if j % n == k:
            yield ("tlv-literal", sec, {})
    # a single value of 65 535 / 65 534 bytes, exact fit and one byte short
    if k == 0:
        for ln in (65535, 65534, 65533):
            for present in (ln, ln - 1):
                yield ("tlv-big", expr(bytes([7]) + be16(ln), fill(present, 0xAB)), {})
            yield ("tlv-big", expr(bytes([7]) + be16(ln), fill(ln, 0xAB), bytes([9, 0, 0])), {})
            yield ("tlv-big", expr(bytes([7]) + be16(ln), fill(ln, 0xAB), bytes([9, 0])), {})


def max_headers(tier, rng, k, n):
    """v2-max: complete headers whose declared length is at or just below the 16-bit maximum, of each family, alone and
    followed by bytes -- the largest buffers a receiver must accept (16 + 65 535 bytes).  Every property stream that
    caps its input size for speed never saw them; a limit that is a few bytes short of 65 551 shows only here."""
    idx = 0
    for declared in (65535, 65534, 65533, 65532, 65531, 65530, 65520, 65519):
        for fam in range(4):
            for trailer in (b"", b"x", SIG + bytes(4)):
                idx += 1
                if idx % n != k:
                    continue
                addr = bytes((13 * i + fam) % 256 for i in range(FAM_SIZE[fam]))
                rest = declared - len(addr)
                yield ("v2-max", expr(v2_fixed(0x21, fam * 16 + 1, declared), addr, bytes([4]) + be16(rest - 3), fill(rest - 3, 0), trailer),
                       {"vc": 0x21, "fp": fam * 16 + 1, "declared": declared, "fam": fam})


def literal_headed_sections():
    """TLV sections in which a TLV boundary is followed by a protocol literal -- the v2 signature, the v1 keywords, every
    byte-string literal of the crate's source -- read as (type, big-endian length) with a value that fits exactly, is
    followed by another TLV, or is one byte short.  A walk must treat such bytes as the TLV they spell (the signature is
    type 0x0D, length 0x0A0D), never as a header to re-synchronise on; random values never put a literal at a boundary
    with thousands of bytes behind it.  Yields (expression, total length)."""
    from . import dictionary
    lits = [SIG, b"PROXY ", b"PROXY TCP4 ", b"PROXY TCP6 ", b"PROXY UNKNOWN\r\n", b"\r\n\r\n", b"UNKNOWN"]
    for s_ in dictionary.harvest().get("strs", []):
        if 3 <= len(s_) <= 24 and s_ not in lits:
            lits.append(bytes(s_))
    for L in lits[:24]:
        n = L[1] * 256 + L[2]
        body = L[3:]
        for pre in (b"", enc_tlv(4, b""), enc_tlv(1, b"h2") + enc_tlv(0x20, bytes([1, 0, 0, 0, 0]))):
            if n >= len(body):
                pad = n - len(body)
                yield expr(pre, L, fill(pad, 0x41), enc_tlv(9, b"xy")), len(pre) + 3 + n + 5
                yield expr(pre, L, fill(pad, 0x41)), len(pre) + 3 + n
                if pad > 0:
                    yield expr(pre, L, fill(pad - 1, 0x41)), len(pre) + 3 + n - 1
            else:
                yield expr(pre, L, enc_tlv(9, b"xy")), len(pre) + len(L) + 5


def header_tlvs(tier, rng, k, n):
    """TLV sections as the tail of a header of each family (htlv / views / round-trip streams)"""
    rng = rng.fork("htlv%d" % k)
    count = (4000 if tier == "quick" else 60000) // n
    for i in range(count):
        fam = rng.below(4)
        if i % 16 == 7:
            b, info = checksummed_header(rng, fam=fam)
            yield ("v2-header-tlvs", hx(b), info)
            continue
        e, info = valid_header(rng, fam=fam, big=rng.chance(1, 300))
        yield ("v2-header-tlvs", e, info)
    for j, (sec, ln) in enumerate(literal_headed_sections()):
        if j % n != k:
            continue
        fam = j % 4
        addr = bytes((11 * i + fam) % 256 for i in range(FAM_SIZE[fam]))
        if len(addr) + ln <= 65535:
            yield ("v2-header-literal-tlvs", expr(v2_fixed(0x21, fam * 16 + 1, len(addr) + ln), addr, sec), {"fam": fam})
    idx = 0
    for ln in range(0, 5):
        for v in range(5 ** ln):
            if idx % n == k:
                b = bytearray()
                x = v
                for _ in range(ln):
                    b.append(ALPHA5[x % 5])
                    x //= 5
                for fam in range(4):
                    addr = bytes((7 * j + fam) % 256 for j in range(FAM_SIZE[fam]))
                    yield ("v2-header-small-tlvs",
                           hx(v2_fixed(0x21, fam * 16 + 1, len(addr) + len(b)) + addr + bytes(b)),
                           {"fam": fam})
            idx += 1
