"""Shared helpers for the case generators: a SplitMix64 PRNG (every random choice of a run derives from
VERIF_SEED through it), hex / bytes-expression helpers and v2 header assembly."""

MASK = (1 << 64) - 1


class Rng:
    """SplitMix64; `fork(label)` derives an independent stream from a string label."""

    def __init__(self, seed):
        self.s = seed & MASK

    def next(self):
        self.s = (self.s + 0x9E3779B97F4A7C15) & MASK
        z = self.s
        z = ((z ^ (z >> 30)) * 0xBF58476D1CE4E5B9) & MASK
        z = ((z ^ (z >> 27)) * 0x94D049BB133111EB) & MASK
        return z ^ (z >> 31)

    def below(self, n):
        return self.next() % n

    def chance(self, num, den):
        return self.below(den) < num

    def choice(self, seq):
        return seq[self.below(len(seq))]

    def bytes(self, n):
        out = bytearray()
        while len(out) < n:
            out += self.next().to_bytes(8, "little")
        return bytes(out[:n])

    def fork(self, label):
        h = 0xCBF29CE484222325
        for ch in str(label).encode():
            h = ((h ^ ch) * 0x100000001B3) & MASK
        return Rng(self.s ^ h)


def hx(b):
    """hex of a bytes object, '-' when empty (case-file syntax)"""
    return b.hex() if b else "-"


def fill(n, byte):
    return "fill:%d:%02x" % (n, byte)


def expr(*pieces):
    """join pieces (bytes objects or ready-made expression strings) into a bytes expression"""
    out = []
    for p in pieces:
        if isinstance(p, (bytes, bytearray)):
            if p:
                out.append(bytes(p).hex())
        elif p and p != "-":
            out.append(p)
    return "+".join(out) if out else "-"


def expr_len(e):
    n = 0
    for p in e.split("+"):
        if p == "-" or not p:
            continue
        if p.startswith("fill:"):
            n += int(p.split(":")[1])
        else:
            n += len(p) // 2
    return n


def expr_bytes(e):
    out = bytearray()
    for p in e.split("+"):
        if p == "-" or not p:
            continue
        if p.startswith("fill:"):
            _, n, b = p.split(":")
            out += bytes([int(b, 16)]) * int(n)
        else:
            out += bytes.fromhex(p)
    return bytes(out)


SIG = bytes([13, 10, 13, 10, 0, 13, 10, 81, 85, 73, 84, 10])
FAM_SIZE = {0: 0, 1: 12, 2: 36, 3: 216}


def be16(n):
    return bytes([(n >> 8) & 255, n & 255])


def v2_fixed(vc, fp, declared):
    return SIG + bytes([vc, fp]) + be16(declared)


def enc_tlv(k, v):
    return bytes([k]) + be16(len(v)) + v


def special_ip6(rng):
    """address values with structure that random bytes never produce"""
    v4 = rng.bytes(4)
    return rng.choice([
        bytes(10) + b"\xff\xff" + v4,            # ::ffff:a.b.c.d (IPv4-mapped)
        bytes(12) + v4,                            # ::a.b.c.d (IPv4-compatible)
        bytes(15) + b"\x01",                      # ::1
        bytes(16), bytes([255] * 16),
        b"\x20\x01\x0d\xb8" + bytes(11) + rng.bytes(1),
        b"\xfe\x80" + bytes(6) + rng.bytes(8),
        b"\xfe\x80\x00" + bytes([1 + rng.below(255)]) + bytes(4) + rng.bytes(8),      # fe80:<zone>::… (KAME-style embedded zone)
        b"\xfe\xbf" + rng.bytes(14),
        bytes(10) + b"\xff\xff" + bytes([127, 0, 0, 1]),
    ])


def special_ip4(rng):
    return rng.choice([bytes(4), bytes([255] * 4), bytes([127, 0, 0, 1]), bytes([10, 0, 0, rng.below(256)]), bytes([192, 168, 1, 1])])
