"""Shared helpers for the case generators: a SplitMix64 PRNG (every random choice of a run derives from
VERIF_SEED through it), hex / bytes-expression helpers and v2 header assembly."""

MASK = (1 << 64) - 1


class Rng:
    """SplitMix64; `fork(label)` derives an independent stream from a string label."""

    def __init__(self, seed):
        self.s = seed & MASK

    def next(self):
        self.s = (self.s + 0x9E3779B97F4A7C15) & MASK
        z = self.s
        z = ((z ^ (z >> 30)) * 0xBF58476D1CE4E5B9) & MASK
        z = ((z ^ (z >> 27)) * 0x94D049BB133111EB) & MASK
        return z ^ (z >> 31)

    def below(self, n):
        return self.next() % n

    def chance(self, num, den):
        return self.below(den) < num

    def choice(self, seq):
        return seq[self.below(len(seq))]

    def bytes(self, n):
        out = bytearray()
        while len(out) < n:
            out += self.next().to_bytes(8, "little")
        return bytes(out[:n])

    def fork(self, label):
        h = 0xCBF29CE484222325
        for ch in str(label).encode():
            h = ((h ^ ch) * 0x100000001B3) & MASK
        return Rng(self.s ^ h)


def hx(b):
    """hex of a bytes object, '-' when empty (case-file syntax)"""
    return b.hex() if b else "-"


def fill(n, byte):
    return "fill:%d:%02x" % (n, byte)


def expr(*pieces):
    """join pieces (bytes objects or ready-made expression strings) into a bytes expression"""
    out = []
    for p in pieces:
        if isinstance(p, (bytes, bytearray)):
            if p:
                out.append(bytes(p).hex())
        elif p and p != "-":
            out.append(p)
    return "+".join(out) if out else "-"


def expr_len(e):
    n = 0
    for p in e.split("+"):
        if p == "-" or not p:
            continue
        if p.startswith("fill:"):
            n += int(p.split(":")[1])
        else:
            n += len(p) // 2
    return n


def expr_bytes(e):
    out = bytearray()
    for p in e.split("+"):
        if p == "-" or not p:
            continue
        if p.startswith("fill:"):
            _, n, b = p.split(":")
            out += bytes([int(b, 16)]) * int(n)
        else:
            out += bytes.fromhex(p)
    return bytes(out)


SIG = bytes([13, 10, 13, 10, 0, 13, 10, 81, 85, 73, 84, 10])
FAM_SIZE = {0: 0, 1: 12, 2: 36, 3: 216}


def be16(n):
    return bytes([(n >> 8) & 255, n & 255])


def v2_fixed(vc, fp, declared):
    return SIG + bytes([vc, fp]) + be16(declared)


def enc_tlv(k, v):
    return bytes([k]) + be16(len(v)) + v


def dict_ip6(rng):
    """16 octets built from the source dictionary (gen/dictionary.py): as eight groups or as sixteen octets"""
    from . import dictionary
    if rng.chance(2, 3):
        gs = dictionary.units(rng, 8, 65536)
        return b"".join(bytes([g >> 8, g & 255]) for g in gs)
    return bytes(dictionary.units(rng, 16, 256))


def dict_ip4(rng):
    from . import dictionary
    return bytes(dictionary.units(rng, 4, 256))


WELL_KNOWN_PREFIXES = [
    b"\x00\x64\xff\x9b" + bytes(8),            # 64:ff9b::/96      NAT64 (RFC 6052)
    b"\x00\x64\xff\x9b\x00\x01" + bytes(6),    # 64:ff9b:1::/48    local-use NAT64
    b"\x20\x02",                               # 2002::/16         6to4
    b"\x20\x01\x00\x00",                       # 2001::/32         Teredo
    b"\x20\x01\x0d\xb8",                       # 2001:db8::/32     documentation
    b"\xff\x02" + bytes(10),                    # ff02::/16         link-local multicast
    b"\xff\x0e",                               # global multicast
    b"\xfc\x00", b"\xfd",                      # fc00::/7          unique local
    b"\xfe\xc0",                               # fec0::/10         site-local
    bytes(8) + b"\xff\xff\x00\x00",            # ::ffff:0:0:0/96   SIIT
    b"\x01\x00" + bytes(6),                    # 100::/64          discard
    bytes(10) + b"\xff\xff",                    # ::ffff:0:0/96     IPv4-mapped
    bytes(12),                                  # ::/96             IPv4-compatible
]


def special_ip6(rng):
    """address values with structure that random bytes never produce"""
    v4 = rng.bytes(4)
    if rng.chance(1, 4):
        p = rng.choice(WELL_KNOWN_PREFIXES)
        return p + (rng.bytes(16 - len(p)) if rng.chance(3, 4) else bytes(15 - len(p)) + b"\x01")
    if rng.chance(1, 4):
        return dict_ip6(rng)
    return rng.choice([
        bytes(10) + b"\xff\xff" + v4,            # ::ffff:a.b.c.d (IPv4-mapped)
        bytes(12) + v4,                            # ::a.b.c.d (IPv4-compatible)
        bytes(15) + b"\x01",                      # ::1
        bytes(16), bytes([255] * 16),
        b"\x20\x01\x0d\xb8" + bytes(11) + rng.bytes(1),
        b"\xfe\x80" + bytes(6) + rng.bytes(8),
        b"\xfe\x80\x00" + bytes([1 + rng.below(255)]) + bytes(4) + rng.bytes(8),      # fe80:<zone>::… (KAME-style embedded zone)
        b"\xfe\xbf" + rng.bytes(14),
        bytes(10) + b"\xff\xff" + bytes([127, 0, 0, 1]),
    ])


def special_ip4(rng):
    if rng.chance(1, 4):
        return dict_ip4(rng)
    if rng.chance(1, 3):
        return rng.choice([bytes([169, 254, rng.below(256), rng.below(256)]), bytes([100, 64 + rng.below(64), 0, 1]),
                           bytes([224, 0, 0, rng.below(256)]), bytes([172, 16 + rng.below(16), 1, 1]), bytes([192, 0, 2, 1]),
                           bytes([198, 18, 0, 1]), bytes([240, 0, 0, 1]), bytes([0, 0, 0, 1]), bytes([127, 255, 255, 254])])
    return rng.choice([bytes(4), bytes([255] * 4), bytes([127, 0, 0, 1]), bytes([10, 0, 0, rng.below(256)]), bytes([192, 168, 1, 1])])


def ip6_classes(rng):
    """one representative of every structured IPv6 class the streams know (incl. tuples the source dictionary found
    and the baseline tree did not have); used for the deterministic class x class product of every address-carrying site"""
    from . import dictionary
    r4 = rng.bytes(4)
    out = [
        bytes(16), bytes(15) + b"\x01", bytes([255] * 16),
        bytes(10) + b"\xff\xff" + r4, bytes(10) + b"\xff\xff" + bytes([127, 0, 0, 1]), bytes(10) + b"\xff\xff" + bytes(4),
        bytes(12) + r4,
        b"\xfe\x80" + bytes(6) + rng.bytes(8), b"\xfe\x80\x00" + bytes([1 + rng.below(255)]) + bytes(4) + rng.bytes(8), b"\xfe\xbf" + rng.bytes(14),
        b"\x20\x01\x0d\xb8" + rng.bytes(12), b"\x2a" + rng.bytes(15), rng.bytes(16),
    ]
    for p in WELL_KNOWN_PREFIXES[:11]:
        out.append(p + rng.bytes(16 - len(p)))
    d = dictionary.harvest()
    for t in d["novel_tuples"][:6]:
        if all(v < 65536 for v in t):
            gs = (list(t)[:8] + [rng.below(65536) for _ in range(8)])[:8]
            out.append(b"".join(bytes([g >> 8, g & 255]) for g in gs))
        if all(v < 256 for v in t):
            out.append(bytes((list(t)[:16] + list(rng.bytes(16)))[:16]))
    for v in [v for v in d["novel_ints"] if v < 65536][:4]:
        out.append(bytes([v >> 8, v & 255]) + rng.bytes(14))
    return out


def ip4_classes(rng):
    from . import dictionary
    out = [bytes(4), bytes([255] * 4), bytes([127, 0, 0, 1]), bytes([10, 0, 0, rng.below(256)]), bytes([192, 168, 1, 1]),
           bytes([169, 254, 1, 2]), bytes([100, 64, 0, 1]), bytes([224, 0, 0, 1]), bytes([172, 16, 1, 1]), bytes([192, 0, 2, 1]),
           bytes([198, 18, 0, 1]), bytes([240, 0, 0, 1]), bytes([0, 0, 0, 1]), rng.bytes(4)]
    d = dictionary.harvest()
    for t in d["novel_tuples"][:6]:
        if all(v < 256 for v in t):
            out.append(bytes((list(t)[:4] + list(rng.bytes(4)))[:4]))
    return out


def class_pairs(rng, fam, k, n):
    """shard k of n of the ordered pairs (source class, destination class) for IPv4 (fam 4) or IPv6 (fam 6)"""
    cs = ip4_classes(rng) if fam == 4 else ip6_classes(rng)
    idx = 0
    for a in cs:
        for b in cs:
            if idx % n == k:
                yield a, b
            idx += 1


_CRC32C_TABLE = []


def crc32c(data):
    """CRC-32C (Castagnoli), as PP2_TYPE_CRC32C prescribes (reflected polynomial 0x82F63B78)"""
    if not _CRC32C_TABLE:
        for i in range(256):
            c = i
            for _ in range(8):
                c = (c >> 1) ^ 0x82F63B78 if c & 1 else c >> 1
            _CRC32C_TABLE.append(c)
    c = 0xFFFFFFFF
    for b in data:
        c = _CRC32C_TABLE[(c ^ b) & 255] ^ (c >> 8)
    return c ^ 0xFFFFFFFF
