"""Builder histories and stand-alone writer cases (DESIGN 5.3, builder / writer streams).
A history is (ctor string, [op strings]) in the case-file syntax of the harness."""
from .lib import Rng, FAM_SIZE, expr, fill, hx, special_ip6, special_ip4, class_pairs

INT_KINDS = [("u8", 8, False), ("u16", 16, False), ("u32", 32, False), ("u64", 64, False), ("u128", 128, False),
             ("usize", 64, False), ("i8", 8, True), ("i16", 16, True), ("i32", 32, True), ("i64", 64, True),
             ("i128", 128, True), ("isize", 64, True), ("r32", 32, False)]


def rand_int(rng):
    kind, bits, signed = rng.choice(INT_KINDS)
    lo, hi = (-(1 << (bits - 1)), (1 << (bits - 1)) - 1) if signed else (0, (1 << bits) - 1)
    pick = rng.below(6)
    if pick == 0:
        v = lo
    elif pick == 1:
        v = hi
    elif pick == 2:
        v = -1 if signed else 1
    elif pick == 3:
        v = 0
    else:
        v = lo + int.from_bytes(rng.bytes(16), "big") % (hi - lo + 1)
    return "%s:%d" % (kind, v)


def rand_addr(rng, fam=None):
    if fam is None:
        fam = rng.below(4)
    if fam == 0:
        return "N"
    if fam == 1:
        return "4,%s,%s,%d,%d" % (hx(rng.bytes(4)), hx(rng.bytes(4)), rng.below(65536), rng.below(65536))
    if fam == 2:
        a = special_ip6(rng) if rng.chance(1, 3) else rng.bytes(16)
        b = special_ip6(rng) if rng.chance(1, 3) else rng.bytes(16)
        return "6,%s,%s,%d,%d" % (hx(a), hx(b), rng.below(65536), rng.below(65536))
    return "X,%s,%s" % (hx(rng.bytes(108)), hx(rng.bytes(108)))


def rand_bytes_expr(rng, big_ok=True):
    if rng.chance(1, 10):
        # all-zero / all-ones values of the canonical small sizes (checksum placeholders, padding)
        return fill(rng.choice([1, 2, 4, 4, 8, 16]), rng.choice([0, 0, 255]))
    pick = rng.below(40 if big_ok else 20)
    if pick < 12:
        return hx(rng.bytes(rng.below(6)))
    if pick < 18:
        return hx(rng.bytes(rng.choice([16, 100, 255, 256, 257])))
    if pick < 20:
        return expr(rng.bytes(8), fill(rng.choice([1000, 5000]), rng.below(256)))
    if pick < 38:
        return hx(rng.bytes(rng.below(12)))
    if pick == 38:
        return expr(rng.bytes(3), fill(rng.choice([65532, 65533, 30000]), rng.below(256)))     # 65535 / 65536 / 30003 bytes
    return fill(rng.choice([65535, 65536, 65534]), rng.below(256))


def rand_payload(rng, big_ok=True):
    pick = rng.below(10)
    if pick < 3:
        return rand_int(rng)
    if pick == 3:
        return "b:" + rand_bytes_expr(rng, big_ok)
    if pick == 4:
        return "a:" + rand_addr(rng)
    if pick == 5:
        return "t:%d:%s" % (rng.below(256), rand_bytes_expr(rng, big_ok))
    if pick == 6:
        return "q:%d:%s" % (rng.below(256), rand_bytes_expr(rng, big_ok))
    if pick == 7:
        return "Q:%d:%s" % (rng.below(12), rand_bytes_expr(rng, False))
    if pick == 8:
        if rng.chance(1, 3):
            # a section value that has already been (partly) iterated: well-formed items so that next() advances
            items = b"".join(bytes([rng.below(256), 0, n]) + rng.bytes(n) for n in [rng.below(4) for _ in range(1 + rng.below(3))])
            return "S:%d:%s" % (1 + rng.below(3), hx(items + rng.bytes(rng.below(3))))
        return "s:" + rand_bytes_expr(rng, big_ok)
    return "y:%d" % rng.below(12)


def rand_ctor(rng):
    if rng.chance(1, 2):
        return "N,%d,%d" % (rng.choice([0x20, 0x21, rng.below(256)]), rng.choice([0x00, 0x11, 0x21, 0x31, rng.below(256)]))
    return "W,%d,%d,%s" % (rng.choice([0x20, 0x21, rng.below(256)]), rng.below(3), rand_addr(rng))


def rand_op(rng, big_ok=True):
    pick = rng.below(12)
    if pick == 0:
        return "R=%d" % rng.choice([0, 1, 3, 64, 1000, 100000])
    if pick == 1:
        return "L=-"
    if pick in (2, 3):
        return "L=%d" % rng.choice([0, 1, 5, 12, 255, 256, 65535, rng.below(65536)])
    if pick in (4, 5, 6, 7):
        return "P=" + rand_payload(rng, big_ok)
    if pick in (8, 9):
        k = rng.below(4)
        return "B=" + ("|".join(rand_payload(rng, big_ok) for _ in range(k)) if k else "-")
    if pick == 10:
        return "T=%d:%s" % (rng.choice([rng.below(256), rng.choice([1, 2, 3, 4, 5, 0x20, 0x21, 0x22, 0x23, 0x24, 0x25, 0x30])]), rand_bytes_expr(rng, big_ok))
    return "TT=%d:%s" % (rng.below(12), rand_bytes_expr(rng, False))


def class_pair_addrs(k, n):
    crng = Rng(0xC1A55).fork("bpairs")
    for fam in (6, 4):
        for a, b in class_pairs(crng, fam, k, n):
            yield "%d,%s,%s,%d,%d" % (fam, hx(a), hx(b), 1 + crng.below(65535), 1 + crng.below(65535))


def random_histories(tier, rng, k, n):
    rng = rng.fork("hist%d" % k)
    for a in class_pair_addrs(k, n):
        # both constructors and the address block as a payload, with and without a TLV after it
        yield ("build-random", ("W,33,1," + a, ["T=4:2a"] if rng.chance(1, 2) else []), {})
        yield ("build-random", ("N,33,%d" % (0x21 if a[0] == "6" else 0x11), ["P=a:" + a]), {})
    count = (30000 if tier == "quick" else 600000) // n
    for _ in range(count):
        c = rand_ctor(rng)
        ln = rng.below(17) if rng.chance(1, 4) else rng.below(6)
        big_ok = rng.chance(1, 30)
        ops = [rand_op(rng, big_ok) for _ in range(ln)]
        yield ("build-random", (c, ops), {})


SMALL_OPS = ["R=0", "R=3", "L=-", "L=0", "L=5", "P=u8:7", "P=b:0102", "T=4:2a", "B=u8:1|u8:2", "B=-"]


def exhaustive_histories(tier, rng, k, n):
    """every history over a small op alphabet up to depth 3 (quick) / 4 (thorough) from both constructors:
    every placement of set_length relative to the first write"""
    depth = 3 if tier == "quick" else 4
    ctors = ["N,33,17", "W,33,1,4,01020304,05060708,258,772"]
    idx = 0
    for d in range(depth + 1):
        for v in range(len(SMALL_OPS) ** d):
            if idx % n == k:
                ops, x = [], v
                for _ in range(d):
                    ops.append(SMALL_OPS[x % len(SMALL_OPS)])
                    x //= len(SMALL_OPS)
                for c in ctors:
                    yield ("build-exhaustive", (c, ops), {})
            idx += 1


def size_boundary(tier, rng, k, n):
    """payload totals of 65 533 .. 65 538 bytes reached by one, two or many writes; explicit length on/off"""
    rng = rng.fork("size%d" % k)
    idx = 0
    for total in range(65531, 65540):
        for shape in range(6):
            for force in ("", "L=9;", "L=9;L=-;"):
                idx += 1
                if idx % n != k:
                    continue
                if shape == 0:
                    ops = ["P=s:" + fill(total, 1)] if total > 65535 else ["P=b:" + fill(total, 1)]
                elif shape == 1:
                    ops = ["P=b:" + fill(total - 7, 2), "P=b:" + fill(7, 3)]
                elif shape == 2:
                    ops = ["T=9:" + fill(total - 3, 4)] if total - 3 >= 0 else []
                elif shape == 3:
                    ops = ["P=b:" + fill(30000, 5), "B=b:%s|u32:1|b:%s" % (fill(30000, 6), fill(total - 60004, 7))]
                elif shape == 4:
                    ops = ["P=s:" + fill(total - 1, 8), "P=y:3"]
                else:
                    ops = ["P=b:" + fill(total // 2, 9), "R=10", "P=b:" + fill(total - total // 2, 10)]
                if force:
                    pos = rng.below(len(ops) + 1)
                    ops = ops[:pos] + force.rstrip(";").split(";") + ops[pos:]
                for c in ("N,33,0", "W,33,1,4,01020304,05060708,1,2"):
                    yield ("build-size", (c, ops), {})
    # values of 65 534 .. 65 537 bytes for each length-checked kind, single / batch / write_tlv
    for ln in (65534, 65535, 65536, 65537):
        for form in ("P=b:%s", "P=t:1:%s", "P=q:1:%s", "T=1:%s", "B=u8:1|t:1:%s", "B=b:%s|u8:2", "P=Q:3:%s"):
            idx += 1
            if idx % n == k:
                yield ("build-bigvalue", ("N,33,0", ["L=1", form % fill(ln, 0x55)]), {})


def long_batches(tier, rng, k, n):
    """batches of more items than the buffer can hold bytes: most items encode to nothing (empty slices, empty sections), a few
    do not; the same items one call at a time; repeated empty batches.  Counts, not sizes, are what varies here."""
    if k != 0:
        return
    for ctor in ("N,33,17", "W,33,1,4,01020304,05060708,258,772"):
        for count in (65551, 65552, 65553, 65600, 70000, 131073):
            yield ("build-long-batch", (ctor, ["B=%d*b:-|b:010203" % count]), {})
            yield ("build-long-batch", (ctor, ["B=%d*s:-|u8:7|%d*b:-|u16:258" % (count // 2, count - count // 2)]), {})
        yield ("build-long-batch", (ctor, ["B=40000*b:-|u8:1|30000*b:-|u8:2", "L=-"]), {})
        yield ("build-long-batch", (ctor, ["B=3000*u8:9|70000*b:-|u8:1"]), {})      # (the list model appends in O(n): many non-empty items would be quadratic)
        yield ("build-long-batch", (ctor, ["B=300*t:4:-|u8:1"]), {})


def parse_round_trip(tier, rng, k, n):
    """valid-command builds with TLV lists (C07): every type byte, value lengths 0..65535, totals of exactly 65 535"""
    rng = rng.fork("c07-%d" % k)
    for a in class_pair_addrs(k, n):
        yield ("build-wire", ("C,1,1," + a, ["T=4:2a"] if rng.chance(1, 2) else []), {"fam": 2 if a[0] == "6" else 1})
    count = (8000 if tier == "quick" else 120000) // n
    for i in range(count):
        fam = rng.below(4)
        a = rand_addr(rng, fam)
        c = "C,%d,%d,%s" % (rng.below(2), rng.below(3), a)
        ops = []
        budget = 65535 - FAM_SIZE[fam]
        exact = rng.chance(1, 200)
        nt = rng.below(5)
        for _ in range(nt):
            zero = rng.chance(1, 6)
            ln = rng.choice([4, 4, 1, 8]) if zero else rng.choice([0, 0, 1, 2, 3, 16, 255, 256, 300])
            if budget < 3 + ln:
                break
            budget -= 3 + ln
            kind = rng.choice([rng.below(256), rng.choice([1, 2, 3, 4, 5, 0x20, 0x21, 0x22, 0x23, 0x24, 0x25, 0x30])])
            form = rng.below(4)
            v = hx(bytes(ln) if zero else rng.bytes(ln))     # all-zero values: checksum placeholders, padding
            if form == 0:
                ops.append("T=%d:%s" % (kind, v))
            elif form == 1:
                ops.append("P=t:%d:%s" % (kind, v))
            elif form == 2:
                ops.append("P=q:%d:%s" % (kind, v))
            else:
                t = rng.below(12)
                ops.append("TT=%d:%s" % (t, v))
        if exact and budget >= 3:
            ops.append("T=%d:%s" % (rng.below(256), fill(budget - 3, rng.below(256))))
        if rng.chance(1, 3) and ops:
            # the same TLVs handed over as batches (TLV structs and (type, bytes) pairs are the batchable forms); the harness
            # passes a batch as a Vec, as a filtering iterator or as a from_fn iterator, by position
            items = []
            for o in ops:
                k, arg = o.split("=", 1)
                if k == "P":
                    items.append(arg)
                elif k == "T":
                    items.append("t:" + arg)
                else:
                    items = None
                    break
            if items:
                cut = rng.below(len(items) + 1)
                ops = [("B=" + "|".join(part)) for part in (items[:cut], items[cut:]) if part] + (["B=-"] if rng.chance(1, 4) else [])
        yield ("build-wire", (c, ops), {"fam": fam})


def writer_cases(tier, rng, k, n):
    """C20: every payload kind into empty, small and nearly-full writers"""
    rng = rng.fork("write%d" % k)
    for a in class_pair_addrs(k, n):
        yield ("write", ("-" if rng.chance(1, 2) else "0102", "a:" + a), {})
    count = (40000 if tier == "quick" else 500000) // n
    for i in range(count):
        p = rand_payload(rng, big_ok=rng.chance(1, 40))
        pick = rng.below(20)
        if pick < 8:
            pre = "-"
        elif pick < 16:
            pre = hx(rng.bytes(1 + rng.below(40)))
        elif pick < 19:
            pre = fill(rng.choice([16, 1000, 60000, 65000]), rng.below(256))
        else:
            pre = fill(65530 + rng.below(31), rng.below(256))     # the band around the limit
        if rng.chance(1, 8) and pick < 16:
            # earlier writes into the same writer, among them refused ones (a value too large for its 16-bit length):
            # a writer must not remember anything but its bytes
            hist = [rng.choice(["b:" + fill(rng.choice([65536, 65537, 70000]), 1), "t:7:" + fill(65536, 2), "q:7:" + fill(65536, 2),
                                rand_payload(rng, False), rand_payload(rng, False)]) for _ in range(1 + rng.below(2))]
            yield ("write-history", (pre, p, ";".join(hist)), {})
            continue
        yield ("write", (pre, p), {})
    if k == 0:
        for kind, bits, signed in INT_KINDS:
            lo, hi = (-(1 << (bits - 1)), (1 << (bits - 1)) - 1) if signed else (0, (1 << bits) - 1)
            for v in sorted(set(x for x in [lo, hi, 0, 1, -1 if signed else 2, lo + 1, hi - 1, 258, 0x0102030405060708 % (hi + 1)]
                                if lo <= x <= hi)):
                yield ("write-int", ("-", "%s:%d" % (kind, v)), {})
        for t in range(12):
            yield ("write-type", ("0a", "y:%d" % t), {})
            yield ("write-type", ("-", "Q:%d:0102" % t), {})
        for ln in (65534, 65535, 65536):
            for form in ("b:%s", "t:7:%s", "q:7:%s", "s:%s"):
                yield ("write-big", ("-", form % fill(ln, 3)), {})
                yield ("write-big", ("0102", form % fill(ln, 3)), {})
        for pre in range(65525, 65560):
            for p in ("a:4,01020304,05060708,1,2", "t:1:0102", "y:1", "u64:5", "s:-", "b:-", "a:N", "t:1:-"):
                yield ("write-band", (fill(pre, 0), p), {})
