"""Per-property configuration of the correspondence check and of the direct oracle (DESIGN 5-7).

For every property:
  streams      input streams (functions f(tier, rng, k, n) yielding (stream, expression, meta))
  groups       turns one generated input into oracle groups: (tag, [case lines])
  project      the projection of an observation line the property's theorems speak about
  classify     outcome class of a case (for the histograms in the evidence)
  oracle       the property's own statement evaluated on the implementation's (and the Spec's) lines;
               returns None or a description of the failure
  neighbours   inputs around a case on which implementation and model disagree (failing-input search)
"""
import re

from . import v2gen, buildgen, v1gen
from .lib import Rng, expr, expr_bytes, expr_len, hx, SIG

FLAGS = re.compile(r" i([01])c([01])$")


def strip_flags(line):
    return FLAGS.sub("", line)


def flags_of(line):
    m = FLAGS.search(line)
    return (m.group(1) == "1", m.group(2) == "1") if m else None


def acc(line):
    """`acc` projection: an accepted header with its decoded value, or just REJ"""
    s = strip_flags(line)
    return s if s.startswith("OK ") else ("REJ" if s.startswith("ERR") else s)


def byte_neighbours(e, rng, limit=4000):
    """every prefix, standard trailers, single-byte substitutions of a byte-string input"""
    b = expr_bytes(e)
    out = []
    for i in range(0, min(len(b), 400)):
        out.append(b[:i])
    for t in (b"\x00", b"\r", b"\n", b"\r\n", b" ", b"x", b"5", SIG, b"PROXY UNKNOWN\r\n"):
        out.append(b + t)
    for i in range(min(len(b), 120)):
        for v in (0, 1, 13, 10, 32, 48, 255, (b[i] + 1) % 256, b[i] ^ 0x10, b[i] ^ 0x01):
            if v != b[i]:
                out.append(b[:i] + bytes([v]) + b[i + 1:])
    return [hx(x) for x in out[:limit]]


class Prop:
    id = ""
    streams = ()
    profiles = ("debug",)
    projection_name = "full"
    needs_no_unsafe = False
    trusted_extra = ()
    assumptions = ()

    def groups(self, stream, e, meta):
        raise NotImplementedError

    def project(self, case, line):
        return line

    def classify(self, case, line):
        s = strip_flags(line.split(" | ")[0])
        if s.startswith("OK"):
            return "OK"
        if s.startswith("ERR "):
            return "ERR " + re.sub(r"\(.*", "", s[4:])
        return s[:24]

    def oracle(self, tag, cases, impl, spec, meta):
        return None

    def neighbours(self, case, rng):
        mode, _, e = case.partition(" ")
        if " " in e:
            return
        for x in byte_neighbours(e, rng):
            for g in self.groups("neighbourhood", x, {}):
                yield (g[0], g[1], {})


# ------------------------------------------------------------------------------------------------

class C02(Prop):
    id = "C02"
    projection_name = "acc (accepted header bytes + decoded command/transport/family/addresses, or REJ)"
    streams = (v2gen.control_space, v2gen.control_v2, v2gen.signature, v2gen.valid_headers, v2gen.truncations, v2gen.header_tlvs)
    assumptions = ("inputs are byte strings (every element < 256)",
                   "usize is 64 bits: 16 + length cannot overflow")

    def groups(self, stream, e, meta):
        yield ("one", ["v2 " + e])

    def project(self, case, line):
        return acc(line)

    def oracle(self, tag, cases, impl, spec, meta):
        want = re.sub(r" possible=[01]$", "", spec[0])
        got = acc(impl[0])
        if got != want:
            return "v2 acceptance/decoding differs from the wire-format spec: impl `%s`, spec `%s`" % (got[:300], want[:300])
        return None


class C11(Prop):
    id = "C11"
    projection_name = "items (item sequence incl. the error item, step count, fused flag, len/is_empty)"
    streams = (v2gen.tlv_small, v2gen.tlv_lists, v2gen.header_tlvs)

    def groups(self, stream, e, meta):
        if stream.startswith("v2-header"):
            yield ("htlv", ["htlv " + e])
        else:
            yield ("tlv", ["tlv " + e])

    def classify(self, case, line):
        if line.startswith("REJ"):
            return "REJ"
        m = re.search(r"\[(.*)\]$", line)
        items = m.group(1) if m else ""
        last = items.split(",")[-1] if items else "empty"
        kind = "err:" + re.sub(r"\(.*", "", last[2:]) if last.startswith("E:") else ("ok" if items else "empty")
        n = int(re.match(r"n=(\d+)", line).group(1)) if line.startswith("n=") else 0
        return "%s items=%s" % (kind, n if n < 3 else "3+")

    def oracle(self, tag, cases, impl, spec, meta):
        line, want = impl[0], spec[0]
        if line == "PANIC":
            return "TLV iteration panicked"
        if line == "REJ" or want == "REJ":
            return None if line == want else "header acceptance differs (impl `%s`, spec `%s`)" % (line[:80], want[:80])
        m = re.match(r"n=(\d+) fused=([01]) aftererr=(\d+) len=(\d+) empty=([01]) \[(.*)\]$", line)
        if not m:
            return "unparseable observation `%s`" % line[:200]
        n, fused, aftererr, items = int(m.group(1)), m.group(2), int(m.group(3)), m.group(6)
        if "RUNAWAY" in items:
            return "iteration does not end"
        got = "[" + re.sub(r"E:Leftovers\(\d+\)", "E:Short", items) + "]"
        if got != want:
            return "items differ from the standard walk: impl %s, spec %s" % (got[:300], want[:300])
        if fused != "1":
            return "an item was yielded after the end of the iteration"
        if aftererr != 0:
            return "an item was yielded after an error item"
        return None


def kv(segment):
    return dict(f.split("=", 1) for f in segment.split(" ") if "=" in f)


class C14(Prop):
    id = "C14"
    projection_name = "views (every accessor of the borrowed and of the owned header)"
    streams = (v2gen.valid_headers, v2gen.header_tlvs, v2gen.control_v2, v2gen.truncations)
    trusted_extra = ("the clause `borrowed and owned` is trivial in the model (values are immutable); the harness "
                     "observes it on the implementation (owned == borrowed, same views, after the source buffer is overwritten and freed)",)

    def groups(self, stream, e, meta):
        yield ("views", ["views2 " + e])

    def project(self, case, line):
        return line.split(" | ")[0]

    def classify(self, case, line):
        if line.startswith("B["):
            m = re.search(r"fam=(\d)", line)
            return "OK fam=%s" % (m.group(1) if m else "?")
        return line[:16]

    def oracle(self, tag, cases, impl, spec, meta):
        line = impl[0]
        if line == "PANIC":
            return "an accessor panicked"
        if line == "REJ" or spec[0] == "REJ":
            return None if line == spec[0] else "acceptance differs from the spec (impl `%s`, spec `%s`)" % (line[:60], spec[0][:60])
        m = re.match(r"B\[(.*)\] O\[(.*)\] \| (.*)$", line)
        if not m:
            return "unparseable observation"
        b, o, extra = kv(m.group(1)), kv(m.group(2)), kv(m.group(3))
        if b != o:
            return "views of the owned copy differ from the borrowed header"
        if extra != {"disp": "1", "eq": "1", "clobber": "1"}:
            return "owned copy: %s" % extra
        x = expr_bytes(cases[0].split(" ")[1])
        un = lambda h: b"" if h == "-" else (None if h.startswith("#") else bytes.fromhex(h))
        ab, tb, asb = un(b["ab"]), un(b["tb"]), un(b["asb"])
        length, total, fam = int(b["length"]), int(b["len"]), int(b["fam"])
        size = {0: 0, 1: 12, 2: 36, 3: 216}[fam]
        sp = kv(spec[0])
        if asb is not None and ab is not None and tb is not None:
            if ab + tb != asb[16:]:
                return "address bytes ++ tlv bytes is not the payload after the fixed part"
            if len(asb) != total:
                return "len() is not the length of as_bytes()"
            if asb != x[:total]:
                return "as_bytes() is not the first len() bytes of the input"
        if b["ab"] != sp["ab"] or b["tb"] != sp["tb"]:
            return "address/TLV views differ from the partition the spec prescribes"
        if ab is not None and len(ab) != (length if fam == 0 else size):
            return "address view has the wrong size"
        if length + 16 != total or length != x[14] * 256 + x[15]:
            return "length()/len() disagree with each other or with the length field"
        if b["empty"] != "0":
            return "is_empty() on an accepted header"
        if fam != x[13] >> 4:
            return "address_family() is not the family nibble on the wire"
        if int(b["alen"]) != size or int(b["u16"]) != size or b["aempty"] != ("1" if fam == 0 else "0"):
            return "Addresses::len / is_empty / u16::from(family) wrong"
        if int(b["vc"]) != x[12] or int(b["fp"]) != x[13]:
            return "version|command or protocol|family do not reproduce the control bytes"
        if int(b["tl"]) != (len(tb) if tb is not None else int(b["tl"])) % 65536 or b["te"] != ("1" if b["tb"] == "-" else "0"):
            return "TypeLengthValues::len / is_empty wrong"
        # fields are the big-endian decoding of the address view
        hdr = sp.get("OK")
        decoded = spec[0].split(" ")[-1]
        if ab is not None and fam in (1, 2):
            n = 4 if fam == 1 else 16
            want = "%d/%s/%s/%d/%d" % (4 if fam == 1 else 6, ab[:n].hex(), ab[n:2 * n].hex(),
                                       ab[2 * n] * 256 + ab[2 * n + 1], ab[2 * n + 2] * 256 + ab[2 * n + 3])
            if decoded != want:
                return "decoded addresses are not the big-endian decoding of the address view"
        return None


class C17(Prop):
    id = "C17"
    projection_name = "full (error variant and its counts)"
    streams = (v2gen.truncations, v2gen.control_v2, v2gen.control_space, v2gen.signature, v2gen.valid_headers)

    def groups(self, stream, e, meta):
        n = expr_len(e)
        if n >= 16:
            head = expr_bytes(e)[:16] if n < 100000 else None
            declared = head[14] * 256 + head[15]
            have = n - 16
            if have < declared:
                miss = declared - have
                rnd = Rng(n * 65537 + declared)
                full = expr(e, v2gen.payload_expr(rnd, miss))
                cases = ["v2 " + e, "v2 " + full]
                if miss > 1:
                    cases.append("v2 " + expr(e, v2gen.payload_expr(rnd, 1 + rnd.below(miss - 1))))
                yield ("fill", cases)
                return
        yield ("one", ["v2 " + e])

    def oracle(self, tag, cases, impl, spec, meta):
        n = expr_len(cases[0].split(" ")[1])
        line = strip_flags(impl[0])
        m = re.match(r"ERR Incomplete\((\d+)\)$", line)
        if m and not (int(m.group(1)) == n and n < 16):
            return "Incomplete(%s) for an input of %d bytes" % (m.group(1), n)
        m = re.match(r"ERR Partial\((\d+),(\d+)\)$", line)
        if m:
            x = expr_bytes(cases[0].split(" ")[1])[:16]
            have, need = int(m.group(1)), int(m.group(2))
            if not (n >= 16 and have == n - 16 and need == x[14] * 256 + x[15] and have < need):
                return "Partial(%d,%d) for an input of %d bytes declaring %d" % (have, need, n, x[14] * 256 + x[15])
            if tag != "fill":
                return "generator did not supply the fill cases for a Partial result"
            if not strip_flags(impl[1]).startswith("OK "):
                return "supplying exactly the %d missing bytes does not give a success: %s" % (need - have, impl[1][:100])
            if len(cases) > 2:
                k = expr_len(cases[2].split(" ")[1]) - n
                if strip_flags(impl[2]) != "ERR Partial(%d,%d)" % (have + k, need):
                    return "supplying %d of the %d missing bytes gives %s" % (k, need - have, impl[2][:100])
        # truncations of a well-formed header report exactly these counts
        if "cut" in meta and tag in ("one", "fill") and meta["cut"] < meta["full"]:
            want = "ERR Incomplete(%d)" % meta["cut"] if meta["cut"] < 16 else "ERR Partial(%d,%d)" % (meta["cut"] - 16, meta["declared"])
            if line != want:
                return "prefix of %d bytes of a %d-byte header: %s, expected %s" % (meta["cut"], meta["full"], line, want)
        return None


def hexs_len(h):
    if h == "-":
        return 0
    if h.startswith("#"):
        return int(h[1:].split(":")[0])
    return len(h) // 2


def hexs_head(h):
    """the first bytes of a canonical byte string (all of them when it is short)"""
    if h == "-":
        return b""
    if h.startswith("#"):
        return bytes.fromhex(h.split(":")[1])
    return bytes.fromhex(h)


def build_case(c, ops):
    return "build %s %s" % (c, ";".join(ops) if ops else "-")


def build_status(line):
    return line if line.startswith("OK ") else "ERR"


class BuilderProp(Prop):
    def neighbours(self, case, rng):
        _, c, ops = case.split(" ")
        ops = [] if ops == "-" else ops.split(";")
        seen = set()
        for i in range(len(ops)):
            for j in range(i + 1, len(ops) + 1):
                sub = ops[:i] + ops[j:]
                key = ";".join(sub)
                if key not in seen:
                    seen.add(key)
                    for g in self.groups("neighbourhood", (c, sub), {}):
                        yield (g[0], g[1], {})
        for i in range(len(ops) + 1):
            for extra in ("L=5", "L=-", "R=3", "P=u8:1"):
                for g in self.groups("neighbourhood", (c, ops[:i] + [extra] + ops[i:]), {}):
                    yield (g[0], g[1], {})


class C10(BuilderProp):
    id = "C10"
    projection_name = "out (build result: bytes, or the index of the failing call)"
    streams = (buildgen.exhaustive_histories, buildgen.random_histories, buildgen.size_boundary, buildgen.parse_round_trip)
    trusted_extra = ("capacity reservations are modelled as a counter no output depends on; their effect on allocation is not modelled (capacities are kept <= 100000 by the generators)",)

    def groups(self, stream, e, meta):
        c, ops = e
        yield ("hist", [build_case(c, ops)])
        if any(o.startswith("R=") for o in ops) or len(ops) < 8:
            erased = [o for o in ops if not o.startswith("R=")]
            extra = []
            for i, o in enumerate(ops):
                if i % 2 == 0:
                    extra.append("R=%d" % (7 * i + 1))
                extra.append(o)
            extra.append("R=2")
            yield ("same", [build_case(c, ops), build_case(c, erased), build_case(c, extra)])
        if any(o.startswith("B=") for o in ops):
            flat = []
            for o in ops:
                if o.startswith("B="):
                    flat.extend(["P=" + p for p in o[2:].split("|")] if o != "B=-" else [])
                else:
                    flat.append(o)
            yield ("same", [build_case(c, ops), build_case(c, flat)])
        elif 2 <= len(ops) <= 8:
            # the other direction: merge runs of single writes into one batch
            merged, run_ = [], []
            for o in ops + ["END"]:
                if o.startswith("P="):
                    run_.append(o[2:])
                else:
                    if run_:
                        merged.append("B=" + "|".join(run_))
                        run_ = []
                    if o != "END":
                        merged.append(o)
            if merged != ops:
                yield ("same", [build_case(c, ops), build_case(c, merged)])

    def classify(self, case, line):
        ops = case.split(" ")[2]
        kinds = "".join(sorted(set(o.split("=")[0][0] for o in ops.split(";")))) if ops != "-" else "none"
        return "%s ops=%s" % (line.split(" ")[0].split("@")[0], kinds)

    def oracle(self, tag, cases, impl, spec, meta):
        if any(x == "PANIC" for x in impl):
            return "the builder panicked"
        if tag == "hist":
            if impl[0].startswith("OK "):
                want = spec[0].split(" ")[1]
                if impl[0][3:] != want:
                    return "built bytes differ from the reference encoding of the call sequence: %s vs %s" % (impl[0][3:300], want[:300])
            return None
        st = [build_status(x) for x in impl]
        if any(x != st[0] for x in st):
            return "histories that differ only in reserve_capacity calls / batching give different outputs: %s" % " || ".join(x[:120] for x in st)
        return None


class C09(BuilderProp):
    id = "C09"
    projection_name = "out (build result: bytes incl. the length field, or the index of the failing call)"
    streams = (buildgen.exhaustive_histories, buildgen.random_histories, buildgen.size_boundary)

    def groups(self, stream, e, meta):
        c, ops = e
        yield ("hist", [build_case(c, ops)])

    def classify(self, case, line):
        ops = case.split(" ")[2].split(";")
        first_write = next((i for i, o in enumerate(ops) if o[0] in "PBT"), None)
        sets = [i for i, o in enumerate(ops) if o.startswith("L=")]
        shape = "noset" if not sets else ("set-after-write" if first_write is not None and sets[-1] > first_write else "set-before-write")
        return "%s %s" % (line.split(" ")[0].split("@")[0], shape)

    def oracle(self, tag, cases, impl, spec, meta):
        line = impl[0]
        if line == "PANIC":
            return "the builder panicked"
        ops = cases[0].split(" ")[2]
        force = None
        for o in (ops.split(";") if ops != "-" else []):
            if o.startswith("L="):
                force = None if o == "L=-" else int(o[2:])
        sp = kv(spec[0])
        if line.startswith("OK "):
            h = line[3:]
            total, head = hexs_len(h), hexs_head(h)
            if total < 16:
                return "built header shorter than the fixed part"
            field = head[14] * 256 + head[15]
            want = force if force is not None else total - 16
            if field != want:
                return "length field %d, but %s" % (field, ("the explicit length in force is %d" % force) if force is not None
                                                    else ("%d bytes follow the fixed part" % (total - 16)))
            if sp["big"] == "1":
                return "a value above 65535 bytes was accepted"
        return None


class C20(Prop):
    id = "C20"
    projection_name = "out (write_to result, bytes appended, to_bytes result)"
    streams = (buildgen.writer_cases,)
    assumptions = ("`below its size limit` is read as: writer contents + encoding <= 65551 bytes (DESIGN 2.2)",)

    def groups(self, stream, e, meta):
        pre, p = e
        yield ("write", ["write %s %s" % (pre, p)])

    def classify(self, case, line):
        kind = case.split(" ")[2].split(":")[0]
        return "%s kind=%s" % (line.split(" ")[0], kind)

    def neighbours(self, case, rng):
        _, pre, p = case.split(" ")
        for n in list(range(0, 40)) + list(range(65500, 65560)):
            yield ("write", ["write %s %s" % ("fill:%d:00" % n if n else "-", p)], {})

    def oracle(self, tag, cases, impl, spec, meta):
        line = impl[0]
        if line == "PANIC":
            return "write_to / to_bytes panicked"
        pre = expr_len(cases[0].split(" ")[1])
        m = re.match(r"W=(OK (\d+)|ERR) kept=([01]) app=(\S+) TB=(OK (\S+)|ERR)$", line)
        if not m:
            return "unparseable observation"
        ok, n, kept, app, tb = m.group(1).startswith("OK"), m.group(2), m.group(3), m.group(4), m.group(6)
        sm = re.match(r"ENC (\S+) big=([01])$", spec[0])
        enc, big = sm.group(1), sm.group(2) == "1"
        if kept != "1":
            return "the bytes already in the writer were altered"
        if big:
            if ok or app != "-" or tb is not None:
                return "a value too large for its 16-bit length was not refused cleanly (%s)" % line[:120]
            return None
        if pre + hexs_len(enc) <= 65551:
            if not ok or int(n) != hexs_len(enc) or app != enc:
                return "write_to: %s; the encoding is %s (%d bytes)" % (line[:160], enc[:120], hexs_len(enc))
        elif ok and (int(n) != hexs_len(enc) or app != enc):
            return "write_to succeeded above the limit but did not append exactly the encoding"
        if hexs_len(enc) <= 65551 and tb != enc:
            return "to_bytes gives %s, the encoding is %s" % (str(tb)[:120], enc[:120])
        return None


class C07(BuilderProp):
    id = "C07"
    projection_name = "out + items (built bytes, their parse result, the TLV items read back)"
    streams = (buildgen.parse_round_trip,)

    def groups(self, stream, e, meta):
        c, ops = e
        yield ("wire", ["buildparse %s %s" % (c, ";".join(ops) if ops else "-")])

    def classify(self, case, line):
        c = case.split(" ")[1].split(",")
        return "%s fam=%s tlvs=%d" % (line.split(" ")[0].split("@")[0], c[3], min(len(case.split(" ")[2].split(";")), 3) if case.split(" ")[2] != "-" else 0)

    def neighbours(self, case, rng):
        _, c, ops = case.split(" ")
        ops = [] if ops == "-" else ops.split(";")
        for i in range(len(ops)):
            for j in range(i + 1, len(ops) + 1):
                for g in self.groups("neighbourhood", (c, ops[:i] + ops[j:]), {}):
                    yield (g[0], g[1], {})

    def oracle(self, tag, cases, impl, spec, meta):
        line = impl[0]
        if line == "PANIC":
            return "build / parse panicked"
        m = re.match(r"WIRE (\S+) (c\d) (p\d) (\S+) \[(.*)\]$", spec[0])
        if not m:
            return None
        wire, cmd, tr, addr, tlvs = m.groups()
        if not line.startswith("OK "):
            return "a header that fits in 65535 bytes was not built (%s)" % line
        built, parsed, items = line[3:].split(" | ")
        if built != wire:
            return "built bytes are not the wire encoding: %s vs %s" % (built[:200], wire[:200])
        want = "OK %s v2 %s %s %s i0c1" % (wire, cmd, tr, addr)
        if parsed != want:
            return "parsing the built header gives `%s`, expected `%s`" % (parsed[:200], want[:200])
        if addr != "N":
            got = re.search(r"\[(.*)\]$", items).group(1)
            if got != tlvs:
                return "TLVs read back differ: [%s] vs [%s]" % (got[:200], tlvs[:200])
        return None


class C13(Prop):
    id = "C13"
    projection_name = "out (equality of each re-build with the original header bytes)"
    streams = (v2gen.valid_headers, v2gen.header_tlvs, v2gen.control_v2, v2gen.truncations)

    def groups(self, stream, e, meta):
        yield ("rebuild", ["rebuild " + e])

    def classify(self, case, line):
        return line

    def oracle(self, tag, cases, impl, spec, meta):
        line = impl[0]
        if line == "PANIC":
            return "parse / re-build panicked"
        if line == "REJ":
            return None
        if not re.match(r"R=1 S=1 I=[1-] V=[1-]$", line):
            return "re-encoding a parsed header does not reproduce it: %s (R raw bytes, S TLV section value, I decoded items, V decoded address value; 0 = different bytes, E = build error)" % line
        return None


def is_utf8(b):
    try:
        b.decode("utf-8")
        return True
    except UnicodeDecodeError:
        return False


class XV1(Prop):
    """internal: validates the v1 / auto model against the implementation on every v1 stream, all entry points"""
    id = "XV1"
    streams = v1gen.V1_STREAMS + (v2gen.signature,)

    def groups(self, stream, e, meta):
        cases = ["v1b " + e, "auto " + e, "views1 " + e]
        if is_utf8(expr_bytes(e)):
            cases += ["v1s " + e, "v1fh " + e, "v1fa " + e]
        yield ("all", cases)

    def project(self, case, line):
        return line.split(" | ")[0]


class XC01(XV1):
    """internal: the grammar oracle of Spec/V1Grammar.v against the implementation"""
    id = "XC01"

    def groups(self, stream, e, meta):
        cases = ["v1b " + e]
        if is_utf8(expr_bytes(e)):
            cases += ["v1s " + e, "v1fh " + e, "v1fa " + e]
        yield ("acc", cases)

    def oracle(self, tag, cases, impl, spec, meta):
        for c, i, s in zip(cases, impl, spec):
            if acc(i) != s:
                return "%s: impl `%s`, grammar `%s`" % (c[:120], acc(i)[:120], s[:120])
        return None


class XSTD(Prop):
    """internal: validates the Std models against the real standard library"""
    id = "XSTD"
    streams = (v1gen.std_cases,)

    def groups(self, stream, e, meta):
        yield ("std", ["std %s %s" % e])

    def oracle(self, tag, cases, impl, spec, meta):
        kind = cases[0].split(" ")[1]
        if kind in ("ip4", "ip6") and impl[0] != spec[0]:
            return "std %s: `%s`, grammar of Spec/V1Grammar.v: `%s`" % (cases[0][:100], impl[0], spec[0])
        return None

    def neighbours(self, case, rng):
        return iter(())


REGISTRY = {c.id: c for c in (XV1(), XC01(), XSTD(), C02(), C07(), C09(), C10(), C11(), C13(), C14(), C17(), C20())}


def get(prop):
    if prop not in REGISTRY:
        raise SystemExit("check: property %s is not claimed (see MANIFEST.json not_applicable)" % prop)
    return REGISTRY[prop]


def known_class(name, failure):
    """decidable predicates naming classes of inputs recorded as open findings in KNOWN_FINDINGS.txt"""
    return False
