"""Per-property configuration of the correspondence check and of the direct oracle (DESIGN 5-7).

For every property:
  streams      input streams (functions f(tier, rng, k, n) yielding (stream, expression, meta))
  groups       turns one generated input into oracle groups: (tag, [case lines])
  project      the projection of an observation line the property's theorems speak about
  classify     outcome class of a case (for the histograms in the evidence)
  oracle       the property's own statement evaluated on the implementation's (and the Spec's) lines;
               returns None or a description of the failure
  neighbours   inputs around a case on which implementation and model disagree (failing-input search)
"""
import re

from . import v2gen
from .lib import expr, expr_bytes, expr_len, hx, SIG

FLAGS = re.compile(r" i([01])c([01])$")


def strip_flags(line):
    return FLAGS.sub("", line)


def flags_of(line):
    m = FLAGS.search(line)
    return (m.group(1) == "1", m.group(2) == "1") if m else None


def acc(line):
    """`acc` projection: an accepted header with its decoded value, or just REJ"""
    s = strip_flags(line)
    return s if s.startswith("OK ") else ("REJ" if s.startswith("ERR") else s)


def byte_neighbours(e, rng, limit=4000):
    """every prefix, standard trailers, single-byte substitutions of a byte-string input"""
    b = expr_bytes(e)
    out = []
    for i in range(0, min(len(b), 400)):
        out.append(b[:i])
    for t in (b"\x00", b"\r", b"\n", b"\r\n", b" ", b"x", b"5", SIG, b"PROXY UNKNOWN\r\n"):
        out.append(b + t)
    for i in range(min(len(b), 120)):
        for v in (0, 1, 13, 10, 32, 48, 255, (b[i] + 1) % 256, b[i] ^ 0x10, b[i] ^ 0x01):
            if v != b[i]:
                out.append(b[:i] + bytes([v]) + b[i + 1:])
    return [hx(x) for x in out[:limit]]


class Prop:
    id = ""
    streams = ()
    profiles = ("debug",)
    projection_name = "full"
    needs_no_unsafe = False
    trusted_extra = ()
    assumptions = ()

    def groups(self, stream, e, meta):
        raise NotImplementedError

    def project(self, case, line):
        return line

    def classify(self, case, line):
        s = strip_flags(line.split(" | ")[0])
        if s.startswith("OK"):
            return "OK"
        if s.startswith("ERR "):
            return "ERR " + re.sub(r"\(.*", "", s[4:])
        return s[:24]

    def oracle(self, tag, cases, impl, spec, meta):
        return None

    def neighbours(self, case, rng):
        mode, _, e = case.partition(" ")
        if " " in e:
            return
        for x in byte_neighbours(e, rng):
            for g in self.groups("neighbourhood", x, {}):
                yield (g[0], g[1], {})


# ------------------------------------------------------------------------------------------------

class C02(Prop):
    id = "C02"
    projection_name = "acc (accepted header bytes + decoded command/transport/family/addresses, or REJ)"
    streams = (v2gen.control_space, v2gen.control_v2, v2gen.signature, v2gen.valid_headers, v2gen.truncations, v2gen.header_tlvs)
    assumptions = ("inputs are byte strings (every element < 256)",
                   "usize is 64 bits: 16 + length cannot overflow")

    def groups(self, stream, e, meta):
        yield ("one", ["v2 " + e])

    def project(self, case, line):
        return acc(line)

    def oracle(self, tag, cases, impl, spec, meta):
        want = re.sub(r" possible=[01]$", "", spec[0])
        got = acc(impl[0])
        if got != want:
            return "v2 acceptance/decoding differs from the wire-format spec: impl `%s`, spec `%s`" % (got[:300], want[:300])
        return None


class C11(Prop):
    id = "C11"
    projection_name = "items (item sequence incl. the error item, step count, fused flag, len/is_empty)"
    streams = (v2gen.tlv_small, v2gen.tlv_lists, v2gen.header_tlvs)

    def groups(self, stream, e, meta):
        if stream.startswith("v2-header"):
            yield ("htlv", ["htlv " + e])
        else:
            yield ("tlv", ["tlv " + e])

    def classify(self, case, line):
        if line.startswith("REJ"):
            return "REJ"
        m = re.search(r"\[(.*)\]$", line)
        items = m.group(1) if m else ""
        last = items.split(",")[-1] if items else "empty"
        kind = "err:" + re.sub(r"\(.*", "", last[2:]) if last.startswith("E:") else ("ok" if items else "empty")
        n = int(re.match(r"n=(\d+)", line).group(1)) if line.startswith("n=") else 0
        return "%s items=%s" % (kind, n if n < 3 else "3+")

    def oracle(self, tag, cases, impl, spec, meta):
        line, want = impl[0], spec[0]
        if line == "PANIC":
            return "TLV iteration panicked"
        if line == "REJ" or want == "REJ":
            return None if line == want else "header acceptance differs (impl `%s`, spec `%s`)" % (line[:80], want[:80])
        m = re.match(r"n=(\d+) fused=([01]) aftererr=(\d+) len=(\d+) empty=([01]) \[(.*)\]$", line)
        if not m:
            return "unparseable observation `%s`" % line[:200]
        n, fused, aftererr, items = int(m.group(1)), m.group(2), int(m.group(3)), m.group(6)
        if "RUNAWAY" in items:
            return "iteration does not end"
        got = "[" + re.sub(r"E:Leftovers\(\d+\)", "E:Short", items) + "]"
        if got != want:
            return "items differ from the standard walk: impl %s, spec %s" % (got[:300], want[:300])
        if fused != "1":
            return "an item was yielded after the end of the iteration"
        if aftererr != 0:
            return "an item was yielded after an error item"
        return None


REGISTRY = {c.id: c for c in (C02(), C11())}


def get(prop):
    if prop not in REGISTRY:
        raise SystemExit("check: property %s is not claimed (see MANIFEST.json not_applicable)" % prop)
    return REGISTRY[prop]


def known_class(name, failure):
    """decidable predicates naming classes of inputs recorded as open findings in KNOWN_FINDINGS.txt"""
    return False
