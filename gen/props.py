"""Per-property configuration of the correspondence check and of the direct oracle (DESIGN 5-7).

For every property:
  streams      input streams (functions f(tier, rng, k, n) yielding (stream, expression, meta))
  groups       turns one generated input into oracle groups: (tag, [case lines])
  project      the projection of an observation line the property's theorems speak about
  classify     outcome class of a case (for the histograms in the evidence)
  oracle       the property's own statement evaluated on the implementation's (and the Spec's) lines;
               returns None or a description of the failure
  neighbours   inputs around a case on which implementation and model disagree (failing-input search)
"""
import re

from . import v2gen, buildgen, v1gen
from .lib import Rng, expr, expr_bytes, expr_len, hx, SIG, special_ip6, special_ip4, class_pairs, ip4_classes, ip6_classes

FLAGS = re.compile(r" i([01])c([01])$")


def strip_flags(line):
    return FLAGS.sub("", line)


def flags_of(line):
    m = FLAGS.search(line)
    return (m.group(1) == "1", m.group(2) == "1") if m else None


V1_INC = re.compile(r"ERR (Partial|MissingPrefix|MissingNewLine|MissingProtocol|MissingSourceAddress|MissingDestinationAddress|"
                    r"MissingSourcePort|MissingDestinationPort)(?= |$)")


def norm_v1_inc(case, line):
    """No property says WHICH incomplete variant an unfinished v1 line is reported with: C05 / C18 speak about the class,
    C12 about the kinds of terminal errors, C16 / C06 about agreement between entry points (which their oracles compare
    on the implementation itself).  So the variant of a v1 result that is flagged incomplete is not part of a projection."""
    mode = case.split(" ")[0]
    if mode in ("v1b", "v1s", "v1fh", "v1fa") or (mode == "auto" and line.startswith("V1 ")):
        if " i1c0" in line:
            return V1_INC.sub("ERR <incomplete>", line)
        # likewise whether an invalid port was rejected by the crate's own check (`None`) or by `u16::from_str`
        # (`Some(ParseIntError)`): the kind names the element (C12); the payload is nobody's statement
        return re.sub(r"(Invalid(?:Source|Destination)Port)\((?:crate|std)\)", r"\1", line)
    return line


def acc(line):
    """`acc` projection: an accepted header with its decoded value, or just REJ"""
    s = strip_flags(strip_flags(line))          # auto-detection lines carry the flags of the inner result as well
    tag = ""
    if s.startswith(("V1 ", "V2 ")):
        tag, s = s[:3], s[3:]
    if s.startswith("OK "):
        return tag + s
    return "REJ" if s.startswith("ERR") else tag + s


def byte_neighbours(e, rng, limit=4000):
    """every prefix, standard trailers, single-byte substitutions of a byte-string input"""
    b = expr_bytes(e)
    out = []
    for i in range(0, min(len(b), 400)):
        out.append(b[:i])
    for t in (b"\x00", b"\r", b"\n", b"\r\n", b" ", b"x", b"5", SIG, b"PROXY UNKNOWN\r\n"):
        out.append(b + t)
    for i in range(min(len(b), 120)):
        for v in (0, 1, 13, 10, 32, 48, 255, (b[i] + 1) % 256, b[i] ^ 0x10, b[i] ^ 0x01):
            if v != b[i]:
                out.append(b[:i] + bytes([v]) + b[i + 1:])
    return [hx(x) for x in out[:limit]]


class Prop:
    id = ""
    streams = ()
    profiles = ("debug",)
    projection_name = "full"
    needs_no_unsafe = False
    trusted_extra = ()
    assumptions = ()

    def groups(self, stream, e, meta):
        raise NotImplementedError

    def project(self, case, line):
        return line

    def classify(self, case, line):
        s = strip_flags(line.split(" | ")[0])
        if s.startswith("OK"):
            return "OK"
        if s.startswith("ERR "):
            return "ERR " + re.sub(r"\(.*", "", s[4:])
        return s[:24]

    def oracle(self, tag, cases, impl, spec, meta):
        return None

    def neighbours(self, case, rng):
        mode, _, e = case.partition(" ")
        if " " in e:
            return
        for x in byte_neighbours(e, rng):
            for g in self.groups("neighbourhood", x, {}):
                yield (g[0], g[1], {})


# ------------------------------------------------------------------------------------------------

class C02(Prop):
    id = "C02"
    projection_name = "acc (accepted header bytes + decoded command/transport/family/addresses, or REJ)"
    streams = (v2gen.control_space, v2gen.control_v2, v2gen.signature, v2gen.valid_headers, v2gen.truncations, v2gen.header_tlvs)
    assumptions = ("inputs are byte strings (every element < 256)",
                   "usize is 64 bits: 16 + length cannot overflow")

    def groups(self, stream, e, meta):
        yield ("one", ["v2 " + e])

    def project(self, case, line):
        return acc(line)

    def oracle(self, tag, cases, impl, spec, meta):
        want = re.sub(r" possible=[01]$", "", spec[0])
        got = acc(impl[0])
        if got != want:
            return "v2 acceptance/decoding differs from the wire-format spec: impl `%s`, spec `%s`" % (got[:300], want[:300])
        return None


class C11(Prop):
    id = "C11"
    projection_name = "items (item sequence incl. the error item, step count, fused flag)"
    streams = (v2gen.tlv_small, v2gen.tlv_lists, v2gen.header_tlvs)

    def groups(self, stream, e, meta):
        if stream.startswith("v2-header"):
            yield ("htlv", ["htlv " + e])
        else:
            yield ("tlv", ["tlv " + e])

    def project(self, case, line):
        # C11 fixes the payload of the error item for the overrun case only ("naming the type and the declared length");
        # the number carried by Leftovers, and TypeLengthValues::len / is_empty, are not part of its statement (XTLV has them)
        line = re.sub(r"E:Leftovers\(\d+\)", "E:Leftovers", line)
        return re.sub(r" len=\d+ empty=[01]", "", line)

    def classify(self, case, line):
        if line.startswith("REJ"):
            return "REJ"
        m = re.search(r"\[(.*)\]$", line)
        items = m.group(1) if m else ""
        last = items.split(",")[-1] if items else "empty"
        kind = "err:" + re.sub(r"\(.*", "", last[2:]) if last.startswith("E:") else ("ok" if items else "empty")
        n = int(re.match(r"n=(\d+)", line).group(1)) if line.startswith("n=") else 0
        return "%s items=%s" % (kind, n if n < 3 else "3+")

    def oracle(self, tag, cases, impl, spec, meta):
        line, want = impl[0], spec[0]
        if line == "PANIC":
            return "TLV iteration panicked"
        if line == "REJ" or want == "REJ":
            return None if line == want else "header acceptance differs (impl `%s`, spec `%s`)" % (line[:80], want[:80])
        m = re.match(r"n=(\d+) fused=([01]) aftererr=(\d+) len=(\d+) empty=([01]) \[(.*)\]$", line)
        if not m:
            return "unparseable observation `%s`" % line[:200]
        n, fused, aftererr, items = int(m.group(1)), m.group(2), int(m.group(3)), m.group(6)
        if "RUNAWAY" in items:
            return "iteration does not end"
        got = "[" + re.sub(r"E:Leftovers\(\d+\)", "E:Short", items) + "]"
        if got != want:
            return "items differ from the standard walk: impl %s, spec %s" % (got[:300], want[:300])
        if fused != "1":
            return "an item was yielded after the end of the iteration"
        if aftererr != 0:
            return "an item was yielded after an error item"
        return None


def kv(segment):
    return dict(f.split("=", 1) for f in segment.split(" ") if "=" in f)


class XTLV(C11):
    """internal: the full observation of TLV iteration (incl. the number carried by Leftovers and len / is_empty)"""
    id = "XTLV"

    def project(self, case, line):
        return line


class C14(Prop):
    id = "C14"
    projection_name = "views (every accessor of the borrowed and of the owned header)"
    streams = (v2gen.valid_headers, v2gen.header_tlvs, v2gen.control_v2, v2gen.truncations)
    trusted_extra = ("the clause `borrowed and owned` is trivial in the model (values are immutable); the harness "
                     "observes it on the implementation (owned == borrowed, same views, after the source buffer is overwritten and freed)",)

    # accessors the property does not speak about (Display, BitOr of the control enums, TypeLengthValues::len / is_empty,
    # Header::is_empty) are observed by the harness but are not part of this property's projection or oracle: they are
    # compared in the internal run XV2 only
    OUT_OF_SCOPE = ("disp", "vc", "fp", "tl", "te", "empty")

    def beyond(self, b, x, length, tb, un):
        return None

    def groups(self, stream, e, meta):
        yield ("views", ["views2 " + e])

    def project(self, case, line):
        head = line.split(" | ")[0]
        return " ".join(f for f in head.split(" ") if f.split("=")[0].lstrip("BO[") not in self.OUT_OF_SCOPE)

    def classify(self, case, line):
        if line.startswith("B["):
            m = re.search(r"fam=(\d)", line)
            return "OK fam=%s" % (m.group(1) if m else "?")
        return line[:16]

    def oracle(self, tag, cases, impl, spec, meta):
        line = impl[0]
        if line == "PANIC":
            return "an accessor panicked"
        if line == "REJ" or spec[0] == "REJ":
            return None if line == spec[0] else "acceptance differs from the spec (impl `%s`, spec `%s`)" % (line[:60], spec[0][:60])
        m = re.match(r"B\[(.*)\] O\[(.*)\] \| (.*)$", line)
        if not m:
            return "unparseable observation"
        b, o, extra = kv(m.group(1)), kv(m.group(2)), kv(m.group(3))
        if b != o:
            return "views of the owned copy differ from the borrowed header"
        if extra != {"disp": "1", "eq": "1", "clobber": "1"}:
            return "owned copy: %s" % extra
        x = expr_bytes(cases[0].split(" ")[1])
        un = lambda h: b"" if h == "-" else (None if h.startswith("#") else bytes.fromhex(h))
        ab, tb, asb = un(b["ab"]), un(b["tb"]), un(b["asb"])
        length, total, fam = int(b["length"]), int(b["len"]), int(b["fam"])
        size = {0: 0, 1: 12, 2: 36, 3: 216}[fam]
        sp = kv(spec[0])
        if asb is not None and ab is not None and tb is not None:
            if ab + tb != asb[16:]:
                return "address bytes ++ tlv bytes is not the payload after the fixed part"
            if len(asb) != total:
                return "len() is not the length of as_bytes()"
            if asb != x[:total]:
                return "as_bytes() is not the first len() bytes of the input"
        if b["ab"] != sp["ab"] or b["tb"] != sp["tb"]:
            return "address/TLV views differ from the partition the spec prescribes"
        if ab is not None and len(ab) != (length if fam == 0 else size):
            return "address view has the wrong size"
        if length + 16 != total or length != x[14] * 256 + x[15]:
            return "length()/len() disagree with each other or with the length field"
        if fam != x[13] >> 4:
            return "address_family() is not the family nibble on the wire"
        if int(b["alen"]) != size or int(b["u16"]) != size or b["aempty"] != ("1" if fam == 0 else "0"):
            return "Addresses::len / is_empty / u16::from(family) wrong"
        extra_msg = self.beyond(b, x, length, tb, un)
        if extra_msg:
            return extra_msg
        # fields are the big-endian decoding of the address view
        hdr = sp.get("OK")
        decoded = spec[0].split(" ")[-1]
        if ab is not None and fam in (1, 2):
            n = 4 if fam == 1 else 16
            want = "%d/%s/%s/%d/%d" % (4 if fam == 1 else 6, ab[:n].hex(), ab[n:2 * n].hex(),
                                       ab[2 * n] * 256 + ab[2 * n + 1], ab[2 * n + 2] * 256 + ab[2 * n + 3])
            if decoded != want:
                return "decoded addresses are not the big-endian decoding of the address view"
        return None


class XV2(C14):
    """internal: every observation of `views2` (incl. Display, the BitOr impls, TypeLengthValues::len / is_empty,
    Header::is_empty, which no property speaks about) against the model and against what the source says"""
    id = "XV2"

    def project(self, case, line):
        return line.split(" | ")[0]

    def beyond(self, b, x, length, tb, un):
        if b["empty"] != "0":
            return "is_empty() on an accepted header"
        if int(b["vc"]) != x[12] or int(b["fp"]) != x[13]:
            return "version|command or protocol|family do not reproduce the control bytes"
        want_disp = "[13, 10, 13, 10, 0, 13, 10, 81, 85, 73, 84, 10] %#X %#X (%d bytes)" % (x[12], x[13], length)
        if un(b["disp"]) != want_disp.replace("0X", "0x").encode():
            return "Display prints %r, expected %r" % (un(b["disp"]), want_disp)
        if int(b["tl"]) != (len(tb) if tb is not None else int(b["tl"])) % 65536 or b["te"] != ("1" if b["tb"] == "-" else "0"):
            return "TypeLengthValues::len / is_empty wrong"
        return None


class C17(Prop):
    id = "C17"
    oracle_uses_meta = True
    projection_name = "full (error variant and its counts)"
    streams = (v2gen.truncations, v2gen.control_v2, v2gen.control_space, v2gen.signature, v2gen.valid_headers)

    def groups(self, stream, e, meta):
        n = expr_len(e)
        if n >= 16:
            head = expr_bytes(e)[:16] if n < 100000 else None
            declared = head[14] * 256 + head[15]
            have = n - 16
            if have < declared:
                miss = declared - have
                rnd = Rng(n * 65537 + declared)
                full = expr(e, v2gen.payload_expr(rnd, miss))
                cases = ["v2 " + e, "v2 " + full]
                if miss > 1:
                    cases.append("v2 " + expr(e, v2gen.payload_expr(rnd, 1 + rnd.below(miss - 1))))
                yield ("fill", cases)
                return
        yield ("one", ["v2 " + e])

    def oracle(self, tag, cases, impl, spec, meta):
        n = expr_len(cases[0].split(" ")[1])
        line = strip_flags(impl[0])
        m = re.match(r"ERR Incomplete\((\d+)\)$", line)
        if m and not (int(m.group(1)) == n and n < 16):
            return "Incomplete(%s) for an input of %d bytes" % (m.group(1), n)
        m = re.match(r"ERR Partial\((\d+),(\d+)\)$", line)
        if m:
            x = expr_bytes(cases[0].split(" ")[1])[:16]
            have, need = int(m.group(1)), int(m.group(2))
            if not (n >= 16 and have == n - 16 and need == x[14] * 256 + x[15] and have < need):
                return "Partial(%d,%d) for an input of %d bytes declaring %d" % (have, need, n, x[14] * 256 + x[15])
            if tag != "fill":
                return "generator did not supply the fill cases for a Partial result"
            if not strip_flags(impl[1]).startswith("OK "):
                return "supplying exactly the %d missing bytes does not give a success: %s" % (need - have, impl[1][:100])
            if len(cases) > 2:
                k = expr_len(cases[2].split(" ")[1]) - n
                if strip_flags(impl[2]) != "ERR Partial(%d,%d)" % (have + k, need):
                    return "supplying %d of the %d missing bytes gives %s" % (k, need - have, impl[2][:100])
        # truncations of a well-formed header report exactly these counts
        if "cut" in meta and tag in ("one", "fill") and meta["cut"] < meta["full"]:
            want = "ERR Incomplete(%d)" % meta["cut"] if meta["cut"] < 16 else "ERR Partial(%d,%d)" % (meta["cut"] - 16, meta["declared"])
            if line != want:
                return "prefix of %d bytes of a %d-byte header: %s, expected %s" % (meta["cut"], meta["full"], line, want)
        return None


def hexs_len(h):
    if h == "-":
        return 0
    if h.startswith("#"):
        return int(h[1:].split(":")[0])
    return len(h) // 2


def hexs_head(h):
    """the first bytes of a canonical byte string (all of them when it is short)"""
    if h == "-":
        return b""
    if h.startswith("#"):
        return bytes.fromhex(h.split(":")[1])
    return bytes.fromhex(h)


def build_case(c, ops):
    return "build %s %s" % (c, ";".join(ops) if ops else "-")


def build_status(line):
    return line if line.startswith("OK ") else "ERR"


class BuilderProp(Prop):
    def neighbours(self, case, rng):
        _, c, ops = case.split(" ")
        ops = [] if ops == "-" else ops.split(";")
        seen = set()
        for i in range(len(ops)):
            for j in range(i + 1, len(ops) + 1):
                sub = ops[:i] + ops[j:]
                key = ";".join(sub)
                if key not in seen:
                    seen.add(key)
                    for g in self.groups("neighbourhood", (c, sub), {}):
                        yield (g[0], g[1], {})
        for i in range(len(ops) + 1):
            for extra in ("L=5", "L=-", "R=3", "P=u8:1"):
                for g in self.groups("neighbourhood", (c, ops[:i] + [extra] + ops[i:]), {}):
                    yield (g[0], g[1], {})


class C10(BuilderProp):
    id = "C10"
    projection_name = "out (build result: bytes, or the index of the failing call)"
    streams = (buildgen.exhaustive_histories, buildgen.random_histories, buildgen.size_boundary, buildgen.parse_round_trip, buildgen.long_batches)
    trusted_extra = ("capacity reservations are modelled as a counter no output depends on; their effect on allocation is not modelled (capacities are kept <= 100000 by the generators)",)

    def groups(self, stream, e, meta):
        c, ops = e
        yield ("hist", [build_case(c, ops)])
        if any(o.startswith("R=") for o in ops) or len(ops) < 8:
            erased = [o for o in ops if not o.startswith("R=")]
            extra = []
            for i, o in enumerate(ops):
                if i % 2 == 0:
                    extra.append("R=%d" % (7 * i + 1))
                extra.append(o)
            extra.append("R=2")
            yield ("same", [build_case(c, ops), build_case(c, erased), build_case(c, extra)])
        if any(o.startswith("B=") for o in ops) and not any("*" in o for o in ops):
            flat = []
            for o in ops:
                if o.startswith("B="):
                    flat.extend(["P=" + p for p in o[2:].split("|")] if o != "B=-" else [])
                else:
                    flat.append(o)
            yield ("same", [build_case(c, ops), build_case(c, flat)])
        elif 2 <= len(ops) <= 8:
            # the other direction: merge runs of single writes into one batch
            merged, run_ = [], []
            for o in ops + ["END"]:
                if o.startswith("P="):
                    run_.append(o[2:])
                else:
                    if run_:
                        merged.append("B=" + "|".join(run_))
                        run_ = []
                    if o != "END":
                        merged.append(o)
            if merged != ops:
                yield ("same", [build_case(c, ops), build_case(c, merged)])

    def classify(self, case, line):
        ops = case.split(" ")[2]
        kinds = "".join(sorted(set(o.split("=")[0][0] for o in ops.split(";")))) if ops != "-" else "none"
        return "%s ops=%s" % (line.split(" ")[0].split("@")[0], kinds)

    def oracle(self, tag, cases, impl, spec, meta):
        if any(x == "PANIC" for x in impl):
            return "the builder panicked"
        if tag == "hist":
            if impl[0].startswith("OK "):
                want = spec[0].split(" ")[1]
                if impl[0][3:] != want:
                    return "built bytes differ from the reference encoding of the call sequence: %s vs %s" % (impl[0][3:300], want[:300])
            return None
        st = [build_status(x) for x in impl]
        if any(x != st[0] for x in st):
            return "histories that differ only in reserve_capacity calls / batching give different outputs: %s" % " || ".join(x[:120] for x in st)
        return None


class C09(BuilderProp):
    id = "C09"
    projection_name = "out (build result: bytes incl. the length field, or the index of the failing call)"
    streams = (buildgen.exhaustive_histories, buildgen.random_histories, buildgen.size_boundary, buildgen.long_batches)

    def groups(self, stream, e, meta):
        c, ops = e
        yield ("hist", [build_case(c, ops)])

    def classify(self, case, line):
        ops = case.split(" ")[2].split(";")
        first_write = next((i for i, o in enumerate(ops) if o[0] in "PBT"), None)
        sets = [i for i, o in enumerate(ops) if o.startswith("L=")]
        shape = "noset" if not sets else ("set-after-write" if first_write is not None and sets[-1] > first_write else "set-before-write")
        return "%s %s" % (line.split(" ")[0].split("@")[0], shape)

    def oracle(self, tag, cases, impl, spec, meta):
        line = impl[0]
        if line == "PANIC":
            return "the builder panicked"
        ops = cases[0].split(" ")[2]
        force = None
        for o in (ops.split(";") if ops != "-" else []):
            if o.startswith("L="):
                force = None if o == "L=-" else int(o[2:])
        sp = kv(spec[0])
        if line.startswith("OK "):
            h = line[3:]
            total, head = hexs_len(h), hexs_head(h)
            if total < 16:
                return "built header shorter than the fixed part"
            field = head[14] * 256 + head[15]
            want = force if force is not None else total - 16
            if field != want:
                return "length field %d, but %s" % (field, ("the explicit length in force is %d" % force) if force is not None
                                                    else ("%d bytes follow the fixed part" % (total - 16)))
            if sp["big"] == "1":
                return "a value above 65535 bytes was accepted"
        return None


class C20(Prop):
    id = "C20"
    projection_name = "out (write_to result, bytes appended, to_bytes result)"
    streams = (buildgen.writer_cases,)
    assumptions = ("`below its size limit` is read as: writer contents + encoding <= 65551 bytes (DESIGN 2.2)",)

    def groups(self, stream, e, meta):
        yield ("write", ["write " + " ".join(e)])        # (prefill, value) or (prefill, value, earlier writes)

    def classify(self, case, line):
        kind = case.split(" ")[2].split(":")[0]
        return "%s kind=%s" % (line.split(" ")[0], kind)

    def neighbours(self, case, rng):
        _, pre, p = case.split(" ")[:3]
        for n in list(range(0, 40)) + list(range(65500, 65560)):
            yield ("write", ["write %s %s" % ("fill:%d:00" % n if n else "-", p)], {})

    def oracle(self, tag, cases, impl, spec, meta):
        line = impl[0]
        if line == "PANIC":
            return "write_to / to_bytes panicked"
        pre = expr_len(cases[0].split(" ")[1])
        m = re.match(r"W=(OK (\d+)|ERR) kept=([01]) app=(\S+) TB=(OK (\S+)|ERR)(?: pre=(\d+))?$", line)
        if not m:
            return "unparseable observation"
        if m.group(7) is not None:
            pre = int(m.group(7))       # what the writer held after the earlier writes of this case
        ok, n, kept, app, tb = m.group(1).startswith("OK"), m.group(2), m.group(3), m.group(4), m.group(6)
        sm = re.match(r"ENC (\S+) big=([01])$", spec[0])
        enc, big = sm.group(1), sm.group(2) == "1"
        if kept != "1":
            return "the bytes already in the writer were altered"
        if big:
            if ok or app != "-" or tb is not None:
                return "a value too large for its 16-bit length was not refused cleanly (%s)" % line[:120]
            return None
        if pre + hexs_len(enc) <= 65551:
            if not ok or int(n) != hexs_len(enc) or app != enc:
                return "write_to: %s; the encoding is %s (%d bytes)" % (line[:160], enc[:120], hexs_len(enc))
        elif ok and (int(n) != hexs_len(enc) or app != enc):
            return "write_to succeeded above the limit but did not append exactly the encoding"
        if hexs_len(enc) <= 65551 and tb != enc:
            return "to_bytes gives %s, the encoding is %s" % (str(tb)[:120], enc[:120])
        return None


class C07(BuilderProp):
    id = "C07"
    projection_name = "out + items (built bytes, their parse result, the TLV items read back)"
    streams = (buildgen.parse_round_trip,)

    def groups(self, stream, e, meta):
        c, ops = e
        yield ("wire", ["buildparse %s %s" % (c, ";".join(ops) if ops else "-")])

    def classify(self, case, line):
        c = case.split(" ")[1].split(",")
        return "%s fam=%s tlvs=%d" % (line.split(" ")[0].split("@")[0], c[3], min(len(case.split(" ")[2].split(";")), 3) if case.split(" ")[2] != "-" else 0)

    def neighbours(self, case, rng):
        _, c, ops = case.split(" ")
        ops = [] if ops == "-" else ops.split(";")
        for i in range(len(ops)):
            for j in range(i + 1, len(ops) + 1):
                for g in self.groups("neighbourhood", (c, ops[:i] + ops[j:]), {}):
                    yield (g[0], g[1], {})

    def oracle(self, tag, cases, impl, spec, meta):
        line = impl[0]
        if line == "PANIC":
            return "build / parse panicked"
        m = re.match(r"WIRE (\S+) (c\d) (p\d) (\S+) \[(.*)\]$", spec[0])
        if not m:
            return None
        wire, cmd, tr, addr, tlvs = m.groups()
        if not line.startswith("OK "):
            return "a header that fits in 65535 bytes was not built (%s)" % line
        built, parsed, items = line[3:].split(" | ")
        if built != wire:
            return "built bytes are not the wire encoding: %s vs %s" % (built[:200], wire[:200])
        want = "OK %s v2 %s %s %s i0c1" % (wire, cmd, tr, addr)
        if parsed != want:
            return "parsing the built header gives `%s`, expected `%s`" % (parsed[:200], want[:200])
        if addr != "N":
            got = re.search(r"\[(.*)\]$", items).group(1)
            if got != tlvs:
                return "TLVs read back differ: [%s] vs [%s]" % (got[:200], tlvs[:200])
        return None


class C13(Prop):
    id = "C13"
    projection_name = "out (equality of each re-build with the original header bytes)"
    streams = (v2gen.valid_headers, v2gen.header_tlvs, v2gen.control_v2, v2gen.truncations)

    def groups(self, stream, e, meta):
        yield ("rebuild", ["rebuild " + e])

    def classify(self, case, line):
        return line

    def oracle(self, tag, cases, impl, spec, meta):
        line = impl[0]
        if line == "PANIC":
            return "parse / re-build panicked"
        if line == "REJ":
            return None
        if not re.match(r"R=1 S=1 I=[1-] V=[1-]$", line):
            return "re-encoding a parsed header does not reproduce it: %s (R raw bytes, S TLV section value, I decoded items, V decoded address value; 0 = different bytes, E = build error)" % line
        return None



# ------------------------------------------------------------------------------------------------
# v1 / auto properties
# ------------------------------------------------------------------------------------------------

V1_TRAILERS = [b"x", b"5", b" ", b"\r", b"\n", b"\r\n", b"\x00", b"PROXY UNKNOWN\r\n", b"PROXY", "é".encode(), SIG,
               b"\xff", b"\xc3", b"\x16\x03\x01\x02\x00\x01\x00\x01\xfc\x03\x03\x9b"]


def v1_header_candidate(b):
    """the bytes through the LF that follows the first CR, if any"""
    i = b.find(b"\r")
    if i < 0 or i + 2 > len(b):
        return None
    return b[:i + 2]


def v2_header_candidate(b):
    if len(b) < 16:
        return None
    n = 16 + b[14] * 256 + b[15]
    return b[:n] if n <= len(b) else None


def settled(b):
    i = b.find(b"\r")
    return (i >= 0 and i + 1 < len(b)) or (i < 0 and len(b) >= 107)


def cls3(line):
    """OK / INC / TERM from the flags of an observation line"""
    f = flags_of(line)
    if line.startswith("PANIC"):
        return "PANIC"
    body = strip_flags(line)
    if body.startswith("OK") or " OK " in body[:8]:
        return "OK"
    return "INC" if f and f[0] else "TERM"


class C01(Prop):
    id = "C01"
    projection_name = "acc (accepted header text + decoded addresses, or REJ), on all four text entry points"
    streams = v1gen.V1_STREAMS
    assumptions = ("&str entry points are only given valid UTF-8 (a Rust type invariant)",)
    trusted_extra = ("Std models of Ipv4Addr/Ipv6Addr/u16 FromStr and str::from_utf8: proved equal to the split-based grammar "
                     "(Proofs/StdNum.v, StdIp6.v) and compared with the real std by the XSTD stream of ./check XSTD",)

    def groups(self, stream, e, meta):
        cases = ["v1b " + e]
        if is_utf8(expr_bytes(e)):
            cases += ["v1s " + e, "v1fh " + e, "v1fa " + e]
        yield ("acc", cases)

    def project(self, case, line):
        return acc(line)

    def oracle(self, tag, cases, impl, spec, meta):
        for c, i, s in zip(cases, impl, spec):
            if i == "PANIC":
                return "%s panicked" % c[:100]
            if acc(i) != s:
                return "%s: impl `%s`, grammar `%s`" % (c[:160], acc(i)[:160], s[:160])
        return None


class C18(Prop):
    id = "C18"
    projection_name = "cls (success / incomplete / terminal, and is_complete)"
    streams = v1gen.V1_STREAMS

    def groups(self, stream, e, meta):
        b = expr_bytes(e)
        cases = ["v1b " + e]
        if is_utf8(b):
            cases.append("v1s " + e)
        if settled(b):
            for t in (b"x", b"\r\n", b"\xff", b" 1"):
                cases.append("v1b " + hx(b + t))
        yield ("final", cases)

    def project(self, case, line):
        return cls3(line) + (FLAGS.search(line).group(0) if FLAGS.search(line) else "")

    def classify(self, case, line):
        b = expr_bytes(case.split(" ")[1])
        return "%s settled=%d" % (cls3(line), settled(b))

    def oracle(self, tag, cases, impl, spec, meta):
        b = expr_bytes(cases[0].split(" ")[1])
        # C18_bounded: "never has to buffer more than 107 bytes" -- an incomplete result for a longer input breaks it
        for c, i in zip(cases, impl):
            n = expr_len(c.split(" ")[1])
            if i != "PANIC" and cls3(i) == "INC" and n > 107:
                return "reported incomplete for an input of %d bytes: a receiver would have to buffer more than 107 bytes: %s -> %s" % (n, c[:140], i[:80])
        if not settled(b):
            return None
        base = None
        for c, i in zip(cases, impl):
            if i == "PANIC":
                return "%s panicked" % c[:100]
            k = cls3(i)
            if k == "INC":
                return "reported incomplete although the first line break (or 107 bytes) has been seen: %s -> %s" % (c[:160], i[:80])
            if c.startswith("v1b "):
                if base is None:
                    base = k
                elif k != base:
                    return "a later byte changed the verdict: %s is %s, its extension %s is %s" % (cases[0][:120], base, c[:140], k)
        return None


def sendpipe_cases(tier, rng, k, n):
    """C04_senders_pipeline: pipelines whose frames are produced by the crate's own encoders (Display for v1 addresses,
    the v2 builder) from values -- one to seven frames of both versions, then a remainder that is not a header"""
    rng = rng.fork("sendpipe%d" % k)
    count = (1500 if tier == "quick" else 40000) // n
    def v1_frame():
        pick = rng.below(5)
        if pick == 0:
            return "1@U"
        if pick in (1, 2):
            return "1@4,%s,%s,%d,%d" % (hx(rng.bytes(4) if rng.chance(2, 3) else special_ip4(rng)), hx(rng.bytes(4)), rng.below(65536), rng.below(65536))
        return "1@6,%s,%s,%d,%d" % (hx(rng.bytes(16) if rng.chance(1, 2) else special_ip6(rng)), hx(special_ip6(rng) if rng.chance(1, 2) else rng.bytes(16)),
                                     rng.below(65536), rng.below(65536))
    def v2_frame():
        ops = []
        for _ in range(rng.below(4)):
            ops.append(rng.choice(["T=4:2a", "T=1:6832", "TT=1:6578616d706c652e636f6d", "P=q:5:0102", "T=3:00000000", "R=64",
                                   "T=%d:%s" % (rng.below(256), hx(rng.bytes(rng.below(40)))), "B=t:4:00|t:2:6162"]))
        return "2@W,%d,%d,%s@%s" % (rng.choice([0x20, 0x21]), rng.below(3), buildgen.rand_addr(rng), ";".join(ops) or "-")
    rests = [b"", b"GET / HTTP/1.1\r\n\r\n", SIG[:7], b"PROXY TCP4 1.2.3", b"\x00", b"PROXY UNKNOWN", b"\r\n"]
    for i in range(count):
        frames = [(v1_frame() if rng.chance(1, 2) else v2_frame()) for _ in range(1 + rng.below(7 if i % 4 == 0 else 3))]
        yield ("sendpipe", ("~".join(frames), hx(rng.choice(rests))), {})


def ring_pipeline(obj, stream, cand):
    """every fifth header candidate: the last few candidates of both versions back to back plus a remainder that is not a
    header; returns (frames, rest) or None"""
    ring = obj.__dict__.setdefault("_ring", {"v1": [b"PROXY UNKNOWN\r\n"], "v2": [v2gen.v2_fixed(0x20, 0, 0)], "n": 0})
    mine, other = ("v2", "v1") if stream.startswith("v2") else ("v1", "v2")
    ring[mine] = (ring[mine] + [bytes(cand)])[-3:]
    ring["n"] += 1
    if ring["n"] % 5:
        return None
    j = ring["n"] // 5
    frames = [ring[mine][-1], ring[other][j % len(ring[other])], ring[mine][0]]
    if j % 3 == 0:
        frames = frames * 2 + [ring[other][-1]]
    rest = [b"", b"GET / HTTP/1.1\r\n\r\n", SIG[:7], b"PROXY TCP4 1.2.3", bytes(cand[:len(cand) // 2]), b"\x00"][j % 6]
    return frames, rest


def pipe_class(line):
    m = re.search(r"P=(\S+) R=(\d+)", line)
    if not m:
        return "pipe " + line[:12]
    kinds = "" if m.group(1) == "-" else "".join(f[0] for f in m.group(1).split(","))
    mix = "none" if not kinds else ("v1" if set(kinds) == {"1"} else "v2" if set(kinds) == {"2"} else "mixed")
    return "pipe frames=%s %s rest=%s" % (len(kinds) if len(kinds) < 4 else "4+", mix, "0" if m.group(2) == "0" else "some")


class C04(Prop):
    id = "C04"
    projection_name = "acc of the input, of the input followed by trailers, and of the header bytes on their own"
    streams = v1gen.V1_STREAMS + (v2gen.valid_headers, v2gen.control_v2, v2gen.header_tlvs, sendpipe_cases, v2gen.max_headers)

    def groups(self, stream, e, meta):
        if stream == "sendpipe":
            yield ("sendpipe", ["sendpipe %s %s" % e])
            return
        if stream == "v2-max":
            # maximal headers: the input, and the input followed by one byte / by a signature
            for m in ("v2", "auto"):
                yield ("trail:max", ["%s %s" % (m, e), "%s %s+78" % (m, e), "%s %s+%s" % (m, e, SIG.hex())])
            return
        b = expr_bytes(e)
        if len(b) > 2000:
            return
        modes = ["v2", "auto"] if stream.startswith("v2") else ["v1b", "auto"] + (["v1s"] if is_utf8(b) else [])
        cand = v2_header_candidate(b) if stream.startswith("v2") else v1_header_candidate(b)
        for m in modes:
            cases = ["%s %s" % (m, e)]
            for t in V1_TRAILERS:
                if m == "v1s" and not is_utf8(b + t):
                    continue
                cases.append("%s %s" % (m, hx(b + t)))
            if m != "v1s" and len(b) % 32 == 0:
                # a trailer so large that the whole buffer exceeds 65 551 bytes (and wraps 16-bit arithmetic)
                big = (65524, 65530, 65535)[(len(b) // 32) % 3]
                cases.append("%s %s" % (m, expr(b, "fill:%d:%02x" % (big, len(b) % 251))))
            if cand is not None and (m != "v1s" or is_utf8(cand)):
                cases.append("%s %s" % (m, hx(cand)))
            yield ("trail:" + ("cand" if cand is not None else "nocand"), cases)
        # pipelined headers (C04_pipeline): the last few header candidates of both versions back to back, followed by
        # something that is not a header; a receiver that removes exactly the reported bytes reads them one by one
        fr = ring_pipeline(self, stream, cand) if cand is not None and len(cand) <= 300 else None
        if fr is not None:
            frames, rest = fr
            cases = ["auto %s" % hx(f) for f in frames] + ["auto %s" % hx(rest), "pipe %s" % hx(b"".join(frames) + rest)]
            yield ("pipe", cases)

    def project(self, case, line):
        return line if case.startswith(("pipe ", "sendpipe ")) else acc(line)

    def classify(self, case, line):
        if case.startswith(("pipe ", "sendpipe ")):
            return pipe_class(line)
        return Prop.classify(self, case, line)

    def oracle(self, tag, cases, impl, spec, meta):
        if tag == "sendpipe":
            # every frame is built from well-formed values by the crate's own encoders: the loop must read exactly those
            # frames, kind by kind, their lengths must add up, and exactly the remainder must be left
            _, specs, rest = cases[0].split(" ")
            kinds = [sp[0] for sp in specs.split("~")]
            nrest = expr_len(rest)
            if impl[0] == "PANIC":
                return "sender-to-receiver pipeline panicked"
            m = re.match(r"N=(\d+) P=(\S+) R=(\d+)$", impl[0])
            if not m:
                return "sender-to-receiver pipeline: a frame built from well-formed values was refused by its encoder: %s" % impl[0][:80]
            got = [] if m.group(2) == "-" else m.group(2).split(",")
            if [g[0] for g in got] != kinds or int(m.group(3)) != nrest or sum(int(g[2:]) for g in got) + nrest != int(m.group(1)):
                return ("pipelined frames from the crate's own encoders are not read back one by one: sent kinds %s + %d bytes, "
                        "received %s" % ("".join(kinds), nrest, impl[0][:120]))
            return None
        if tag == "pipe":
            if "PANIC" in impl:
                return "parser panicked"
            frames = [expr_bytes(c.split(" ")[1]) for c in cases[:-2]]
            rest = expr_bytes(cases[-2].split(" ")[1]) if cases[-2].split(" ")[1] != "-" else b""
            oks = [acc(i) for i in impl[:-2]]
            if not all(a.startswith(("V1 OK ", "V2 OK ")) for a in oks) or acc(impl[-2]).startswith(("V1 OK ", "V2 OK ")):
                return None
            want = "P=%s R=%d" % (",".join("%s:%d" % (a[1], len(f)) for a, f in zip(oks, frames)), len(rest))
            if impl[-1] != want:
                return ("pipelined headers are not read one by one: each of %d headers is accepted on its own, but the receive loop "
                        "over their concatenation gives %s instead of %s" % (len(frames), impl[-1][:120], want[:120]))
            return None
        a0 = acc(impl[0])
        if impl[0] == "PANIC":
            return "parser panicked"
        if not (a0.startswith("OK ") or a0.startswith("V1 OK ") or a0.startswith("V2 OK ")):
            return None
        b = expr_bytes(cases[0].split(" ")[1])
        for c, i in zip(cases[1:], impl[1:]):
            if acc(i) != a0:
                return "accepted header depends on what follows it: %s -> %s but %s -> %s" % (cases[0][:120], a0[:100], c[:140], acc(i)[:100])
        if tag == "trail:max":
            return None
        if tag.endswith("nocand"):
            return "accepted although no complete header is present in the input"
        m = re.search(r"OK (\S+)", a0)
        head = hexs_head(m.group(1))
        if hexs_len(m.group(1)) != len(expr_bytes(cases[-1].split(" ")[1])) or not b.startswith(head):
            return "reported header bytes are not the line through its CRLF / the first 16 + length bytes of the input"
        return None


class C05(Prop):
    id = "C05"
    projection_name = "cls (success / incomplete / terminal, both flags)"
    streams = (v1gen.corpus, v1gen.valid, v1gen.slot_substitution, v1gen.length_boundary, v2gen.valid_headers, v2gen.control_v2)

    def groups(self, stream, e, meta):
        b = expr_bytes(e)
        if len(b) > 400:
            return
        if stream.startswith("v2"):
            cand = v2_header_candidate(b)
            modes = ["v2", "auto"]
        else:
            cand = v1_header_candidate(b)
            modes = ["v1b", "auto"] + (["v1s"] if is_utf8(b) else [])
        if cand is None:
            yield ("flags", ["%s %s" % (m, e) for m in modes])
            return
        # the stream of several pipelined headers arriving in reads (C05_stream_pipeline): cut at frame boundaries,
        # inside frames, with empty reads, byte by byte over the first 40 bytes, in the middle, and as one read
        fr = ring_pipeline(self, stream, cand) if len(cand) <= 300 else None
        if fr is not None:
            frames, rest = fr
            whole = b"".join(frames) + rest
            bounds, off = [], 0
            for f in frames:
                off += len(f)
                bounds.append(off)
            inside = sorted(set(max(0, min(len(whole), x + d)) for x in bounds for d in (-1, 1, -3)))
            cutsets = ["-", ",".join(map(str, bounds)), ",".join(map(str, inside)),
                       ",".join(map(str, sorted(bounds + bounds[:1] + inside[:2]))),
                       ",".join(map(str, range(0, min(len(whole), 40)))), str(len(whole) // 2)]
            yield ("readpipe", ["pipe %s" % hx(whole)] + ["readpipe %s %s" % (hx(whole), c) for c in cutsets])
        for m in modes:
            cases = ["%s %s" % (m, e)]
            for k in range(len(cand)):
                if m == "v1s" and not is_utf8(cand[:k]):
                    continue
                cases.append("%s %s" % (m, hx(cand[:k])))
            yield ("prefixes", cases)

    def project(self, case, line):
        if case.startswith(("pipe ", "readpipe ")):
            return line
        f = FLAGS.findall(line)
        return cls3(line) + str(f)

    def classify(self, case, line):
        if case.startswith(("pipe ", "readpipe ")):
            return pipe_class(line)
        return cls3(line)

    def oracle(self, tag, cases, impl, spec, meta):
        if tag == "readpipe":
            if "PANIC" in impl:
                return "streaming receiver panicked"
            for c, i in zip(cases[1:], impl[1:]):
                if i != impl[0]:
                    return ("a stream of pipelined headers delivered in reads differs from the one-shot result: one shot %s, "
                            "reads cut at %s give %s" % (impl[0][:100], c.split(" ")[2][:60], i[:100]))
            return None
        for c, i in zip(cases, impl):
            if i == "PANIC":
                return "%s panicked" % c[:100]
            for (a, b_) in FLAGS.findall(i) + [m.groups() for m in re.finditer(r" i([01])c([01]) ", i)]:
                if a == b_:
                    return "is_complete is not the negation of is_incomplete: %s -> %s" % (c[:120], i[:120])
            if cls3(i) == "OK" and flags_of(i)[0]:
                return "a success is flagged incomplete"
        if tag != "prefixes" or cls3(impl[0]) != "OK":
            return None
        head = expr_bytes(cases[0].split(" ")[1])
        if cases[0].startswith(("v1", "auto")) and not cases[0].startswith("auto 0d0a") and any(x >= 128 for x in (v1_header_candidate(head) or b"")):
            return None     # the property is stated for US-ASCII v1 lines
        for c, i in zip(cases[1:], impl[1:]):
            if cls3(i) != "INC":
                return "a proper prefix of an accepted header is not reported incomplete: %s -> %s" % (c[:160], i[:100])
        return None


class C06(Prop):
    id = "C06"
    projection_name = "full (tag, result and flags of HeaderResult::parse; for v1 results flagged incomplete the class, not the variant)"
    streams = v1gen.V1_STREAMS + (v2gen.signature, v2gen.valid_headers, v2gen.truncations, v2gen.control_v2, v2gen.control_space, v2gen.max_headers)

    def groups(self, stream, e, meta):
        if expr_len(e) > 3000 and stream != "v2-max":
            return
        yield ("auto", ["auto " + e, "v2 " + e, "v1b " + e])
        if stream in ("v1-valid", "v2-valid"):
            b = expr_bytes(e)
            # inputs that mix both versions
            yield ("auto", ["auto " + hx(SIG + b), "v2 " + hx(SIG + b), "v1b " + hx(SIG + b)])
            yield ("auto", ["auto " + hx(b"PROXY UNKNOWN\r\n" + b), "v2 " + hx(b"PROXY UNKNOWN\r\n" + b), "v1b " + hx(b"PROXY UNKNOWN\r\n" + b)])
            if len(b) % 16 == 0:
                # buffers whose total size sits around a multiple of 65 536 (16-bit arithmetic on sizes wraps there)
                sel = len(b) // 16
                d = (-2, -1, 0, 1, 2, 11, 12, 13, 15, 16, 17, 27, 28, 29, 40)[sel % 15]
                total = 65536 * (1 + sel % 2) + d + (16 if sel % 3 else 0)
                x = expr(b, "fill:%d:%02x" % (total - len(b), len(b) % 251))
                yield ("auto", ["auto " + x, "v2 " + x, "v1b " + x])

    def project(self, case, line):
        return norm_v1_inc(case, line)

    def classify(self, case, line):
        return case.split(" ")[0] + " " + line.split(" ")[0] + " " + cls3(line)

    def oracle(self, tag, cases, impl, spec, meta):
        a, r2, r1 = impl
        if "PANIC" in impl:
            return "a parser panicked"
        k2 = cls3(r2)
        want = ("V2 " + r2 + FLAGS.search(r2).group(0)) if k2 in ("OK", "INC") else ("V1 " + r1 + FLAGS.search(r1).group(0))
        if a != want:
            return "HeaderResult::parse gives `%s`; the dedicated parsers give v2 `%s`, v1 `%s`" % (a[:140], r2[:100], r1[:100])
        if k2 == "OK" and cls3(r1) == "OK":
            return "both dedicated parsers accept the same input"
        m = re.search(r"possible=([01])$", spec[1])
        if m and m.group(1) == "1" and not (a.startswith("V2 ") and cls3(a) in ("OK", "INC")):
            return "a buffer that is still a possible v2 header was handed to the text parser's verdict: %s" % a[:120]
        return None


class C12(Prop):
    id = "C12"
    oracle_uses_meta = True
    projection_name = "full (error variant with its crate-decided payload, and the completeness flag)"
    streams = (v1gen.mutations, v2gen.control_v2, v2gen.control_space, v2gen.signature)

    def groups(self, stream, e, meta):
        if stream == "v1-mut":
            cases = ["v1b " + e, "auto " + e]
            if not meta.get("bytes_only") and is_utf8(expr_bytes(e)):
                cases.append("v1s " + e)
            yield ("v1:" + meta["elem"], cases)
        else:
            yield ("v2", ["v2 " + e, "auto " + e])

    def project(self, case, line):
        return norm_v1_inc(case, line)

    def oracle(self, tag, cases, impl, spec, meta):
        if "PANIC" in impl:
            return "a parser panicked"
        if tag.startswith("v1:"):
            elem = tag[3:]
            want = {"kw": "InvalidPrefix", "proto": "InvalidProtocol", "sa": "InvalidSourceAddress", "da": "InvalidDestinationAddress",
                    "sp": "InvalidSourcePort", "dp": "InvalidDestinationPort", "nl": "InvalidSuffix", "long": "HeaderTooLong",
                    "utf8": "InvalidUtf8", "none": None}[elem]
            if want is None:
                return None
            # a replacement can also push the line over the 107-byte limit or make it invalid UTF-8: then that
            # (earlier) check is the one the parser must report
            xb = expr_bytes(cases[0].split(" ")[1])
            cr = xb.find(b"\r")
            window = xb[:cr + 2] if cr >= 0 else xb
            if not is_utf8(window):
                want = "InvalidUtf8"
            elif len(window) > 107:
                want = "HeaderTooLong"
            for c, i in zip(cases, impl):
                body = strip_flags(i)
                if c.startswith("auto "):
                    body = strip_flags(body)
                    if not body.startswith("V1 "):
                        return "a text line was not given the text parser's verdict: %s" % i[:100]
                    body = body[3:]
                if c.startswith("v1s ") and want == "InvalidUtf8":
                    continue
                if not re.match(r"ERR %s(\(|$)" % want, body) or not i.endswith("i0c1"):
                    return "element `%s` corrupted (%s): expected a terminal %s, got `%s` for %s" % (elem, meta.get("bad", ""), want, i[:80], c[:160])
            return None
        # v2: decide from the bytes which single element is malformed (all others valid, >= 16 bytes present)
        x = expr_bytes(cases[0].split(" ")[1])[:16]
        if len(x) < 16:
            return None
        got = strip_flags(impl[0])
        vc, fp, n = x[12], x[13], x[14] * 256 + x[15]
        bad = []
        if x[:12] != SIG:
            bad.append("ERR Prefix")
        if vc >> 4 != 2:
            bad.append("ERR Version(%d)" % (vc & 0xF0))
        if vc & 15 > 1:
            bad.append("ERR Command(%d)" % (vc & 15))
        if fp >> 4 > 3:
            bad.append("ERR AddressFamily(%d)" % (fp & 0xF0))
        if fp & 15 > 2:
            bad.append("ERR Protocol(%d)" % (fp & 15))
        size = {0: 0, 1: 12, 2: 36, 3: 216}.get(fp >> 4, 0)
        if fp >> 4 <= 3 and n < size:
            bad.append("ERR InvalidAddresses(%d,%d)" % (n, size))
        if len(bad) != 1:
            return None
        if got != bad[0] or not impl[0].endswith("i0c1"):
            return "one malformed element, expected a terminal `%s`, got `%s`" % (bad[0], impl[0][:80])
        if cls3(impl[1]) != "TERM":
            return "under auto-detection a corrupted v2 header is not rejected terminally: %s" % impl[1][:100]
        return None


class C15(Prop):
    id = "C15"
    projection_name = "views (protocol(), addresses_str(), to_string() of the parsed header)"
    streams = (v1gen.corpus, v1gen.valid, v1gen.slot_substitution, v1gen.length_boundary, v1gen.token_enum)

    def groups(self, stream, e, meta):
        yield ("views", ["views1 " + e, "v1b " + e])

    def project(self, case, line):
        # the borrowed header's views; what the owned copy shows is C16's business
        if case.startswith("v1b "):
            return acc(line)
        m = re.match(r"(B\[.*?\]) O\[", line)
        return m.group(1) if m else line.split(" | ")[0]

    def classify(self, case, line):
        if line.startswith("B["):
            return "OK proto=" + kv(line[2:line.index("]")])["proto"]
        return line.split(" ")[0] if not line.startswith("ERR") else "REJ"

    def oracle(self, tag, cases, impl, spec, meta):
        line, parsed = impl
        if "PANIC" in impl:
            return "a view panicked"
        if line == "REJ":
            return None if not parsed.startswith("OK") else "views unavailable for an accepted header"
        m = re.match(r"B\[(.*)\] O\[(.*)\] \| (.*)$", line)
        b, o, extra = kv(m.group(1)), kv(m.group(2)), kv(m.group(3))
        text = hexs_head(strip_flags(parsed).split(" ")[1])
        un = lambda h: b"" if h == "-" else bytes.fromhex(h)
        proto, aproto, astr, s_ = un(b["proto"]), un(b["aproto"]), un(b["astr"]), un(b["str"])
        if s_ != text:
            return "to_string() is not the header text"
        fields = text[:-2].split(b" ")
        if proto != aproto or len(fields) < 2 or proto != fields[1]:
            return "protocol() is not the second field of the line / not the kind of the addresses"
        kind = strip_flags(parsed).split(" ")[2][0]
        if {b"TCP4": "4", b"TCP6": "6", b"UNKNOWN": "U"}.get(proto) != kind:
            return "protocol keyword does not match the decoded addresses"
        for sep in (b"", b" "):
            if b"PROXY " + proto + sep + astr + b"\r\n" == text and (sep or not astr):
                return None
        return "PROXY, protocol, address text and CRLF do not re-assemble to the header text"


class C16(Prop):
    id = "C16"
    projection_name = "full (result of the four text entry points; views and equality of owned copies)"
    streams = v1gen.V1_STREAMS + (v2gen.valid_headers, v2gen.header_tlvs)
    needs_no_unsafe = True
    trusted_extra = ("PARTIAL: independence of owned copies from the source buffer is a property of Rust's ownership, not of "
                     "any Gallina value; checked by observation (buffer overwritten and freed before the copy is compared) "
                     "and by the absence of `unsafe` in /repo/src",)

    def groups(self, stream, e, meta):
        b = expr_bytes(e)
        if stream.startswith("v2"):
            yield ("own2", ["views2 " + e])
            return
        if is_utf8(b):
            yield ("agree", ["v1b " + e, "v1s " + e, "v1fh " + e, "v1fa " + e])
        yield ("own1", ["views1 " + e])

    def project(self, case, line):
        if case.startswith("views"):
            # what C16 says about owned copies: same views as the original (the model's copies are the identity,
            # so it prints identical B[..] and O[..]); the values of the views themselves belong to C14 / C15
            head = line.split(" | ")[0]
            m = re.match(r"B\[(.*)\] O\[(.*)\]$", head)
            return ("OK same-views=%d" % (m.group(1) == m.group(2))) if m else head
        return norm_v1_inc(case, line.split(" | ")[0])

    def oracle(self, tag, cases, impl, spec, meta):
        if "PANIC" in impl:
            return "an entry point panicked: %s" % cases[impl.index("PANIC")][:160]
        if tag in ("own1", "own2"):
            if impl[0] == "REJ":
                return None
            m = re.match(r"B\[(.*)\] O\[(.*)\] \| (.*)$", impl[0])
            extra = kv(m.group(3))
            if m.group(1) != m.group(2) or extra.get("eq") != "1" or extra.get("clobber") != "1":
                return "an owned copy differs from its original or did not survive the buffer: %s" % impl[0][-60:]
            return None
        b = expr_bytes(cases[0].split(" ")[1])
        i = b.find(b"\r")
        n = min(i + 2, len(b)) if i >= 0 else len(b)
        on_boundary = is_utf8(b[:n])
        rb, rs, rh, ra = impl
        if not on_boundary:
            if any(cls3(x) == "OK" for x in impl):
                return "the examined line ends inside a multi-byte character, yet an entry point succeeds"
            return None
        if rb != rs or rh != rs:
            return "entry points disagree: bytes `%s`, &str `%s`, Header::from_str `%s`" % (rb[:90], rs[:90], rh[:90])
        want = ("OK " + strip_flags(rs).split(" ")[2] + FLAGS.search(rs).group(0)) if rs.startswith("OK ") else rs
        if ra != want:
            return "Addresses::from_str gives `%s`, Header::try_from `%s`" % (ra[:90], rs[:90])
        return None


def addr_values(tier, rng, k, n):
    """address values for C08: all 256 zero-masks, mapped, all-ones / all-zero, boundary octets and ports; source != destination"""
    rng = rng.fork("addr%d" % k)
    count = (6000 if tier == "quick" else 150000) // n
    crng = Rng(0xC1A55).fork("fmtpairs")
    for fam in (6, 4):
        for a, b in class_pairs(crng, fam, k, n):
            if a != b:
                yield ("fmt-v%d" % fam, "%d,%s,%s,%d,%d" % (fam, hx(a), hx(b), 1 + crng.below(65535), crng.below(65536)), {})
    if k == 0:
        yield ("fmt-unknown", "U", {})
        for o in (bytes(4), bytes([255] * 4)):
            yield ("fmt-v4", "4,%s,%s,0,65535" % (hx(o), hx(bytes([1, 2, 3, 4]))), {})
        for o in (bytes(16), bytes([255] * 16), bytes(10) + b"\xff\xff\x01\x02\x03\x04", bytes(12) + b"\x01\x02\x03\x04"):
            yield ("fmt-v6", "6,%s,%s,65535,0" % (hx(o), hx(bytes(15) + b"\x01")), {})
    for mask in range(k, 256, n):
        for _ in range(3):
            ga, gb = v1gen.rand_groups(rng, mask), v1gen.rand_groups(rng)
            yield ("fmt-v6", "6,%s,%s,%d,%d" % (hx(v1gen.groups_octets(ga)), hx(v1gen.groups_octets(gb)), v1gen.rand_port(rng), v1gen.rand_port(rng)), {})
            yield ("fmt-v6", "6,%s,%s,%d,%d" % (hx(v1gen.groups_octets(gb)), hx(v1gen.groups_octets(ga)), v1gen.rand_port(rng), v1gen.rand_port(rng)), {})
    for _ in range(count):
        if rng.chance(1, 2):
            yield ("fmt-v4", "4,%s,%s,%d,%d" % (hx(v1gen.rand_ip4(rng)), hx(v1gen.rand_ip4(rng)), v1gen.rand_port(rng), v1gen.rand_port(rng)), {})
        else:
            yield ("fmt-v6", "6,%s,%s,%d,%d" % (hx(v1gen.groups_octets(v1gen.rand_groups(rng))), hx(v1gen.groups_octets(v1gen.rand_groups(rng))),
                                                 v1gen.rand_port(rng), v1gen.rand_port(rng)), {})
    step = 1 if tier != "quick" else 37
    for p in range(k * step, 65536, n * step):
        yield ("fmt-ports", "4,01020304,05060708,%d,%d" % (p, 65535 - p), {})


class C08(Prop):
    id = "C08"
    projection_name = "acc of (to_string, then the four text entry points on it, then to_string of the parsed header)"
    streams = (addr_values, v1gen.valid)

    def groups(self, stream, e, meta):
        if stream.startswith("fmt"):
            yield ("fmt", ["fmt1 " + e])
        else:
            yield ("hdr", ["views1 " + e, "v1b " + e])

    def project(self, case, line):
        return line.split(" | ")[0]

    def classify(self, case, line):
        return case.split(" ")[1][:1] if case.startswith("fmt1") else line.split(" ")[0][:3]

    def neighbours(self, case, rng):
        return iter(())

    def oracle(self, tag, cases, impl, spec, meta):
        if "PANIC" in impl:
            return "formatting / parsing panicked"
        if tag == "hdr":
            if impl[0] == "REJ":
                return None
            b = kv(re.match(r"B\[(.*)\] O\[", impl[0]).group(1))
            if b["str"] != strip_flags(impl[1]).split(" ")[1]:
                return "a parsed header does not format back to the text it was parsed from"
            return None
        a = cases[0].split(" ")[1]
        m = re.match(r"S=(\S+) B=(.*) S=(.*) H=(.*) A=(.*) HS=(\S+)$", impl[0])
        if not m:
            return "unparseable observation"
        s_, rb, rs, rh, ra, hs = m.groups()
        if hexs_len(s_) > 107:
            return "formatted line longer than 107 bytes"
        f = a.split(",")
        want = "U" if f[0] == "U" else "%s/%s/%s/%s/%s" % tuple(f)
        ok = "OK %s %s i0c1" % (s_, want)
        if rb != ok or rs != ok or rh != ok or ra != "OK %s i0c1" % want:
            return "formatting %s gives %s, which does not parse back to the same value through every entry point (%s | %s)" % (
                a, bytes.fromhex(s_), rb[:100], ra[:80])
        if hs != s_:
            return "the parsed header does not print the text it was parsed from"
        if spec[0] != "-" and spec[0] != "WF " + want:
            return "the formatted text is not a well-formed line for that value according to the grammar: %s" % spec[0][:100]
        return None


def _ctor_cases_base(tier, rng, k, n):
    """C19: every constructor / From impl on values whose components are pairwise different"""
    rng = rng.fork("ctor%d" % k)
    count = (8000 if tier == "quick" else 150000) // n
    def distinct(nbytes, howmany):
        seen, out = set(), []
        while len(out) < howmany:
            b = rng.bytes(nbytes) if not rng.chance(1, 6) else bytes([rng.choice([0, 1, 255])]) * nbytes
            if b not in seen:
                seen.add(b)
                out.append(b)
        return out
    def ports():
        p = rng.below(65536)
        q = rng.below(65536)
        while q == p:
            q = rng.below(65536)
        return p, q
    # deterministic part: every ordered pair of address classes through the component constructors and through
    # From<(SocketAddr, SocketAddr)> in all four family combinations
    crng = Rng(0xC1A55).fork("ctorpairs")
    for fam in (6, 4):
        for a, b in class_pairs(crng, fam, k, n):
            if a == b:
                continue
            sp, dp = 1 + crng.below(30000), 30001 + crng.below(30000)
            yield ("ctor-ip%d" % fam, ("ip%dnew" % fam, "%s,%s,%d,%d" % (hx(a), hx(b), sp, dp)), {})
            if fam == 4:
                yield ("ctor-pair", ("pair", "4,%s,%d,4,%s,%d" % (hx(a), sp, hx(b), dp)), {"fam": (4, 4)})
            else:
                yield ("ctor-pair", ("pair", "6,%s,%d,%d,%d,6,%s,%d,%d,%d" % (hx(a), sp, crng.below(1 << 32), crng.below(3),
                                                                            hx(b), dp, crng.below(1 << 32), crng.below(3))), {"fam": (6, 6)})
    # identical endpoints: the same address -- and the same port, flow label and scope -- in both roles (a relation
    # between the two arguments rather than a value of either)
    for a in ip4_classes(crng)[k::n]:
        for sp, dp in ((80, 80), (80, 81)):
            yield ("ctor-pair", ("pair", "4,%s,%d,4,%s,%d" % (hx(a), sp, hx(a), dp)), {"fam": (4, 4)})
            yield ("ctor-ip4", ("ip4new", "%s,%s,%d,%d" % (hx(a), hx(a), sp, dp)), {})
    for a in ip6_classes(crng)[k::n]:
        for sp, dp, fl, sc in ((443, 443, 7, 3), (443, 443, 0, 0), (443, 444, 7, 3)):
            yield ("ctor-pair", ("pair", "6,%s,%d,%d,%d,6,%s,%d,%d,%d" % (hx(a), sp, fl, sc, hx(a), dp, fl, sc)), {"fam": (6, 6)})
            yield ("ctor-ip6", ("ip6new", "%s,%s,%d,%d" % (hx(a), hx(a), sp, dp)), {})
    idx = 0
    for a in ip4_classes(crng):
        for b in ip6_classes(crng):
            idx += 1
            if idx % n != k:
                continue
            sp, dp = 1 + crng.below(30000), 30001 + crng.below(30000)
            six = "6,%s,%%d,%d,%d" % (hx(b), crng.below(1 << 32), crng.below(3))
            yield ("ctor-pair", ("pair", "4,%s,%d,%s" % (hx(a), sp, six % dp)), {"fam": (4, 6)})
            yield ("ctor-pair", ("pair", "%s,4,%s,%d" % (six % sp, hx(a), dp)), {"fam": (6, 4)})
    for _ in range(count):
        pick = rng.below(8)
        sp, dp = ports()
        if pick == 0:
            a, b = distinct(4, 2)
            yield ("ctor-ip4", ("ip4new", "%s,%s,%d,%d" % (hx(a), hx(b), sp, dp)), {})
        elif pick == 1:
            a, b = distinct(16, 2)
            yield ("ctor-ip6", ("ip6new", "%s,%s,%d,%d" % (hx(a), hx(b), sp, dp)), {})
        elif pick == 2:
            a = bytearray(rng.bytes(108))
            b = bytearray(a)
            b[rng.below(108)] ^= 1 + rng.below(255)      # paths differing in one byte
            yield ("ctor-unix", ("unix", "%s,%s" % (hx(bytes(a)), hx(bytes(b)))), {})
        elif pick in (3, 4, 5, 6):
            fam = [(4, 4), (6, 6), (4, 6), (6, 4)][pick - 3]
            parts = []
            for f, port in zip(fam, (sp, dp)):
                if f == 4:
                    parts.append("4,%s,%d" % (hx(rng.bytes(4) if rng.chance(2, 3) else special_ip4(rng)), port))
                else:
                    ip6 = rng.bytes(16) if rng.chance(1, 2) else special_ip6(rng)      # incl. IPv4-mapped V6 socket addresses
                    parts.append("6,%s,%d,%d,%d" % (hx(ip6), port, rng.below(1 << 32), rng.below(1 << 32)))
            yield ("ctor-pair", ("pair", ",".join(parts)), {"fam": fam})
        else:
            v = rng.bytes(rng.below(20))
            yield ("ctor-tlv", ("tlv", "%d,%s" % (rng.below(256), hx(v))), {})
    if k == 0:
        for t in range(12):
            yield ("ctor-type", ("type", str(t)), {})
        yield ("ctor-default", ("default1", "-"), {})
        for c in range(2):
            for f in range(4):
                for pr in range(3):
                    yield ("ctor-bitor", ("bitor", "%d,%d,%d" % (c, f, pr)), {})
        yield ("ctor-hdr", ("hdr1", "50524f585920554e4b4e4f574e0d0a,4,01020304,05060708,1,2"), {})


def ctor_cases(tier, rng, k, n):
    """the constructor stream; every socket-address pair is also carried end to end (Display -> parse, Builder -> parse):
    the tie for C19_round_v1 / C19_round_v2 / C19_wire_layout / C19_text_layout"""
    for stream, e, meta in _ctor_cases_base(tier, rng, k, n):
        yield (stream, e, meta)
        if e[0] == "pair":
            yield ("ctor-pairrt", ("pairrt", e[1]), meta)


class C19(Prop):
    id = "C19"
    projection_name = "ctor (public fields of the constructed values, variant of the resulting Addresses)"
    streams = (ctor_cases,)
    trusted_extra = ("the theorems of Props/C19.v are reflexivity facts about Model/Ctor.v; the property is decided by the tie "
                     "(field-by-field comparison with the real constructors on pairwise different components)",)

    IN_SCOPE = ("ip4new", "ip6new", "unix", "pair", "pairrt")

    def groups(self, stream, e, meta):
        # Type codes, TypeLengthValue::new / From / to_owned, the BitOr impls, Addresses::default and Header::new are
        # exercised by the same stream but are not what C19 states: they are compared in the internal run XCTOR only
        if (e[0] in self.IN_SCOPE) == (self.id == "C19"):
            yield ("ctor", ["ctor %s %s" % e])

    def classify(self, case, line):
        return case.split(" ")[1] + " " + re.sub(r"=[^ ]*", "", line)[:30] + (" mixed" if "V1=U" in line and case.split(" ")[1] == "pair" else "")

    def neighbours(self, case, rng):
        return iter(())

    def oracle(self, tag, cases, impl, spec, meta):
        _, kind, args = (cases[0].split(" ") + ["-"])[:3]
        f = args.split(",")
        line = impl[0]
        if line == "PANIC":
            return "constructor panicked"
        if kind in ("ip4new", "ip6new"):
            n = "4" if kind == "ip4new" else "6"
            sa, da, sp, dp = f
            want = "F=%s/%s/%s/%s V1=%s/%s/%s/%s/%s V2=%s/%s/%s/%s/%s N1=%s/%s/%s/%s/%s" % (sa, da, sp, dp, n, sa, da, sp, dp, n, sa, da, sp, dp, n, sa, da, sp, dp)
            if line != want:
                return "%s(%s): an argument ended up in the wrong role: %s" % (kind, args, line)
        elif kind == "unix":
            if line != "F=%s/%s V2=X/%s/%s" % (f[0], f[1], f[0], f[1]):
                return "Unix::new: source / destination swapped or altered"
        elif kind == "pair":
            if f[0] == "4":
                s, rest = (f[1], f[2]), f[3:]
            else:
                s, rest = (f[1], f[2]), f[5:]
            d = (rest[1], rest[2])
            if f[0] == rest[0]:
                n = f[0]
                want = "V1=%s/%s/%s/%s/%s V2=%s/%s/%s/%s/%s" % (n, s[0], d[0], s[1], d[1], n, s[0], d[0], s[1], d[1])
            else:
                want = "V1=U V2=N"
            if line != want:
                return "From<(SocketAddr, SocketAddr)>: expected %s, got %s" % (want, line)
        elif kind == "pairrt":
            if f[0] == "4":
                s, rest = (f[1], f[2]), f[3:]
            else:
                s, rest = (f[1], f[2]), f[5:]
            d = (rest[1], rest[2])
            m = re.match(r"L=(\S+) R1=(\S+) RA=(\S+) W=(\S+) R2=(\S+)$", line)
            if not m:
                return "end-to-end pair case: unreadable result %s" % line[:80]
            L, r1, ra, w, r2 = m.groups()
            if f[0] == rest[0]:
                n = f[0]
                want = "%s/%s/%s/%s/%s" % (n, s[0], d[0], s[1], d[1])
                if r1 != want or ra != want:
                    return "pair -> v1 line -> parse: source/destination not preserved: expected %s, got %s / %s" % (want, r1, ra)
                if r2 != want:
                    return "pair -> v2 builder -> parse: source/destination not preserved: expected %s, got %s" % (want, r2)
                block = s[0] + d[0] + "%04x%04x" % (int(s[1]), int(d[1]))
                if w == "ERR" or w[32:] != block:
                    return "pair -> v2 builder: the address block on the wire is not source address, destination address, source port, destination port"
                tail = " %s %s\r\n" % (s[1], d[1])
                if not bytes.fromhex(L).endswith(tail.encode()) or not bytes.fromhex(L).startswith(b"PROXY TCP" + n.encode() + b" "):
                    return "pair -> v1 line: the ports are not source port then destination port"
            else:
                if r1 != "U" or ra != "U" or r2 != "N" or bytes.fromhex(L) != b"PROXY UNKNOWN\r\n" or w[32:] != "":
                    return "mixed pair carried end to end is not the unknown / unspecified value: %s" % line[:100]
        elif kind == "bitor":
            c, fam, pr = (int(x) for x in f)
            want = "VC=%d CV=%d FP=%d PF=%d FL=%s" % (0x20 | c, 0x20 | c, (fam << 4) | pr, (fam << 4) | pr, ["-", "12", "36", "216"][fam])
            if line != want:
                return "BitOr / byte_length of the control-byte enums: expected %s, got %s" % (want, line)
        elif kind == "type":
            codes = [1, 2, 3, 4, 5, 0x20, 0x21, 0x22, 0x23, 0x24, 0x25, 0x30]
            if line != "C=%d" % codes[int(f[0])]:
                return "u8::from(Type) is not the registered code"
        elif kind == "tlv":
            if not line.endswith("from_eq=1 owned_eq=1") or not line.startswith("K=%s V=%s " % (f[0], f[1])):
                return "TypeLengthValue::new / From / to_owned altered kind or value"
        return None


class XCTOR(C19):
    """internal: the remaining constructor-like functions (no property of their own) against the model"""
    id = "XCTOR"


class C03(Prop):
    id = "C03"
    projection_name = "safe (returned / panicked; number of iterator steps)"
    profiles = ("debug", "release")
    needs_no_unsafe = True
    streams = v1gen.V1_STREAMS + (v2gen.signature, v2gen.control_v2, v2gen.valid_headers, v2gen.truncations,
                                  v2gen.tlv_small, v2gen.tlv_lists, v2gen.header_tlvs)
    trusted_extra = ("PARTIAL: panics or hangs that originate inside std, the allocator or `unsafe` code cannot be exhibited by "
                     "the model; they are covered by observation only (catch_unwind around every case, debug build with overflow "
                     "checks and release build, step counting, `unsafe` grep)",)

    def groups(self, stream, e, meta):
        b_len = expr_len(e)
        if stream.startswith("tlv"):
            yield ("tlv", ["tlv " + e])
            return
        if stream.startswith("v2"):
            yield ("v2", ["v2 " + e, "auto " + e, "views2 " + e, "htlv " + e] + (["v1b " + e] if b_len < 300 else []))
            return
        cases = ["v1b " + e, "auto " + e, "views1 " + e, "v2 " + e]
        if is_utf8(expr_bytes(e)):
            cases += ["v1s " + e, "v1fh " + e, "v1fa " + e]
        yield ("v1", cases)

    def project(self, case, line):
        if line == "PANIC":
            return "PANIC"
        m = re.match(r"n=(\d+) ", line)
        return "RET" + (" steps=" + m.group(1) if m else "")

    def classify(self, case, line):
        return case.split(" ")[0] + " " + ("PANIC" if line == "PANIC" else "returned")

    def oracle(self, tag, cases, impl, spec, meta):
        for c, i in zip(cases, impl):
            if i == "PANIC":
                return "panic in %s" % c[:200]
            if "RUNAWAY" in i:
                return "TLV iteration does not end: %s" % c[:200]
            m = re.match(r"n=(\d+) ", i)
            if m:
                n = expr_len(c.split(" ")[1])
                if c.startswith("htlv"):
                    n = max(n - 16, 0)
                if int(m.group(1)) > n // 3 + 1:
                    return "TLV iteration of a %d-byte section took %s steps" % (n, m.group(1))
        return None


def is_utf8(b):
    try:
        b.decode("utf-8")
        return True
    except UnicodeDecodeError:
        return False


class XV1(Prop):
    """internal: validates the v1 / auto model against the implementation on every v1 stream, all entry points"""
    id = "XV1"
    streams = v1gen.V1_STREAMS + (v2gen.signature,)

    def groups(self, stream, e, meta):
        cases = ["v1b " + e, "auto " + e, "views1 " + e]
        if is_utf8(expr_bytes(e)):
            cases += ["v1s " + e, "v1fh " + e, "v1fa " + e]
        yield ("all", cases)

    def project(self, case, line):
        return line.split(" | ")[0]


class XC01(XV1):
    """internal: the grammar oracle of Spec/V1Grammar.v against the implementation"""
    id = "XC01"

    def groups(self, stream, e, meta):
        cases = ["v1b " + e]
        if is_utf8(expr_bytes(e)):
            cases += ["v1s " + e, "v1fh " + e, "v1fa " + e]
        yield ("acc", cases)

    def oracle(self, tag, cases, impl, spec, meta):
        for c, i, s in zip(cases, impl, spec):
            if acc(i) != s:
                return "%s: impl `%s`, grammar `%s`" % (c[:120], acc(i)[:120], s[:120])
        return None


class XSTD(Prop):
    """internal: validates the Std models against the real standard library"""
    id = "XSTD"
    streams = (v1gen.std_cases,)

    def groups(self, stream, e, meta):
        yield ("std", ["std %s %s" % e])

    def oracle(self, tag, cases, impl, spec, meta):
        kind = cases[0].split(" ")[1]
        if kind in ("ip4", "ip6") and impl[0] != spec[0]:
            return "std %s: `%s`, grammar of Spec/V1Grammar.v: `%s`" % (cases[0][:100], impl[0], spec[0])
        return None

    def neighbours(self, case, rng):
        return iter(())


REGISTRY = {c.id: c for c in (XV1(), XC01(), XSTD(), XV2(), XCTOR(), XTLV(), C01(), C03(), C04(), C05(), C06(), C08(), C12(), C15(), C16(), C18(), C19(), C02(), C07(), C09(), C10(), C11(), C13(), C14(), C17(), C20())}


def get(prop):
    if prop not in REGISTRY:
        raise SystemExit("check: property %s is not claimed (see MANIFEST.json not_applicable)" % prop)
    return REGISTRY[prop]


def known_class(name, failure):
    """decidable predicates naming classes of inputs recorded as open findings in KNOWN_FINDINGS.txt"""
    return False
