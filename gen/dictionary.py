"""A dictionary harvested from the production code of the repository on every run (DESIGN 5.3, "source dictionary").

The correspondence check is differential testing and a change that special-cases a *value* (an address prefix, a TLV
type, a keyword, a size) is invisible to it unless a generator happens to produce that value.  Such changes nearly
always spell the value out in the source.  So the streams are fed, besides their fixed boundary values, with what the
current source mentions: integer literals (singly, and as the tuple of literals that share a line), string / byte-string
literals, and the names of the `std::net` classification methods it calls.  Nothing here interprets the Rust code; the
dictionary only steers the search, the verdict still comes from model-vs-implementation and the oracles.
"""
import os
import re

_CACHE = {}

# classification / conversion methods of std::net::{IpAddr, Ipv4Addr, Ipv6Addr} -> address classes (see lib.special_*)
NET_METHODS = ("to_ipv4_mapped", "to_ipv4", "to_ipv6_mapped", "to_ipv6_compatible", "to_canonical", "is_loopback",
               "is_unspecified", "is_multicast", "is_link_local", "is_unicast_link_local", "is_unique_local",
               "is_private", "is_broadcast", "is_documentation", "is_global", "is_shared", "is_benchmarking",
               "is_reserved", "segments", "octets", "is_ipv4", "is_ipv6", "to_bits", "from_bits")


def repo_root():
    return os.environ.get("VERIF_ALT_REPO") or "/repo"


def _production_text(path):
    out = []
    for l in open(path, encoding="utf-8", errors="replace"):
        s = l.strip()
        if s.startswith("#[cfg(test)]"):
            break
        if s.startswith("//"):
            continue
        out.append(l.rstrip("\n"))
    return out


def _strip_comment(line):
    inq = False
    for j, ch in enumerate(line):
        if ch == '"' and (j == 0 or line[j - 1] != "\\"):
            inq = not inq
        if not inq and line.startswith("//", j):
            return line[:j]
    return line


_INT = re.compile(r"(?<![\w.])(0x[0-9A-Fa-f_]+|0b[01_]+|\d[\d_]*)(?:_?(?:u8|u16|u32|u64|u128|usize|i8|i16|i32|i64|isize))?\b")
_STR = re.compile(r'b?"((?:[^"\\]|\\.)*)"')
_CHR = re.compile(r"b?'((?:[^'\\]|\\.))'")


def _unescape(s):
    try:
        return s.encode("latin-1", "replace").decode("unicode_escape").encode("latin-1", "replace")
    except Exception:
        return s.encode("utf-8", "replace")


def harvest(root=None):
    """returns dict(ints=sorted list, tuples=list of int tuples (len>=2) found on one line, strs=list of bytes,
    methods=list of names)"""
    root = root or repo_root()
    if root in _CACHE:
        return _CACHE[root]
    ints, tuples, strs, methods = set(), [], set(), set()
    src = os.path.join(root, "src")
    for dirpath, _, files in sorted(os.walk(src)):
        for f in sorted(files):
            if not f.endswith(".rs"):
                continue
            for line in _production_text(os.path.join(dirpath, f)):
                code = _strip_comment(line)
                for m in _STR.finditer(code):
                    b = _unescape(m.group(1))
                    if 0 < len(b) <= 64:
                        strs.add(b)
                for m in _CHR.finditer(code):
                    b = _unescape(m.group(1))
                    if b:
                        strs.add(b)
                        ints.add(b[0])
                nostr = _CHR.sub(" ", _STR.sub(" ", code))
                row = []
                for m in _INT.finditer(nostr):
                    try:
                        v = int(m.group(1).replace("_", ""), 0)
                    except ValueError:
                        continue
                    if v < (1 << 64):
                        ints.add(v)
                        row.append(v)
                if len(row) >= 2 and tuple(row) not in tuples:
                    tuples.append(tuple(row))
                for m in re.finditer(r"\.(\w+)\s*\(", nostr):
                    if m.group(1) in NET_METHODS:
                        methods.add(m.group(1))
                for m in re.finditer(r"::(\w+)\s*\(", nostr):
                    if m.group(1) in NET_METHODS:
                        methods.add(m.group(1))
    d = {"ints": sorted(ints), "tuples": tuples, "strs": sorted(strs), "methods": sorted(methods)}
    # what the current source mentions and the tree the generators were written against did not: a change that
    # special-cases a value shows up here, and the streams give these entries half of their dictionary picks
    base = baseline()
    d["novel_ints"] = [v for v in d["ints"] if v not in set(base.get("ints", []))]
    d["novel_tuples"] = [t for t in tuples if list(t) not in base.get("tuples", [])]
    d["novel_strs"] = [s for s in d["strs"] if s.decode("latin-1") not in set(base.get("strs", []))]
    d["novel_methods"] = [m for m in d["methods"] if m not in set(base.get("methods", []))]
    _CACHE[root] = d
    return d


BASELINE = os.path.join(os.path.dirname(os.path.abspath(__file__)), "dictionary_baseline.json")


def baseline():
    import json
    try:
        return json.load(open(BASELINE))
    except (OSError, ValueError):
        return {}


def pick_int(rng, d, limit):
    """a dictionary integer below `limit` (novel ones preferred), or None"""
    nov = [v for v in d["novel_ints"] if v < limit]
    if nov and rng.chance(1, 2):
        return rng.choice(nov)
    allv = [v for v in d["ints"] if v < limit]
    return rng.choice(allv) if allv else None


def pick_tuple(rng, d, limit):
    nov = [t for t in d["novel_tuples"] if all(v < limit for v in t)]
    if nov and rng.chance(2, 3):
        return list(rng.choice(nov))
    allt = [t for t in d["tuples"] if all(v < limit for v in t)]
    return list(rng.choice(allt)) if allt else None


def units(rng, n, limit):
    """n values below `limit` (octets: 256, IPv6 groups: 65536) built from the dictionary: a literal tuple of the source as
    the leading (sometimes trailing) units and zeros / random units elsewhere, or single dictionary values in place"""
    d = harvest()
    t = pick_tuple(rng, d, limit)
    pick = rng.below(4)
    if t and pick <= 1:
        t = t[:n]
        zero_rest = rng.chance(1, 2)
        rest = [0 if zero_rest else rng.below(limit) for _ in range(n - len(t))]
        return (t + rest) if pick == 0 or rng.chance(2, 3) else (rest + t)
    out = [0 if rng.chance(1, 2) else rng.below(limit) for _ in range(n)]
    for _ in range(1 + rng.below(2)):
        v = pick_int(rng, d, limit)
        if v is not None:
            out[rng.below(n) if rng.chance(1, 2) else 0] = v
    return out


if __name__ == "__main__":
    import json
    import sys
    d = harvest()
    if "--write-baseline" in sys.argv:
        json.dump({"ints": d["ints"], "tuples": [list(t) for t in d["tuples"]], "strs": [s.decode("latin-1") for s in d["strs"]],
                   "methods": d["methods"]}, open(BASELINE, "w"), indent=0)
    print(json.dumps({"novel_ints": d["novel_ints"], "novel_tuples": [list(t) for t in d["novel_tuples"]],
                      "novel_strs": [s.decode("latin-1") for s in d["novel_strs"]], "novel_methods": d["novel_methods"]}))
    print(json.dumps({"ints": d["ints"], "tuples": [list(t) for t in d["tuples"]],
                      "strs": [s.decode("latin-1") for s in d["strs"]], "methods": d["methods"]}, indent=1))
