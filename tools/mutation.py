#!/usr/bin/env python3
"""Mechanical mutation analysis of the tie between /repo and the model (DESIGN 11.4).

  tools/mutation.py gen                 enumerate mutants of /repo/src (non-test code) -> <work>/mutants.json
  tools/mutation.py run [--max-min M] [--only i,j,..]
                                        for every mutant not yet decided: build it, run the crate's own test suite;
                                        if it survives the suite, run the correspondence side of the twenty quick
                                        checks against it (stop at the first one that reports a VIOLATION)
  tools/mutation.py report              table for DESIGN.md / seeded/mutation/summary.json

Nothing here touches /repo: every mutant lives in a scratch copy under <work> (default /tmp/ppp-mut), with its own
harness copy and cargo target directories, and the checks are pointed at it through the VERIF_ALT_* variables of
`check`.  The proof side is skipped (theorems do not depend on the repository).  This is a measurement of the
generators and oracles, not a registered command.
"""
import json
import os
import re
import shutil
import subprocess
import sys
import time

VERIF = os.path.dirname(os.path.dirname(os.path.abspath(__file__)))
WORK = os.environ.get("MUT_WORK", "/tmp/ppp-mut")
REPO = "/repo"
FILES = ["src/lib.rs", "src/ip.rs", "src/v1/mod.rs", "src/v1/model.rs", "src/v1/error.rs",
         "src/v2/mod.rs", "src/v2/model.rs", "src/v2/builder.rs", "src/v2/error.rs"]
ORDER = ["C03", "C01", "C07", "C09", "C02", "C12", "C06", "C08", "C11", "C13", "C04", "C05", "C10", "C14", "C15",
         "C16", "C17", "C18", "C19", "C20"]

ENV = dict(os.environ, CARGO_NET_OFFLINE="true")


def code_lines(path):
    """(index, line) of the lines that are production code: before the `#[cfg(test)]` module, not comments,
    not attributes, not `use`"""
    out = []
    lines = open(path, encoding="utf-8").read().split("\n")
    in_doc_example = False
    for i, l in enumerate(lines):
        s = l.strip()
        if s.startswith("#[cfg(test)]"):
            break
        if s.startswith("//") or s.startswith("#[") or s.startswith("#![") or s.startswith("use ") or s.startswith("pub use ") or not s:
            continue
        out.append((i, l))
    return lines, out


def split_code(line):
    """the part of the line before a trailing // comment (string literals respected roughly)"""
    inq = False
    for j, ch in enumerate(line):
        if ch == '"' and (j == 0 or line[j - 1] != "\\"):
            inq = not inq
        if not inq and line.startswith("//", j):
            return line[:j], line[j:]
    return line, ""


def in_string(code, pos):
    return code[:pos].count('"') % 2 == 1


RULES = [
    ("rel", r"==", ["!="]), ("rel", r"!=", ["=="]),
    ("rel", r"<=", ["<", "=="]), ("rel", r">=", [">", "=="]),
    ("rel", r"(?<=\s)<(?=\s)", ["<=", ">"]), ("rel", r"(?<=\s)>(?=\s)", [">=", "<"]),
    ("logic", r"&&", ["||"]), ("logic", r"\|\|", ["&&"]),
    ("arith", r"(?<=\s)\+(?=\s)", ["-"]), ("arith", r"(?<=\s)-(?=\s)", ["+"]),
    ("arith", r"\+=", ["-=", "="]), ("arith", r"(?<=\s)\*(?=\s)", ["+"]),
    ("bit", r"(?<=\s)&(?=\s)", ["|"]), ("bit", r"(?<=\s)\|(?=\s)", ["&", "^"]), ("bit", r"<<", [">>"]), ("bit", r">>", ["<<"]),
    ("neg", r"!(?=[a-zA-Z_(])(?!\w*!)", [""]),
    ("bool", r"\btrue\b", ["false"]), ("bool", r"\bfalse\b", ["true"]),
    ("range", r"\.\.=", [".."]), ("range", r"(?<![.])\.\.(?![.=])(?=[\w(])", ["..="]),
    ("call", r"\.min\(", [".max("]), ("call", r"\.max\(", [".min("]),
    ("call", r"starts_with", ["ends_with"]), ("call", r"ends_with", ["starts_with"]),
    ("call", r"\.is_empty\(\)", [".is_empty().not_()"]),
    ("call", r"\.is_some\(\)", [".is_none()"]), ("call", r"\.is_none\(\)", [".is_some()"]),
    ("call", r"\.take\(", [".skip("]), ("call", r"\.skip\(", [".take("]),
    ("call", r"saturating_sub", ["wrapping_sub"]), ("call", r"checked_add", ["checked_sub"]),
    ("call", r"\.rev\(\)", [""]), ("call", r"to_be_bytes", ["to_le_bytes"]), ("call", r"from_be_bytes", ["from_le_bytes"]),
    ("call", r"\.first\(\)", [".last()"]), ("call", r"\.last\(\)", [".first()"]),
    ("call", r"\.peek\(\)", [".next()"]),
    ("call", r"splitn\((\d+)", None),
]

INT = re.compile(r"(?<![\w.])(0x[0-9A-Fa-f_]+|\d[\d_]*)(?![\w.]*\")(?![\w])")


def variants_of_enum(text, enum):
    m = re.search(r"pub enum %s[^{]*\{(.*?)\n\}" % enum, text, re.S)
    if not m:
        return []
    out = []
    for l in m.group(1).split("\n"):
        s = l.strip()
        mm = re.match(r"([A-Z]\w*)\s*(\(|,|\{|$)", s)
        if mm:
            out.append((mm.group(1), mm.group(2) == "("))
    return out


def gen():
    os.makedirs(WORK, exist_ok=True)
    muts = []
    v1err = variants_of_enum(open(os.path.join(REPO, "src/v1/error.rs")).read(), "ParseError")
    v2err = variants_of_enum(open(os.path.join(REPO, "src/v2/error.rs")).read(), "ParseError")
    for rel in FILES:
        lines, code = code_lines(os.path.join(REPO, rel))
        for (i, l) in code:
            c, tail = split_code(l)
            s = c.strip()
            if s.startswith(("fn ", "pub fn ", "impl", "pub struct", "pub enum", "struct", "enum", "type ", "pub type", "const ", "pub const ", "pub(crate) const", "mod ", "pub mod")):
                # signatures and declarations: only constants' values are interesting
                if not s.startswith(("const ", "pub const ", "pub(crate) const")):
                    continue
            def add(kind, new, desc):
                if new != l:
                    muts.append({"file": rel, "line": i + 1, "kind": kind, "old": l.strip(), "new": new.strip(), "text": new, "desc": desc})
            for (kind, pat, reps) in RULES:
                if reps is None:
                    continue
                for m in re.finditer(pat, c):
                    if in_string(c, m.start()):
                        continue
                    if pat in ("==", "!=") and (c[m.start() - 1:m.start()] in "<>=!" or c[m.end():m.end() + 1] == "="):
                        continue
                    if pat in ("<=", ">=") and (c[m.start() - 1:m.start()] in "<>" or c[m.end():m.end() + 1] in "="):
                        continue
                    if pat == r"&&" or pat == r"\|\|":
                        pass
                    for r in reps:
                        rr = r
                        if r == ".is_empty().not_()":
                            # negate the emptiness test in place
                            start = m.start()
                            k = start
                            while k > 0 and (c[k - 1].isalnum() or c[k - 1] in "_.()[]"):
                                k -= 1
                            new = c[:k] + "!" + c[k:m.end()] + c[m.end():] + tail
                            add(kind, new, "negate is_empty()")
                            continue
                        new = c[:m.start()] + rr + c[m.end():] + tail
                        add(kind, new, "%s -> %s" % (m.group(0), rr or "(removed)"))
            for m in INT.finditer(c):
                if in_string(c, m.start()):
                    continue
                tok = m.group(1)
                try:
                    val = int(tok.replace("_", ""), 0)
                except ValueError:
                    continue
                if c[:m.start()].rstrip().endswith(("[u8;", "; ")) and "[" in c[:m.start()] and "]" in c[m.end():m.end() + 2] and "let" not in c and "const" in c:
                    continue
                for nv in {val + 1, val - 1} if val > 0 else {1}:
                    nt = hex(nv) if tok.startswith("0x") else str(nv)
                    add("const", c[:m.start()] + nt + c[m.end():] + tail, "%s -> %s" % (tok, nt))
            # error variant swaps (payload-free variants only; others rarely compile)
            for (enum_variants, prefixes) in ((v1err, ("ParseError::",)), (v2err, ("ParseError::",))):
                if ("/v1/" in rel) != (enum_variants is v1err):
                    continue
                for m in re.finditer(r"ParseError::([A-Z]\w*)", c):
                    if s.startswith(("ParseError::", "| ParseError::", "Err(ParseError::")) and "=>" in c and c.index("=>") > m.start():
                        continue   # a match pattern
                    cur = m.group(1)
                    names = [n for (n, payload) in enum_variants]
                    if cur not in names:
                        continue
                    pay = dict(enum_variants)[cur]
                    cands = [n for (n, p) in enum_variants if p == pay and n != cur]
                    k = names.index(cur)
                    cands.sort(key=lambda n: (names.index(n) - k) % len(names))
                    for n in cands[:2]:
                        add("variant", c[:m.start(1)] + n + c[m.end(1):] + tail, "%s -> %s" % (cur, n))
            # statement deletion
            if s.endswith(";") and not s.startswith(("let ", "return", "pub ", "const ", "type ", "}", "break", "continue")) and "=" not in s.split("(")[0]:
                add("delete", re.match(r"\s*", l).group(0) + "/* deleted */", "delete statement")
            if re.match(r"\s*return\s+Err\(", c) or re.match(r"\s*return\s+Ok\(", c):
                add("delete", re.match(r"\s*", l).group(0) + "/* deleted */", "delete early return")
    # de-duplicate
    seen, out = set(), []
    for m in muts:
        k = (m["file"], m["line"], m["text"])
        if k not in seen:
            seen.add(k)
            m["id"] = len(out)
            out.append(m)
    json.dump(out, open(os.path.join(WORK, "mutants.json"), "w"), indent=0)
    kinds = {}
    for m in out:
        kinds[m["kind"]] = kinds.get(m["kind"], 0) + 1
    print(len(out), "mutants", kinds)


def sh(cmd, cwd=None, timeout=1800, env=None):
    p = subprocess.run(cmd, cwd=cwd, env=env or ENV, stdout=subprocess.PIPE, stderr=subprocess.STDOUT, text=True, timeout=timeout)
    return p.returncode, p.stdout


def prepare():
    repo = os.path.join(WORK, "repo")
    if not os.path.isdir(repo):
        sh(["git", "-C", REPO, "worktree", "prune"])
        rc, out = sh(["git", "-C", REPO, "worktree", "add", "--detach", repo, "HEAD"])
        if rc:
            raise SystemExit(out)
    har = os.path.join(WORK, "harness")
    if os.path.isdir(har):
        shutil.rmtree(har)
    shutil.copytree(os.path.join(VERIF, "harness"), har, ignore=shutil.ignore_patterns("target"))
    toml = open(os.path.join(har, "Cargo.toml")).read().replace('"/repo"', '"%s"' % repo)
    open(os.path.join(har, "Cargo.toml"), "w").write(toml)
    cfg = os.path.join(har, ".cargo", "config.toml")
    if os.path.exists(cfg):
        t = re.sub(r'target-dir\s*=\s*"[^"]*"', 'target-dir = "%s"' % os.path.join(WORK, "target"), open(cfg).read())
        open(cfg, "w").write(t)
    return repo, har


def results_path():
    return os.path.join(WORK, "results.jsonl")


def load_results():
    res = {}
    if os.path.exists(results_path()):
        for l in open(results_path()):
            r = json.loads(l)
            res[r["id"]] = r
    return res


def run(argv):
    max_min = None
    only = None
    if "--max-min" in argv:
        max_min = float(argv[argv.index("--max-min") + 1])
    if "--only" in argv:
        only = set(int(x) for x in argv[argv.index("--only") + 1].split(","))
    stride = None
    if "--stride" in argv:
        stride = int(argv[argv.index("--stride") + 1])
    repo, har = prepare()
    muts = json.load(open(os.path.join(WORK, "mutants.json")))
    done = load_results()
    t0 = time.time()
    env_test = dict(ENV, CARGO_TARGET_DIR=os.path.join(WORK, "repo-target"))
    env_chk = dict(ENV, VERIF_ALT_REPO=repo, VERIF_ALT_HARNESS=har, VERIF_ALT_TARGET=os.path.join(WORK, "target"),
                   VERIF_ALT_OUT=os.path.join(WORK, "out"))
    # baseline sanity: the unmutated copy passes its suite
    sh(["git", "-C", repo, "checkout", "--", "."])
    todo = [m for m in muts if m["id"] not in done and (only is None or m["id"] in only)]
    if stride:
        # spread over the files: take every stride-th first, the rest later
        todo = todo[::stride] + [m for j, m in enumerate(todo) if j % stride]
    for m in todo:
        if max_min and (time.time() - t0) / 60 > max_min:
            break
        path = os.path.join(repo, m["file"])
        src = open(path, encoding="utf-8").read().split("\n")
        orig = src[m["line"] - 1]
        src[m["line"] - 1] = m["text"]
        open(path, "w", encoding="utf-8").write("\n".join(src))
        rec = {"id": m["id"], "file": m["file"], "line": m["line"], "kind": m["kind"], "desc": m["desc"], "old": m["old"], "new": m["new"]}
        try:
            rc, out = sh(["cargo", "build", "--offline", "--lib"], cwd=repo, env=env_test, timeout=600)
            if rc:
                rec["status"] = "does-not-compile"
            else:
                try:
                    rc, out = sh(["cargo", "test", "--offline", "--workspace", "--no-fail-fast"], cwd=repo, env=env_test, timeout=300)
                except subprocess.TimeoutExpired:
                    rc, out = 1, "timeout"
                if rc:
                    rec["status"] = "killed-by-test-suite"
                else:
                    rec["status"] = "survived-all-checks"
                    rec["checks_run"] = []
                    for prop in ORDER:
                        rc, out = sh([os.path.join(VERIF, "check"), prop, "quick"], cwd=VERIF, env=env_chk, timeout=3000)
                        rec["checks_run"].append(prop)
                        if rc == 1 and "VIOLATION" in out:
                            rec["status"] = "killed-by-check"
                            rec["killer"] = prop
                            v = [l for l in out.split("\n") if l.startswith("VIOLATION")]
                            rec["no_failing_input"] = all("no-failing-input-found" in l for l in v)
                            break
                        if rc != 0:
                            rec["status"] = "machinery-error"
                            rec["killer"] = prop
                            rec["detail"] = out[-1500:]
                            break
        finally:
            src[m["line"] - 1] = orig
            open(path, "w", encoding="utf-8").write("\n".join(src))
        rec["t"] = round(time.time() - t0, 1)
        with open(results_path(), "a") as f:
            f.write(json.dumps(rec) + "\n")
        print(rec["id"], rec["file"], rec["line"], rec["desc"], "=>", rec["status"], rec.get("killer", ""), flush=True)


def report():
    res = load_results()
    muts = json.load(open(os.path.join(WORK, "mutants.json")))
    by = {}
    for r in res.values():
        by.setdefault(r["status"], []).append(r)
    print("mutants enumerated: %d; decided: %d" % (len(muts), len(res)))
    for k, v in sorted(by.items()):
        print("  %-24s %d" % (k, len(v)))
    killers = {}
    for r in by.get("killed-by-check", []):
        killers[r["killer"]] = killers.get(r["killer"], 0) + 1
    print("first killing check:", dict(sorted(killers.items())))
    for r in by.get("survived-all-checks", []) + by.get("machinery-error", []):
        print("  SURVIVOR #%d %s:%d [%s] %s\n      - %s\n      + %s" % (r["id"], r["file"], r["line"], r["kind"], r["desc"], r["old"], r["new"]))
    summary = {"enumerated": len(muts), "decided": len(res), "by_status": {k: len(v) for k, v in by.items()},
               "first_killing_check": killers,
               "survivors": [{k: r[k] for k in ("id", "file", "line", "kind", "desc", "old", "new")} for r in by.get("survived-all-checks", [])],
               "results": sorted(res.values(), key=lambda r: r["id"])}
    os.makedirs(os.path.join(VERIF, "seeded", "mutation"), exist_ok=True)
    json.dump(summary, open(os.path.join(VERIF, "seeded", "mutation", "summary.json"), "w"), indent=1)


if __name__ == "__main__":
    cmd = sys.argv[1] if len(sys.argv) > 1 else ""
    if cmd == "gen":
        gen()
    elif cmd == "run":
        run(sys.argv[2:])
    elif cmd == "report":
        report()
    else:
        print(__doc__)
