#!/usr/bin/env python3
"""A behaviour-preserving rewrite of /repo must raise no alarm: apply the patch, run every quick check, undo.
   tools/try_refactor.py <name> <worktree>   -> /verif/seeded/<name>/{patch.diff, NOTES.md, meta.json}"""
import json, os, shutil, subprocess, sys, time
VERIF = os.path.dirname(os.path.dirname(os.path.abspath(__file__)))
def sh(cmd, cwd=None, timeout=3600):
    p = subprocess.run(cmd, shell=True, cwd=cwd, stdout=subprocess.PIPE, stderr=subprocess.STDOUT, text=True, timeout=timeout)
    return p.returncode, p.stdout
name, wt = sys.argv[1], sys.argv[2]
patch = os.path.join(wt, "patch.diff")
rc, out = sh("git -C /repo status --short"); assert out.strip() == "", out
rc, out = sh("git -C /repo apply %s" % patch); assert rc == 0, out
rc, stat = sh("git -C /repo diff --stat | tail -1")
results = {}
try:
    rc, t = sh("CARGO_NET_OFFLINE=true cargo test --offline --lib 2>&1 | grep 'test result'", cwd="/repo")
    for i in range(1, 21):
        c = "C%02d" % i
        t0 = time.time()
        rc, out = sh("./check %s quick" % c, cwd=VERIF, timeout=1800)
        viol = [l for l in out.split("\n") if l.startswith("VIOLATION")]
        results[c] = {"exit": rc, "violations": len(viol), "wall_s": round(time.time() - t0, 1), "last": out.strip().split("\n")[-1][:200]}
        print(c, rc, len(viol), flush=True)
finally:
    sh("git -C /repo checkout -- .")
    rc, out = sh("git -C /repo status --short"); assert out.strip() == "", out
dst = os.path.join(VERIF, "seeded", name)
os.makedirs(dst, exist_ok=True)
shutil.copy(patch, os.path.join(dst, "patch.diff"))
if os.path.exists(os.path.join(wt, "NOTES.md")):
    shutil.copy(os.path.join(wt, "NOTES.md"), os.path.join(dst, "NOTES.md"))
quiet = all(r["exit"] == 0 and r["violations"] == 0 for r in results.values())
json.dump({"kind": "behaviour-preserving refactoring (no property is broken)", "diffstat": stat.strip(), "unit_tests": t.strip(),
           "all_checks_quiet": quiet, "checks": results,
           "what_was_run": ["git -C /repo apply patch.diff", "./check Cnn quick for all twenty", "git -C /repo checkout -- ."]},
          open(os.path.join(dst, "meta.json"), "w"), indent=1)
for f in os.listdir(os.path.join(VERIF, "replays")):
    if f.endswith(".json") and not quiet:
        pass
print("REFACTOR %s: all_checks_quiet=%s %s" % (name, quiet, stat.strip()))
