#!/usr/bin/env python3
"""Regression suite for the machinery itself: every seeded change kept under /verif/seeded must still be reported.

  tools/selftest.py [--all-checks] [name ...]      (default: every seeded/<name>/patch.diff)

For each seeded change: a scratch worktree of /repo (never /repo itself), `git apply patch.diff`, then the quick
command of the check of the property the change breaks (with --all-checks: all twenty), pointed at the scratch copy
through the VERIF_ALT_* variables of `check` (proof side skipped: theorems do not depend on the repository).
Prints one line per change and a summary; exit 1 if a change that was caught when it was recorded is no longer caught.
The behaviour-preserving refactorings (seeded/refactor-*) and the visible-but-harmless changes (seeded/visible-*) are run through all twenty checks and must stay quiet.
Scratch: $SELFTEST_WORK (default /tmp/ppp-selftest), removed at the end.
"""
import json
import os
import re
import shutil
import subprocess
import sys

VERIF = os.path.dirname(os.path.dirname(os.path.abspath(__file__)))
WORK = os.environ.get("SELFTEST_WORK", "/tmp/ppp-selftest")
ENV = dict(os.environ, CARGO_NET_OFFLINE="true")
ALL = ["C%02d" % i for i in range(1, 21)]


def sh(cmd, cwd=None, env=None, timeout=3600):
    p = subprocess.run(cmd, cwd=cwd, env=env or ENV, stdout=subprocess.PIPE, stderr=subprocess.STDOUT, text=True, timeout=timeout)
    return p.returncode, p.stdout


def main(argv):
    all_checks = "--all-checks" in argv
    only = None           # --checks=C04,C11: restrict every run (harmless ones too) to these checks
    for a in argv:
        if a.startswith("--checks="):
            only = a.split("=", 1)[1].split(",")
    names = [a for a in argv if not a.startswith("--")]
    seeded = os.path.join(VERIF, "seeded")
    if not names:
        names = sorted(d for d in os.listdir(seeded) if os.path.exists(os.path.join(seeded, d, "patch.diff")))
    repo = os.path.join(WORK, "repo")
    har = os.path.join(WORK, "harness")
    shutil.rmtree(WORK, ignore_errors=True)
    os.makedirs(WORK)
    sh(["git", "-C", "/repo", "worktree", "prune"])
    rc, out = sh(["git", "-C", "/repo", "worktree", "add", "--detach", repo, "HEAD"])
    if rc:
        raise SystemExit(out)
    shutil.copytree(os.path.join(VERIF, "harness"), har)
    t = open(os.path.join(har, "Cargo.toml")).read().replace('"/repo"', '"%s"' % repo)
    open(os.path.join(har, "Cargo.toml"), "w").write(t)
    env = dict(ENV, VERIF_ALT_REPO=repo, VERIF_ALT_HARNESS=har, VERIF_ALT_TARGET=os.path.join(WORK, "target"),
               VERIF_ALT_OUT=os.path.join(WORK, "out"))
    lost, noisy, rows = [], [], []
    try:
        for name in names:
            d = os.path.join(seeded, name)
            meta = json.load(open(os.path.join(d, "meta.json"))) if os.path.exists(os.path.join(d, "meta.json")) else {}
            harmless = name.startswith(("refactor", "visible"))
            blind = meta.get("breaks_properties")          # seeded/blind-*: classified after the fact (possibly none)
            if name.startswith("blind"):
                harmless = not blind
            target = None if harmless else (blind[0] if blind else (meta.get("breaks_property") or re.match(r"(C\d\d)", name).group(1)))
            sh(["git", "-C", repo, "checkout", "--", "."])
            sh(["git", "-C", repo, "clean", "-fdq"])
            rc, out = sh(["git", "-C", repo, "apply", os.path.join(d, "patch.diff")])
            if rc:
                rows.append((name, "patch does not apply: " + out.strip()[:80]))
                lost.append(name)
                continue
            checks = ALL if (harmless or all_checks) else (blind or [target])
            if only:
                checks = [c for c in checks if c in only] if not harmless else only
            caught = []
            for c in checks:
                rc, out = sh([os.path.join(VERIF, "check"), c, "quick"], cwd=VERIF, env=env)
                if rc == 1 and "VIOLATION" in out:
                    caught.append(c)
                elif rc != 0:
                    rows.append((name, "%s: machinery error: %s" % (c, out.strip()[-200:])))
            if harmless:
                if caught:
                    noisy.append(name)
                rows.append((name, "quiet" if not caught else "ALARM from " + ",".join(caught)))
            else:
                was = meta.get("target_check_caught_it", True)
                ok = (target in caught) if not blind else any(c in caught for c in blind)
                if was and not ok:
                    lost.append(name)
                rows.append((name, ("caught by %s" % ",".join(caught)) if caught else "NOT CAUGHT"))
            print("%-14s %s" % rows[-1], flush=True)
    finally:
        sh(["git", "-C", "/repo", "worktree", "remove", "--force", repo])
        sh(["git", "-C", "/repo", "worktree", "prune"])
        shutil.rmtree(WORK, ignore_errors=True)
    print("selftest: %d seeded changes, %d no longer caught by their own check%s; %d harmless changes, %d noisy%s" % (
        sum(1 for r in rows if r[1].startswith(("caught", "NOT"))), len(lost), (" (" + ", ".join(lost) + ")") if lost else "",
        sum(1 for r in rows if r[1].startswith(("quiet", "ALARM"))), len(noisy), (" (" + ", ".join(noisy) + ")") if noisy else ""))
    return 1 if lost or noisy else 0


if __name__ == "__main__":
    sys.exit(main(sys.argv[1:]))
