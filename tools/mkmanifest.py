#!/usr/bin/env python3
"""Regenerates /verif/MANIFEST.json from the table below (run after claiming a new property)."""
import json, os, sys
sys.path.insert(0, os.path.dirname(os.path.dirname(os.path.abspath(__file__))))

TIE = ("The theorems are about a hand-written Gallina model; the model is tied to /repo by a correspondence check "
       "(Rust harness on the real crate vs the extracted model on the same generated inputs, compared on this "
       "property's projection) plus a direct oracle (the extracted Spec, or the property's own relation, evaluated "
       "on the implementation's observations) that supplies replayable failing inputs. Trusted: Coq 8.16.1 kernel "
       "and VM, no axioms (Print Assumptions: closed under the global context), ExtrOcamlBasic extraction, the "
       "OCaml driver / Rust harness / Python driver, the Std models of the Rust standard library (DESIGN 8).")

CLAIMED = {
    "C02": dict(
        text="Theorem C02 (Props/C02.v): for every byte string x, the model parser accepts x with value h iff x starts "
             "with a well-formed v2 header whose decoded value is h (Spec/V2Wire.v: signature, version 2, command 0-1, "
             "family 0-3, transport 0-2, family size <= length <= bytes present; big-endian decoding; header = first "
             "16+length bytes). Unbounded in input length; kernel-checked. Tie: 260k inputs per quick run incl. all "
             "65 536 control-byte pairs, all single-byte signature corruptions, every prefix of valid headers.",
        ref="7-C02", technique="Coq proof (acceptance <-> wire-format spec) + differential correspondence with extracted model and spec oracle"),
    "C11": dict(
        text="Theorems C11_walk/functional/tile/error_last/fused/bound (Props/C11.v): for every section s the iterator "
             "model yields exactly the unique standard walk (inductive relation Walk of Spec/TlvWalk.v), values tile "
             "the section, an error is last, next() after the end or after an error is None, at most |s|/3+1 items. "
             "Induction over the section, no bound. Tie: all 19 531 sections over {0,1,2,3,255} up to length 6 (7 in "
             "thorough), boundary value lengths at every truncation point, sections of accepted headers.",
        ref="7-C11", technique="Coq proof (iterator refines the inductive Walk relation) + differential correspondence with extracted model and walk oracle"),
    "C14": dict(
        text="Theorem C14 (Props/C14.v): for every accepted header the model's views satisfy all twelve identities of the "
             "property (address bytes ++ TLV bytes = payload, address view size per family, length/len/length field, "
             "family = wire nibble = family of the decoded value, fields = big-endian decoding of the address view, helper "
             "methods, owned = borrowed). For all inputs, no bound. Tie: views2 stream (accessor values of borrowed and owned "
             "header) on 140k inputs; owned-copy independence observed on the implementation (buffer overwritten and freed).",
        ref="7-C14", technique="Coq proof of the view identities + differential correspondence on accessor values"),
    "C17": dict(
        text="Theorems C17_short/partial/fill (Props/C17.v): Incomplete(n) iff n = |x| < 16; Partial(have, need) implies "
             "have = |x|-16, need = declared length, have < need; appending exactly need-have arbitrary bytes succeeds, fewer "
             "give Partial(have+k, need). For all inputs. Tie: 470k inputs incl. every prefix of valid headers with fill cases.",
        ref="7-C17", technique="Coq proof (closed form of the parser) + differential correspondence with fill cases"),
    "C20": dict(
        text="Theorems C20/C20_to_bytes/C20_int/C20_pair/C20_refuse (Props/C20.v): for every payload kind and writer with "
             "contents + encoding <= 65551 bytes, write_to returns the encoding's length and appends exactly the reference "
             "encoding (Spec/Encoder.v); integers are big-endian two's complement at natural width; oversize values are "
             "refused with the writer untouched. Tie: 40k writer cases over all kinds, all 12 integer types at their bounds, "
             "the band around the limit.",
        ref="7-C20", technique="Coq proof (write_to = reference encoder) + differential correspondence on Writer/to_bytes"),
    "C10": dict(
        text="Theorems C10/C10_closed/C10_reserve/C10_batch (Props/C10.v): for every constructor and every finite call "
             "history, brun is characterised completely: success iff all payloads fit and the length is encodable, and then "
             "the output is signature, control bytes, length field, address block, payload encodings in call order; reserves "
             "and batching never change the outcome. Induction over histories, no bound. Tie: 210k histories incl. all "
             "histories over a 10-op alphabet to depth 3, paired (reserve-erased / batch-flattened) variants, size boundary.",
        ref="7-C10", technique="Coq proof (builder state machine refines reference encoder, by simulation invariant) + differential correspondence on call histories"),
    "C09": dict(
        text="Theorems C09_field/C09_overflow/C09_value (Props/C09.v): on success bytes 14-15 equal the explicit length in "
             "force (last set_length if Some) else the number of bytes after the fixed part; no explicit length and > 65535 "
             "bytes fails; any oversize TLV value / slice anywhere in the history fails. For every history. Tie: 32k histories "
             "incl. every placement of set_length relative to the first write (exhaustive to depth 3) and the 65535/65536 boundary.",
        ref="7-C09", technique="Coq proof (corollary of the builder closed form) + differential correspondence on call histories"),
    "C07": dict(
        text="Theorems C07_wire/C07_named/C07_parse/C07_tlv_view/C07_tlvs (Props/C07.v): for every command, transport, "
             "well-formed address value and TLV list fitting in 65535 bytes, every history writing exactly those TLVs builds "
             "the wire encoding of Spec/Encoder.v; the model parser accepts it with the same command, transport, addresses and "
             "bytes, and (family specified) iterating its TLV view yields the same list. Induction over TLV lists / histories. "
             "Tie: build-then-parse on 8k histories (all 4 families, every type byte, lengths 0..65535, totals of exactly 65535).",
        ref="7-C07", technique="Coq proof (builder = wire spec; parser o wire = identity) + differential correspondence on build-then-parse"),
    "C13": dict(
        text="Theorems C13_raw/C13_items/C13_parts/C13_value (Props/C13.v): for every accepted header, rebuilding from control "
             "bytes + address bytes + TLV section (raw bytes, TypeLengthValues, decoded items when well-formed, or any history "
             "encoding the payload) gives exactly the original bytes; so does rebuilding from the decoded address value when a "
             "family is specified. For all inputs. Tie: parse-then-rebuild (four ways) on 140k inputs.",
        ref="7-C13", technique="Coq proof (encode o decode = identity on accepted headers) + differential correspondence on parse-then-rebuild"),
    "C01": dict(
        text="Theorems C01_bytes/C01_str/C01_reject and C01_ipv4/ipv6/port_grammar (Props/C01.v): for EVERY byte string x, "
             "the model's byte entry point accepts x with value hd iff the independent split-based grammar of "
             "Spec/V1Grammar.v accepts x with value hd (line <= 107 bytes ended by the first CR + LF, PROXY UNKNOWN [SP text] "
             "or PROXY TCP4/TCP6 + four single-space-separated fields, dotted-quad / RFC 4291 text, plain decimal ports; "
             "decoded values in written order; header text = line with CRLF); same for &str on character boundaries. The "
             "models of the std parsers are PROVED equal to the grammar's recognisers (no open premise). Tie: 209k quick / "
             "3.8M thorough inputs through all four text entry points, incl. slot-substitution and token-enumeration streams.",
        ref="7-C01", technique="Coq proof (parser model <-> declarative grammar, for all inputs) + differential correspondence with extracted model and grammar oracle"),
    "C18": dict(
        text="Theorems C18_bytes/C18_str/C18_stable/C18_stable_long/C18_core (Props/C18.v): for every input containing its "
             "first CR followed by one more byte, or 107 CR-free bytes, the v1 result is complete, and appending bytes "
             "leaves it identical (resp. a terminal error). For all inputs, by case analysis of every site that returns an "
             "incomplete error. C18_bounded / C18_auto_bounded (Proofs/Bounded.v): an incomplete result is never given for an "
             "input longer than 107 bytes (v1) resp. 65550 bytes (auto-detecting parser). Tie: 295k inputs with extensions.",
        ref="7-C18", technique="Coq proof (terminated window => no incomplete error) + differential correspondence on classification"),
    "C04": dict(
        text="Theorems C04_v1/C04_v2/C04_auto (Props/C04.v): an accepted input followed by ANY bytes, and the reported header "
             "bytes on their own, are accepted with the identical result; the header is the input through the CRLF resp. "
             "the first 16+length bytes. For all inputs and all trailers. C04_accepts_frame / C04_pipeline (Proofs/Consume.v): "
             "what the auto-detecting parser accepts is a self-parsing prefix of the input, and a receive loop that removes exactly "
             "the reported header length reads ANY number of back-to-back v1/v2 headers one by one, in order, leaving exactly the "
             "bytes that follow (induction over the list of headers); C04_senders_pipeline: every built v2 header and formatted v1 "
             "line is such a frame, so any pipeline of the crate's own output is received frame by frame as sent. Tie: 3.9M cases (inputs x 11 trailers x 3 entry points; "
             "pipelined concatenations of 3 or 7 headers of both versions, and 1-7 frames produced by the crate's Display/Builder, "
             "through the same loop in the harness and in the model).",
        ref="7-C04", technique="Coq proof (window lemma / closed form of p2; induction over pipelined headers) + metamorphic differential check with trailers and pipelines"),
    "C05": dict(
        text="Theorems C05_v1/C05_v2/C05_v2_auto/C05_flags (Props/C05.v): every proper prefix of every accepted US-ASCII v1 "
             "line is incomplete through the byte, &str and auto entry points; every proper prefix of every accepted v2 header "
             "yields exactly Incomplete(k) / Partial(k-16, length); is_complete = !is_incomplete; Ok is never incomplete; the "
             "re-parse-after-every-read loop returns the one-shot header for every split into reads (C05_stream_v1/v2), and a "
             "receiver of several pipelined headers of both versions ends, for every cutting of the stream into reads, in the "
             "state of a one-shot drain (C05_reads_equal_one_shot, C05_stream_pipeline; Proofs/StreamPipe.v). "
             "Case analysis over every cut position of every line shape, no bound. Tie: 8M prefix cases per quick run, plus "
             "pipelined buffers delivered in six cuttings through the same receiver in the harness and in the model.",
        ref="7-C05", technique="Coq proof (every cut point of every accepted shape; induction over reads and over pipelined headers) + exhaustive-prefix differential check"),
    "C06": dict(
        text="Theorems C06/C06_accepts/C06_exclusive/C06_incomplete/C06_v2_first/C06_possible (Props/C06.v): the auto-detecting "
             "parser returns the v2 result when it is a success or incomplete and the v1 result otherwise, tagged accordingly; "
             "accepts iff one of the two accepts, never both; `still a possible v2 header` (Spec) <=> v2 accepts or is incomplete. "
             "For all inputs. Tie: 1.1M inputs incl. every signature prefix and mixed v1/v2 inputs.",
        ref="7-C06", technique="Coq proof (HeaderResult::parse in closed form) + impl-vs-impl and spec-side differential check"),
    "C08": dict(
        text="Theorems C08_round/C08_inj/C08_header (Props/C08.v): for EVERY address value (all IPv4/IPv6 pairs, all ports) the "
             "formatted text is a grammar-well-formed line <= 107 bytes that the byte, &str and both FromStr entry points parse "
             "back to the identical value; hence formatting is injective; a parsed header prints its own text. Rests on the "
             "proved round trips of the std models (IPv6: Proofs/StdIp6.v). Tie: 33k values incl. all 256 zero-masks.",
        ref="7-C08", technique="Coq proof (parse o format = id for all address values) + differential correspondence on format-then-parse"),
    "C12": dict(
        text="18 theorems (Props/C12.v): for every complete line of six separator-free fields + CR + one byte, a wrong keyword / "
             "protocol / unparsable source or destination address / bad source or destination port / byte after CR != LF gives "
             "exactly InvalidPrefix / InvalidProtocol / Invalid{Source,Destination}Address / Invalid{Source,Destination}Port / "
             "InvalidSuffix (first invalid field wins), passed through terminally by the byte entry point; > 107 bytes and invalid "
             "UTF-8 likewise; v2: signature, version, command, family, transport nibble (value in place), short length; terminal "
             "under auto-detection. Tie: 380k single-element mutations + all 65 536 control pairs.",
        ref="7-C12", technique="Coq proof (closed form of both parsers on six-field lines / control bytes) + mutation-directed differential check"),
    "C15": dict(
        text="Theorem C15 (Props/C15.v): for every accepted v1 header, protocol() is the keyword of the decoded addresses and "
             "PROXY SP protocol [SP] addresses_str CRLF re-assembles to the header text = to_string(). For all accepted inputs. "
             "Tie: 43k inputs incl. UNKNOWN with empty, multi-space, non-ASCII, 107-byte text; borrowed and owned.",
        ref="7-C15", technique="Coq proof (views of every accepted shape) + differential correspondence on accessor values"),
    "C16": dict(
        text="Theorems C16_agree/C16_split/C16_owned (Props/C16.v): for every valid-UTF-8 string, bytes / &str / both FromStr "
             "entry points give the same outcome when the examined line ends on a character boundary and all fail otherwise "
             "(uses the proved UTF-8 prefix/boundary lemma); owned copies equal originals. PARTIAL: survival of owned copies "
             "after the buffer is overwritten or dropped is observed on the implementation, not proved. Tie: 288k inputs.",
        ref="7-C16", technique="Coq proof (entry points coincide on char boundaries) + impl-vs-impl differential check; owned-copy independence by observation"),
    "C19": dict(
        text="Theorems C19_new/C19_v1/C19_unix/C19_pair/C19_same_endpoints (Props/C19.v) state the argument-to-role mapping of "
             "every constructor and From impl for all values (reflexivity facts about Model/Ctor.v). C19_round_v1 / C19_round_v2 "
             "(Proofs/Roles.v, resting on the C08 and C07 round trips) carry the roles end to end: for every pair of socket "
             "addresses, the converted value formatted as a v1 line / built as a v2 header and parsed back has the pair's "
             "(source ip, source port, destination ip, destination port); C19_wire_layout / C19_text_layout fix the order on the "
             "wire and in the text; C19_mixed the unknown / unspecified encodings of a mixed pair; C19_cross_version: both versions of one pair decode to the same endpoints. Tie: the real IPv4::new / "
             "IPv6::new / Unix::new / new_tcp4 / new_tcp6 / From impls compared field by field with the model and with the inputs "
             "on 8k tuples whose components are pairwise different (all four SocketAddr combinations, flow-info and scope set, "
             "Unix paths differing in one byte), and every pair additionally carried through Display->parse and Builder->parse "
             "in the implementation and in the model (`pairrt`).",
        ref="7-C19", technique="Coq proof (role mapping; end-to-end role preservation through the v1/v2 round-trip theorems) + differential correspondence and field-by-field oracle on constructors",
        note=TIE + " The constructor theorems are reflexivity facts (immutable records); the end-to-end theorems rest on the C07/C08 round-trip proofs."),
    "C03": dict(
        text="Theorems C03_v1_bytes/str/from_str, C03_v2, C03_auto, C03_v2_views, C03_v1_views, C03_tlv (Props/C03.v): a panic-aware "
             "mirror of the parsing surface (Model/Panic.v: every index, byte/str slice, usize +/-, copy_from_slice is a partial "
             "primitive) never takes its Panic branch, for every byte string < 2^63 bytes resp. every valid-UTF-8 string, and "
             "computes the plain model; accessors likewise on every accepted value; TLV iteration terminates within n/3+1 items. "
             "PARTIAL: panics/hangs originating in std, the allocator or unsafe code are only observed: every case of every "
             "stream runs under catch_unwind in a debug (overflow-checked) and a release build with step counting.",
        ref="7-C03", technique="Coq proof (panic-aware model never panics) + observation under catch_unwind in debug and release builds"),
}

NOT_YET = "not yet claimed: model, theorems and correspondence stream for this property are still being built (DESIGN 10.4)"

def main():
    verif = os.path.dirname(os.path.dirname(os.path.abspath(__file__)))
    ids = [json.loads(l)["id"] for l in open(os.path.join(verif, "properties.jsonl"))]
    checks = []
    for pid in ids:
        if pid in CLAIMED:
            c = CLAIMED[pid]
            checks.append({
                "property_id": pid,
                "quick_cmd": "./check %s quick" % pid,
                "thorough_cmd": "./check %s thorough" % pid,
                "evidence_file": "/verif/evidence/%s.json" % pid,
                "replay_cmd_template": "./check replay {path}",
                "engine": "coq-model+correspondence",
                "level_claimed": {"category": "proof", "text": c["text"], "design_ref": c["ref"]},
                "level_note": c.get("note", TIE),
                "technique": c["technique"],
            })
    manifest = {
        "version": 1,
        "setup_cmd": "./check setup",
        "hooks": {
            "guard": "ppp_verif",
            "enable": "none needed: every observation is reachable through the public API (harness depends on /repo by path); "
                      "the guard name --cfg ppp_verif is reserved and unused",
            "baseline_off_cmd": "cd /repo && cargo test --workspace --no-fail-fast --offline",
            "source_commits": [],
            "add_only": True,
        },
        "engines": [{
            "name": "coq-model+correspondence",
            "path": "/verif/check",
            "serves_properties": sorted(CLAIMED),
            "kind_free_text": "Coq 8.16 proofs about a hand-written executable model (coq/theories), tied to /repo on every run by "
                              "differential execution of the extracted model (OCaml) against a Rust harness on the real crate",
        }],
        "checks": checks,
        "not_applicable": [{"property_id": pid, "reason": NOT_YET} for pid in ids if pid not in CLAIMED],
        "notes": "fix: commits in /repo repair seven genuine defects (KNOWN_FINDINGS.txt, DESIGN 2); the model is of the repaired tree. "
                 "Besides theorems, correspondence and direct oracle every check scans /repo/src for `unsafe` and for state kept across calls "
                 "(DESIGN 6) and reports a harness that no longer compiles against the public API as a broken correspondence. "
                 "Tools that are not registered commands (tools/): mutation analysis, coverage and self-test work on scratch copies only; seeded-change "
                 "validation applies a change to /repo and undoes it straight afterwards.",
    }
    with open(os.path.join(verif, "MANIFEST.json"), "w") as f:
        json.dump(manifest, f, indent=1)
    print("MANIFEST.json: %d claimed, %d not yet" % (len(checks), len(ids) - len(checks)))

if __name__ == "__main__":
    main()
