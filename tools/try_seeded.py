#!/usr/bin/env python3
"""Validate one seeded change and record what the checks say about it.

  tools/try_seeded.py <Cnn> <worktree> [--checks C01,C02,...] [--name <directory under seeded/>]

1. in the scratch worktree: the existing suite passes with the change, the demonstration fails with it and
   passes without it (the change is then re-applied);
2. the change is applied to /repo (git apply), every check's quick command is run, the change is undone
   (git checkout -- .) straight afterwards;
3. the result goes to /verif/seeded/<Cnn>/{patch.diff, demo_<Cnn>.rs, NOTES.md, meta.json}.
"""
import json, os, re, shutil, subprocess, sys, time

VERIF = os.path.dirname(os.path.dirname(os.path.abspath(__file__)))

def sh(cmd, cwd=None, timeout=3600):
    p = subprocess.run(cmd, shell=True, cwd=cwd, stdout=subprocess.PIPE, stderr=subprocess.STDOUT, text=True, timeout=timeout)
    return p.returncode, p.stdout

def main():
    pid, wt = sys.argv[1], sys.argv[2]
    checks = None
    name = pid
    if "--name" in sys.argv:
        name = sys.argv[sys.argv.index("--name") + 1]
    if "--checks" in sys.argv:
        checks = sys.argv[sys.argv.index("--checks") + 1].split(",")
    env = "CARGO_NET_OFFLINE=true CARGO_TARGET_DIR=%s/target" % wt
    patch = os.path.join(wt, "patch.diff")
    demo = os.path.join(wt, "tests", "demo_%s.rs" % pid)
    assert os.path.exists(patch) and os.path.exists(demo), "patch.diff / demo missing in %s" % wt
    ran = []
    # 1. confirm in the scratch worktree
    sh("git checkout -- src", cwd=wt)
    rc, out = sh("%s cargo test --offline --test demo_%s 2>&1 | tail -5" % (env, pid), cwd=wt)
    demo_clean = "test result: ok" in out
    ran.append("clean tree: cargo test --test demo_%s -> %s" % (pid, "pass" if demo_clean else "FAIL"))
    rc, out = sh("git apply patch.diff", cwd=wt)
    assert rc == 0, "patch does not apply in the worktree: " + out
    rc, out = sh("%s cargo test --offline --test demo_%s 2>&1 | tail -5" % (env, pid), cwd=wt)
    demo_bug = "test result: FAILED" in out or "error: test failed" in out
    ran.append("with change: cargo test --test demo_%s -> %s" % (pid, "fails" if demo_bug else "DOES NOT FAIL"))
    rc, out1 = sh("%s cargo test --offline --lib 2>&1 | grep 'test result'" % env, cwd=wt)
    rc, out2 = sh("%s cargo test --offline --doc 2>&1 | grep 'test result'" % env, cwd=wt)
    m1 = re.search(r"(\d+) passed; (\d+) failed", out1)
    # a change may bring unit tests of its own; the 73 existing ones must all still pass
    suite_ok = bool(m1) and int(m1.group(1)) >= 73 and m1.group(2) == "0" and "0 failed" in out2 and "passed" in out2
    ran.append("with change: cargo test --lib / --doc -> %s | %s" % (out1.strip(), out2.strip()))
    # 2. run the checks against /repo with the change applied
    rc, out = sh("git -C /repo status --short")
    assert out.strip() == "", "/repo is not clean: " + out
    rc, out = sh("git -C /repo apply %s" % patch)
    assert rc == 0, "patch does not apply to /repo: " + out
    results = {}
    try:
        ids = checks or ["C%02d" % i for i in range(1, 21)]
        for c in ids:
            t0 = time.time()
            rc, out = sh("./check %s quick" % c, cwd=VERIF, timeout=1800)
            viol = [l for l in out.split("\n") if l.startswith("VIOLATION")]
            msg = ""
            if viol:
                m = re.search(r"replay=(\S+)", viol[0])
                if m and os.path.exists(m.group(1)):
                    d = json.load(open(m.group(1)))
                    msg = (d.get("message") or d.get("what") or "")[:300]
                    if d.get("cases"):
                        msg += " | case: " + d["cases"][0][:200]
            results[c] = {"exit": rc, "violations": len(viol), "no_failing_input": any("no-failing-input-found" in v for v in viol),
                          "first": msg, "wall_s": round(time.time() - t0, 1)}
            print(c, rc, len(viol), msg[:150], flush=True)
    finally:
        sh("git -C /repo checkout -- .")
        rc, out = sh("git -C /repo status --short")
        assert out.strip() == "", "/repo not restored: " + out
    # 3. store
    dst = os.path.join(VERIF, "seeded", name)
    os.makedirs(dst, exist_ok=True)
    shutil.copy(patch, os.path.join(dst, "patch.diff"))
    shutil.copy(demo, os.path.join(dst, "demo_%s.rs" % pid))
    if os.path.exists(os.path.join(wt, "NOTES.md")):
        shutil.copy(os.path.join(wt, "NOTES.md"), os.path.join(dst, "NOTES.md"))
    meta = {
        "breaks_property": pid,
        "needs_to_manifest": open(os.path.join(wt, "NOTES.md")).read()[:1500] if os.path.exists(os.path.join(wt, "NOTES.md")) else "",
        "confirmed": {"existing_suite_passes_with_change": suite_ok, "demo_fails_with_change": demo_bug, "demo_passes_without_change": demo_clean},
        "what_was_run": ran + ["git -C /repo apply patch.diff; ./check <id> quick for each id below; git -C /repo checkout -- ."],
        "checks": results,
        "caught_by": sorted(c for c, r in results.items() if r["violations"]),
        "target_check_caught_it": bool(results.get(pid, {}).get("violations")),
    }
    json.dump(meta, open(os.path.join(dst, "meta.json"), "w"), indent=1)
    for f in os.listdir(os.path.join(VERIF, "replays")):
        if f.endswith(".json"):
            os.remove(os.path.join(VERIF, "replays", f))
    print("SEEDED %s: suite_ok=%s demo_bug=%s demo_clean=%s caught_by=%s" % (pid, suite_ok, demo_bug, demo_clean, meta["caught_by"]))

if __name__ == "__main__":
    main()
