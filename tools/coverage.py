#!/usr/bin/env python3
"""Source coverage of /repo/src reached by the correspondence streams (a measurement of the generators, DESIGN 5.5).

  tools/coverage.py [quick|thorough] [C01 C02 ...]

Builds the harness with `-C instrument-coverage` (nightly toolchain: it ships the matching llvm-profdata / llvm-cov)
into a scratch directory, replays the case streams of the named properties (default: all twenty, quick tier, seed 1)
through it, and prints for every file of /repo/src the production lines (outside `#[cfg(test)]`) that no case
executed.  Writes /verif/seeded/coverage.json.  Scratch: $COV_WORK (default /tmp/ppp-cov), removed at the end.
"""
import json
import os
import re
import shutil
import subprocess
import sys

VERIF = os.path.dirname(os.path.dirname(os.path.abspath(__file__)))
sys.path.insert(0, VERIF)
from gen import props as PROPS  # noqa: E402
from gen.lib import Rng  # noqa: E402

WORK = os.environ.get("COV_WORK", "/tmp/ppp-cov")
TC = os.path.expanduser("~/.rustup/toolchains/nightly-x86_64-unknown-linux-gnu")
BIN = os.path.join(TC, "lib/rustlib/x86_64-unknown-linux-gnu/bin")


def sh(cmd, **kw):
    p = subprocess.run(cmd, stdout=subprocess.PIPE, stderr=subprocess.STDOUT, text=True, **kw)
    if p.returncode:
        raise SystemExit("failed: %s\n%s" % (" ".join(cmd), p.stdout[-3000:]))
    return p.stdout


def main(argv):
    tier = "quick"
    props = []
    for a in argv:
        if a in ("quick", "thorough"):
            tier = a
        else:
            props.append(a)
    props = props or ["C%02d" % i for i in range(1, 21)]
    os.makedirs(WORK, exist_ok=True)
    env = dict(os.environ, CARGO_NET_OFFLINE="true", RUSTFLAGS="-C instrument-coverage",
               CARGO_TARGET_DIR=os.path.join(WORK, "target"),
               LLVM_PROFILE_FILE=os.path.join(WORK, "build-%p.profraw"))   # build scripts / proc macros are instrumented too
    sh(["cargo", "+nightly", "build", "--offline"], cwd=os.path.join(VERIF, "harness"), env=env)
    exe = os.path.join(WORK, "target", "debug", "ppp-verif-harness")
    nprof = 0
    total_cases = 0
    for prop in props:
        P = PROPS.get(prop)
        for k in range(16):
            rng = Rng(1)
            path = os.path.join(WORK, "c.cases")
            n = 0
            with open(path, "w") as f:
                for stream in P.streams:
                    for (sname, e, meta) in stream(tier, rng, k, 16):
                        for (gtag, cases) in P.groups(sname, e, meta):
                            for c in cases:
                                f.write(c + "\n")
                                n += 1
            if not n:
                continue
            total_cases += n
            nprof += 1
            e2 = dict(os.environ, LLVM_PROFILE_FILE=os.path.join(WORK, "prof", "%s-%d.profraw" % (prop, k)))
            subprocess.run([exe, path], stdout=subprocess.DEVNULL, stderr=subprocess.DEVNULL, env=e2, timeout=3600)
        print(prop, "replayed", flush=True)
    raws = [os.path.join(WORK, "prof", f) for f in os.listdir(os.path.join(WORK, "prof"))]
    sh([os.path.join(BIN, "llvm-profdata"), "merge", "-sparse", "-o", os.path.join(WORK, "all.profdata")] + raws)
    out = sh([os.path.join(BIN, "llvm-cov"), "export", "-format=lcov", "-instr-profile", os.path.join(WORK, "all.profdata"),
              exe, "--ignore-filename-regex", r"(\.cargo|rustc|harness)/"])
    files, cur = {}, None
    for line in out.split("\n"):
        if line.startswith("SF:"):
            cur = line[3:]
            files[cur] = {}
        elif line.startswith("DA:") and cur:
            ln, cnt = line[3:].split(",")[:2]
            files[cur][int(ln)] = files[cur].get(int(ln), 0) + int(cnt)
    report = {"tier": tier, "properties": props, "cases": total_cases, "files": {}}
    for path in sorted(files):
        if "/repo/src" not in path:
            continue
        src = open(path, encoding="utf-8").read().split("\n")
        cut = len(src)
        for i, l in enumerate(src):
            if l.strip().startswith("#[cfg(test)]"):
                cut = i
                break
        lines = {ln: c for ln, c in files[path].items() if ln <= cut}
        missed = sorted(ln for ln, c in lines.items() if c == 0)
        report["files"][path] = {"instrumented_lines": len(lines), "executed": len(lines) - len(missed),
                                 "missed": [{"line": ln, "text": src[ln - 1].strip()[:120]} for ln in missed]}
        print("%-28s %4d/%4d lines executed" % (path.replace("/repo/", ""), len(lines) - len(missed), len(lines)))
        for ln in missed:
            print("      %5d  %s" % (ln, src[ln - 1].strip()[:110]))
    json.dump(report, open(os.path.join(VERIF, "seeded", "coverage.json"), "w"), indent=1)
    shutil.rmtree(WORK, ignore_errors=True)


if __name__ == "__main__":
    main(sys.argv[1:])
