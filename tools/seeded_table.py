#!/usr/bin/env python3
"""Prints the markdown table of DESIGN.md section 11 from seeded/*/meta.json."""
import json, os, re, sys
V = os.path.dirname(os.path.dirname(os.path.abspath(__file__)))
rows = []
for d in sorted(os.listdir(os.path.join(V, "seeded"))):
    mp = os.path.join(V, "seeded", d, "meta.json")
    if not os.path.exists(mp):
        continue
    m = json.load(open(mp))
    if "breaks_property" not in m or (len(sys.argv) > 1 and not d.endswith(sys.argv[1]) and not (sys.argv[1] == "r1" and "-" not in d)):
        continue
    notes = m.get("needs_to_manifest", "")
    summ = m.get("summary") or re.sub(r"\s+", " ", notes)[:160]
    sp = os.path.join(V, "seeded", "summaries.json")
    if os.path.exists(sp):
        summ = json.load(open(sp)).get(d, summ)
    tgt = m["breaks_property"]
    r = m["checks"].get(tgt, {})
    how = "direct oracle (failing input)" if r.get("violations") and not r.get("no_failing_input") else (
          "correspondence only (no-failing-input-found)" if r.get("violations") else "MISSED")
    caught = "yes" if m["target_check_caught_it"] else "**no**"
    others = [c for c in m["caught_by"] if c != tgt]
    bp = os.path.join(V, "seeded", d, "meta_before_strengthening.json")
    if os.path.exists(bp):
        b = json.load(open(bp))
        if not b["target_check_caught_it"]:
            caught = "**no** at the first pass; yes after strengthening"
        others = [c for c in b["caught_by"] if c != tgt]      # the full 20-check run was the first pass
    rows.append("| %s | %s | %s | %s | %s |" % (d, summ.replace("|", "/"), caught, how, ", ".join(others) or "–"))
print("| seeded change | what it does / what it needs to manifest | caught by its own check | how | also reported by |")
print("|---|---|---|---|---|")
print("\n".join(rows))
