#!/usr/bin/env python3
"""Rewrites the quick-tier table of DESIGN.md section 10 from evidence/*.json (run after the registered quick commands)."""
import json, os, re
V = os.path.dirname(os.path.dirname(os.path.abspath(__file__)))
rows, total = {}, 0
for i in range(1, 21):
    pid = "C%02d" % i
    d = json.load(open(os.path.join(V, "evidence", pid + ".json")))
    c = d["coverage"]
    assert d.get("tier") == "quick", (pid, d.get("tier"))
    streams = c.get("streams")
    n = len(streams) if isinstance(streams, (list, dict)) else streams
    rows[pid] = "| %s | %d | %d | %d | %s | %.1f |" % (pid, c["obligations"], c["evaluations"], c["distinct_nontrivial"], n, d.get("wall_s", 0))
    total += c["evaluations"]
p = os.path.join(V, "DESIGN.md")
s = open(p).read()
for pid, row in rows.items():
    s, k = re.subn(r"^\| %s \| \d+ \| \d+ \| \d+ \| \d+ \| [\d.]+ \|$" % pid, row, s, flags=re.M)
    assert k == 1, pid
s = re.sub(r"build and are smaller\), [\d.]+ M cases in all:", "build and are smaller), %.1f M cases in all:" % (total / 1e6), s)
open(p, "w").write(s)
print("table rewritten; %.1f M cases, %d theorems" % (total / 1e6, sum(int(r.split("|")[2]) for r in rows.values())))
